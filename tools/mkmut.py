#!/usr/bin/env python3
"""usage: mkmut.py <ID> <name> <repo-relative-file> <old> <new> [count]
Creates /verif/mutants/<ID>/<name>.diff by replacing <old> with <new> in the file (in /repo, reverted afterwards),
after checking the mutated tree still builds (default, verif and purego tags)."""
import os, subprocess, sys
ID, name, rel, old, new = sys.argv[1:6]
count = int(sys.argv[6]) if len(sys.argv) > 6 else 1
old = old.encode().decode('unicode_escape'); new = new.encode().decode('unicode_escape')
assert subprocess.run(["git", "-C", "/repo", "status", "--porcelain"], capture_output=True, text=True).stdout == "", "repo dirty"
p = os.path.join("/repo", rel)
s = open(p).read()
assert s.count(old) >= 1, "pattern not found"
if count == 0:
    s2 = s.replace(old, new)
else:
    assert s.count(old) == count, "pattern occurs %d times" % s.count(old)
    s2 = s.replace(old, new)
open(p, "w").write(s2)
try:
    for tags in ([], ["-tags", "verif"], ["-tags", "purego"]):
        r = subprocess.run(["go", "build"] + tags + ["./..."], cwd="/repo", capture_output=True, text=True)
        if r.returncode != 0:
            print("BUILD FAILS", tags, r.stderr[-800:]); sys.exit(1)
    d = subprocess.run(["git", "-C", "/repo", "diff"], capture_output=True, text=True).stdout
    os.makedirs("/verif/mutants/%s" % ID, exist_ok=True)
    open("/verif/mutants/%s/%s.diff" % (ID, name), "w").write(d)
    print("wrote mutants/%s/%s.diff" % (ID, name))
finally:
    subprocess.run(["git", "-C", "/repo", "checkout", "--", "."])
