#!/usr/bin/env python3
"""Regenerates MANIFEST.json from checks.json + manifest_meta.json (claimed levels / notes)."""
import json, os, subprocess
ROOT = os.path.dirname(os.path.dirname(os.path.abspath(__file__)))
cfg = json.load(open(os.path.join(ROOT, "checks.json")))
meta = json.load(open(os.path.join(ROOT, "manifest_meta.json")))
props = [json.loads(l) for l in open(os.path.join(ROOT, "properties.jsonl"))]
hook_commits = subprocess.run(["git", "-C", "/repo", "log", "--format=%H", "--grep=^verif hooks"], capture_output=True, text=True).stdout.split()
checks, na = [], []
for p in props:
    i = p["id"]
    if i in cfg and i in meta["checks"]:
        m = meta["checks"][i]
        checks.append({
            "property_id": i,
            "quick_cmd": "./check %s quick" % i,
            "thorough_cmd": "./check %s thorough" % i,
            "evidence_file": "/verif/evidence/%s.json" % i,
            "replay_cmd_template": "./check %s quick --replay {path}" % i,
            "engine": "rapid-harness",
            "level_claimed": {"category": "exploration", "text": m["text"], "design_ref": "DESIGN.md section 4 " + i},
            "level_note": m["note"],
            "technique": m["technique"],
        })
    else:
        na.append({"property_id": i, "reason": meta.get("not_applicable", {}).get(i, "check not built yet in this session; no claim is made")})
man = {
    "version": 1,
    "setup_cmd": "./setup.sh",
    "hooks": {
        "guard": "verif",
        "enable": "go build tag: every check builds /repo through the harness module with `-tags verif` (falls back to no tag if that does not compile)",
        "baseline_off_cmd": "cd /repo && go test -vet=off -count=1 -timeout 25m ./...",
        "source_commits": list(reversed(hook_commits)),
        "add_only": True,
    },
    "engines": [{"name": "rapid-harness", "path": "/verif/harness", "serves_properties": [c["property_id"] for c in checks],
                 "kind_free_text": "Go module with one test package per property: pgregory.net/rapid generators + math/big reference models, native go fuzz targets, driven by /verif/check"}],
    "checks": checks,
    "notes": meta.get("notes", ""),
    "not_applicable": na,
}
json.dump(man, open(os.path.join(ROOT, "MANIFEST.json"), "w"), indent=1)
print("claimed:", [c["property_id"] for c in checks], "unclaimed:", [n["property_id"] for n in na])
