package gen

import (
	"fmt"
	"math/big"
	"sync"

	"pgregory.net/rapid"

	"gitlab.com/yawning/secp256k1-voi/verifharness/ref"
)

// nextOnCurveX returns the first x' >= x (wrapping at p) that is the
// abscissa of a curve point.
func nextOnCurveX(x *big.Int) *big.Int {
	x = ref.Mod(x, ref.P)
	for i := 0; i < 1000; i++ {
		if ref.IsSquareP(ref.RHS(x)) {
			return x
		}
		x = ref.AddM(x, one, ref.P)
	}
	panic("gen: no curve point found")
}

// PointCase is a generated reference point with a description of how it
// was built.
type PointCase struct {
	P    ref.Pt
	Desc string
}

// Point draws a curve point (identity included) from the mixture.
func Point(t *rapid.T, label string) PointCase {
	strat := Sampled([]string{"kG", "kG", "lift", "lift", "lift-y", "small-x", "x>=n", "small-y", "identity", "lambda", "eq-steered"}).Draw(t, label+"_pstrat")
	odd := rapid.Bool().Draw(t, label+"_odd")
	switch strat {
	case "kG":
		k := Int256(t, ref.N, label+"_k")
		return PointCase{ref.BaseMul(k), "kG"}
	case "lift":
		var x0 *big.Int
		switch Sampled([]string{"raw", "raw", "mod-limbs", "limb-edge"}).Draw(t, label+"_xsrc") {
		case "mod-limbs": // abscissas that agree with p in some limbs (range checks on x-only keys, r, ...)
			x0 = ModLimbMix(t, ref.P, label+"_x")
		case "limb-edge":
			x0 = LimbEdge(t, ref.P, label+"_x")
		default:
			x0 = Raw256(t, ref.P, label+"_x")
		}
		x := nextOnCurveX(x0)
		p, _ := ref.LiftX(x, odd)
		return PointCase{p, "lift"}
	case "lift-y": // the ordinate is the drawn (boundary-biased / limb-pattern) value: P + O has Z = y in the complete formulas
		if rapid.IntRange(0, 2).Draw(t, label+"_yrel") == 0 {
			// keep the limb relation intact: redraw instead of stepping to the next admissible ordinate
			for i := 0; i < 12; i++ {
				y := ref.Mod(LimbRelation(t, ref.P, fmt.Sprintf("%s_yr%d", label, i)), ref.P)
				if roots := ref.CbrtP(ref.SubM(ref.MulM(y, y, ref.P), bi(7), ref.P)); len(roots) > 0 {
					return PointCase{ref.Pt{X: roots[rapid.IntRange(0, len(roots)-1).Draw(t, label+"_root")], Y: y}, "lift-y"}
				}
			}
		}
		y := Raw256(t, ref.P, label+"_y")
		y.Mod(y, ref.P)
		for i := 0; i < 1000; i++ {
			if roots := ref.CbrtP(ref.SubM(ref.MulM(y, y, ref.P), bi(7), ref.P)); len(roots) > 0 {
				return PointCase{ref.Pt{X: roots[rapid.IntRange(0, len(roots)-1).Draw(t, label+"_root")], Y: y}, "lift-y"}
			}
			y = ref.AddM(y, one, ref.P)
		}
		return PointCase{ref.G(), "kG"}
	case "eq-steered":
		// steer an intermediate of the curve-equation check (x^3, x^3 + 7 = y^2) to a hostile value H, in plain
		// or Montgomery form: x = cbrt(H) resp. y = sqrt(H), x = cbrt(H - 7)
		for i := 0; i < 24; i++ {
			h := hostileEq(t, fmt.Sprintf("%s_h%d", label, i))
			if rapid.Bool().Draw(t, fmt.Sprintf("%s_ysq%d", label, i)) {
				y, ok := ref.SqrtP(h)
				if !ok {
					continue
				}
				if roots := ref.CbrtP(ref.SubM(h, bi(7), ref.P)); len(roots) > 0 {
					if odd != (y.Bit(0) == 1) {
						y = ref.NegM(y, ref.P)
					}
					return PointCase{ref.Pt{X: roots[0], Y: y}, "eq-steered"}
				}
				continue
			}
			for _, x := range ref.CbrtP(h) {
				if p, ok := ref.LiftX(x, odd); ok {
					return PointCase{p, "eq-steered"}
				}
			}
		}
		return PointCase{ref.BaseMul(Int256(t, ref.N, label+"_k")), "kG"}
	case "small-x":
		x := nextOnCurveX(Small(t, label+"_x"))
		p, _ := ref.LiftX(x, odd)
		return PointCase{p, "small-x"}
	case "x>=n":
		x := nextOnCurveX(new(big.Int).Add(ref.N, Small(t, label+"_x")))
		p, _ := ref.LiftX(x, odd)
		return PointCase{p, "x>=n"}
	case "small-y":
		for y := Small(t, label+"_y"); ; y = new(big.Int).Add(y, one) {
			// x^3 = y^2 - 7
			roots := ref.CbrtP(ref.SubM(ref.MulM(y, y, ref.P), bi(7), ref.P))
			if len(roots) > 0 {
				x := roots[rapid.IntRange(0, len(roots)-1).Draw(t, label+"_root")]
				yy := ref.Mod(y, ref.P)
				if odd {
					yy = ref.NegM(yy, ref.P) // the large-y twin
				}
				return PointCase{ref.Pt{X: x, Y: yy}, "small-y"}
			}
		}
	case "identity":
		return PointCase{ref.Infinity(), "identity"}
	default: // lambda image of a small multiple
		k := Small(t, label+"_k")
		k.Add(k, one)
		e := rapid.IntRange(1, 2).Draw(t, label+"_e")
		l := ref.ExpM(ref.Lambda, bi(int64(e)), ref.N)
		return PointCase{ref.BaseMul(ref.MulM(k, l, ref.N)), "lambda"}
	}
}

// NonIdentityPoint draws a finite curve point.
func NonIdentityPoint(t *rapid.T, label string) PointCase {
	pc := Point(t, label)
	if pc.P.Inf {
		return PointCase{ref.G(), "G"}
	}
	return pc
}

// Point pair relations.
const (
	RelIndependent = "independent"
	RelEqual       = "Q=P"
	RelNeg         = "Q=-P"
	RelDouble      = "Q=2P"
	RelPlusG       = "Q=P+G"
	RelMinusG      = "Q=P-G"
	RelQInf        = "Q=O"
	RelPInf        = "P=O"
	RelBothInf     = "P=Q=O"
	RelLambda      = "Q=lambda*P"
	RelNegLambda   = "Q=-lambda^e*P (y cancels, x differs)"
	RelLambda2     = "Q=lambda^2*P"
	RelCollinear   = "Q on a small-slope line through P"
	RelSteered     = "Q solved so that an intermediate of the addition formulas is a hostile value"
)

// Steered solves for a second point Q such that one of the quantities the
// complete addition formulas compute from affine inputs -- x1+x2 (the value
// multiplied by 3b), y1+y2, x1*x2, y1*y2 -- equals (or, when that is not a
// coordinate of a curve point, comes within a few units of) the target T.
func Steered(t *rapid.T, p ref.Pt, label string) (ref.Pt, string, bool) {
	if p.Inf || p.X.Sign() == 0 || p.Y.Sign() == 0 {
		return ref.Pt{}, "", false
	}
	kind := Sampled([]string{"x-sum", "x-sum", "x-sum", "y-sum", "x-prod", "y-prod"}).Draw(t, label+"_what")
	var T *big.Int
	if rapid.Bool().Draw(t, label+"_frac") {
		T = FracEdge(t, ref.P, label+"_T")
	} else {
		T = Int256(t, ref.P, label+"_T")
	}
	for i := 0; i < 200; i++ {
		var q ref.Pt
		ok := false
		switch kind {
		case "x-sum":
			q, ok = ref.LiftX(ref.SubM(T, p.X, ref.P), rapid.Bool().Draw(t, label+"_odd"))
		case "x-prod":
			q, ok = ref.LiftX(ref.MulM(T, ref.Inv0(p.X, ref.P), ref.P), rapid.Bool().Draw(t, label+"_odd"))
		default:
			y2 := ref.SubM(T, p.Y, ref.P)
			if kind == "y-prod" {
				y2 = ref.MulM(T, ref.Inv0(p.Y, ref.P), ref.P)
			}
			if roots := ref.CbrtP(ref.SubM(ref.MulM(y2, y2, ref.P), big.NewInt(7), ref.P)); len(roots) > 0 {
				q, ok = ref.Pt{X: roots[0], Y: y2}, true
			}
		}
		if ok && q.Valid() && !q.Inf {
			return q, kind, true
		}
		T = ref.AddM(T, one, ref.P)
	}
	return ref.Pt{}, "", false
}

// Collinear returns another curve point on the line of slope m through p
// (so P != Q but m*x - y agrees: m = -1 gives x1+y1 = x2+y2, m = 1 gives
// x1-y1 = x2-y2), if the line meets the curve in further rational points.
// It is the hostile input for comparisons that fold the coordinate checks
// into one linear functional.
func Collinear(p ref.Pt, m *big.Int) (ref.Pt, bool) {
	if p.Inf || p.X.Sign() == 0 {
		return ref.Pt{}, false
	}
	// x^3 + 7 = (m(x-x1)+y1)^2 has roots x1, x2, x3 with x2+x3 = m^2-x1 and x1*x2*x3 = c^2-7, c = y1-m*x1.
	c := ref.SubM(p.Y, ref.MulM(m, p.X, ref.P), ref.P)
	sum := ref.SubM(ref.MulM(m, m, ref.P), p.X, ref.P)
	prod := ref.MulM(ref.SubM(ref.MulM(c, c, ref.P), big.NewInt(7), ref.P), ref.Inv0(p.X, ref.P), ref.P)
	disc := ref.SubM(ref.MulM(sum, sum, ref.P), ref.MulM(big.NewInt(4), prod, ref.P), ref.P)
	r, ok := ref.SqrtP(disc)
	if !ok {
		return ref.Pt{}, false
	}
	x2 := ref.MulM(ref.AddM(sum, r, ref.P), ref.Inv0(big.NewInt(2), ref.P), ref.P)
	y2 := ref.AddM(ref.MulM(m, ref.SubM(x2, p.X, ref.P), ref.P), p.Y, ref.P)
	q := ref.Pt{X: x2, Y: y2}
	if !q.Valid() || q.Eq(p) {
		return ref.Pt{}, false
	}
	return q, true
}

// PointPair draws (P, Q) and the relation used to build Q.
func PointPair(t *rapid.T, label string) (p, q ref.Pt, rel string) {
	pc := Point(t, label+"_P")
	p = pc.P
	rel = Sampled([]string{RelIndependent, RelIndependent, RelEqual, RelNeg, RelDouble, RelPlusG, RelMinusG,
		RelQInf, RelPInf, RelBothInf, RelLambda, RelLambda2, RelNegLambda, RelNegLambda, RelCollinear, RelSteered, RelSteered}).Draw(t, label+"_rel")
	switch rel {
	case RelEqual:
		q = p
	case RelNeg:
		q = p.Neg()
	case RelDouble:
		q = p.Double()
	case RelPlusG:
		q = p.Add(ref.G())
	case RelMinusG:
		q = p.Sub(ref.G())
	case RelQInf:
		q = ref.Infinity()
	case RelPInf:
		q, p = p, ref.Infinity()
	case RelBothInf:
		p, q = ref.Infinity(), ref.Infinity()
	case RelLambda:
		if p.Inf {
			q = p
		} else {
			q = ref.Pt{X: ref.MulM(p.X, ref.Beta, ref.P), Y: new(big.Int).Set(p.Y)}
		}
	case RelLambda2, RelNegLambda:
		if p.Inf {
			q = p
			break
		}
		bx := ref.MulM(p.X, ref.Beta, ref.P)
		if rel == RelLambda2 || rapid.Bool().Draw(t, label+"_sq") {
			bx = ref.MulM(bx, ref.Beta, ref.P)
		}
		q = ref.Pt{X: bx, Y: new(big.Int).Set(p.Y)}
		if rel == RelNegLambda {
			q = q.Neg()
		}
	case RelSteered:
		var ok bool
		if q, _, ok = Steered(t, p, label+"_st"); !ok {
			rel = RelIndependent
			q = Point(t, label+"_Q").P
		}
	case RelCollinear:
		slopes := []int64{-1, 1, 2, -2, 3, -3, 5, 7, 11, 13}
		start := rapid.IntRange(0, len(slopes)-1).Draw(t, label+"_slope")
		found := false
		for i := 0; i < len(slopes) && !found; i++ {
			m := ref.Mod(big.NewInt(slopes[(start+i)%len(slopes)]), ref.P)
			q, found = Collinear(p, m)
		}
		if !found {
			rel = RelIndependent
			q = Point(t, label+"_Q").P
		}
	default:
		q = Point(t, label+"_Q").P
	}
	return
}

// Scale draws a non-zero projective scale factor.
func Scale(t *rapid.T, label string) *big.Int {
	// The formulas multiply Z^2 (doubling), Z1*Z2 and X1*Z2+X2*Z1 (addition) by the curve constant 3b: besides
	// boundary-biased factors, draw factors whose square -- or whose product with the factor drawn just before
	// in the same case -- is a hostile value (next to k*2^256/c, next to a limb boundary, ...).
	var l *big.Int
	prev := lastScale(t)
	switch Sampled([]string{"plain", "plain", "plain", "sqrt-of-hostile", "sqrt-of-hostile", "product-with-previous"}).Draw(t, label+"_skind") {
	case "sqrt-of-hostile":
		for i := 0; i < 16 && l == nil; i++ {
			target := hostile(t, fmt.Sprintf("%s_t%d", label, i))
			if r, ok := ref.SqrtP(target); ok && r.Sign() != 0 {
				l = r
			}
		}
	case "product-with-previous":
		if prev != nil {
			l = ref.MulM(hostile(t, label+"_t"), ref.Inv0(prev, ref.P), ref.P)
		}
	}
	if l == nil {
		l = Int256(t, ref.P, label)
	}
	if l.Sign() == 0 {
		l.SetInt64(1)
	}
	rememberScale(t, l)
	return l
}

func hostileEq(t *rapid.T, label string) *big.Int {
	switch Sampled([]string{"mod-edge", "mod-edge", "mod-edge", "limb", "frac", "modlimb", "relation"}).Draw(t, label+"_h") {
	case "mod-edge":
		return ModEdge(t, ref.P, label)
	case "limb":
		return LimbEdge(t, ref.P, label)
	case "frac":
		return FracEdge(t, ref.P, label)
	case "modlimb":
		return ref.Mod(ModLimbMix(t, ref.P, label), ref.P)
	}
	return LimbRelation(t, ref.P, label)
}

func hostile(t *rapid.T, label string) *big.Int {
	switch Sampled([]string{"frac", "frac", "limb", "modlimb", "biased"}).Draw(t, label+"_h") {
	case "frac":
		return FracEdge(t, ref.P, label)
	case "limb":
		return LimbEdge(t, ref.P, label)
	case "modlimb":
		return ref.Mod(ModLimbMix(t, ref.P, label), ref.P)
	}
	return Int256(t, ref.P, label)
}

// The scale drawn last in the current case (keyed by the case's *rapid.T, so
// a replayed case sees exactly what the original saw).
var (
	scaleMu   sync.Mutex
	scaleMemo = map[*rapid.T]*big.Int{}
)

func lastScale(t *rapid.T) *big.Int {
	scaleMu.Lock()
	defer scaleMu.Unlock()
	return scaleMemo[t]
}

func rememberScale(t *rapid.T, l *big.Int) {
	scaleMu.Lock()
	defer scaleMu.Unlock()
	if len(scaleMemo) > 4096 {
		scaleMemo = map[*rapid.T]*big.Int{}
	}
	scaleMemo[t] = l
}

// SmallXPoint draws a curve point with x < 2^16+ (so x+p still fits 32 bytes).
func SmallXPoint(t *rapid.T, label string) PointCase {
	x := nextOnCurveX(Small(t, label+"_x"))
	p, _ := ref.LiftX(x, rapid.Bool().Draw(t, label+"_odd"))
	return PointCase{p, "small-x"}
}

// SmallYPoint draws a curve point with small y (so y+p still fits 32 bytes).
func SmallYPoint(t *rapid.T, label string) PointCase {
	for y := Small(t, label+"_y"); ; y = new(big.Int).Add(y, one) {
		roots := ref.CbrtP(ref.SubM(ref.MulM(y, y, ref.P), bi(7), ref.P))
		if len(roots) > 0 {
			x := roots[rapid.IntRange(0, len(roots)-1).Draw(t, label+"_root")]
			return PointCase{ref.Pt{X: x, Y: ref.Mod(y, ref.P)}, "small-y"}
		}
	}
}

// NearCurve returns canonical coordinates (x, y) that satisfy
// y^2 = x^3 + 7 + d for a small hostile offset d != 0 (so the point is OFF
// the curve): d = +-1, +-2^k, or an offset that changes exactly one 64-bit
// limb of the Montgomery representation (c * 2^(64*j) / R mod p).  It is the
// hostile input for an on-curve check whose final comparison looks at fewer
// bits than it should.
func NearCurve(t *rapid.T, label string) (x, y *big.Int, kind string) {
	kind = Sampled([]string{"+1", "-1", "2^k", "mont-limb", "mont-limb", "mont-limb"}).Draw(t, label+"_dkind")
	d := new(big.Int)
	switch kind {
	case "+1":
		d.SetInt64(1)
	case "-1":
		d.SetInt64(-1)
	case "2^k":
		d.Lsh(one, uint(rapid.IntRange(1, 255).Draw(t, label+"_k")))
	default:
		j := rapid.IntRange(0, 3).Draw(t, label+"_limb")
		c := Sampled([]uint64{1, 1, 2, 1 << 32, 1 << 63, ^uint64(0)}).Draw(t, label+"_coef")
		raw := new(big.Int).Lsh(new(big.Int).SetUint64(c), uint(64*j)) // difference of the internal representations
		d = ref.FromM(raw, ref.P)
		kind = fmt.Sprintf("mont-limb%d", j)
	}
	if rapid.Bool().Draw(t, label+"_dneg") {
		d.Neg(d)
	}
	d.Mod(d, ref.P)
	if d.Sign() == 0 {
		d.SetInt64(1)
	}
	x = Int256(t, ref.P, label+"_x")
	for {
		rhs := ref.AddM(ref.RHS(x), d, ref.P)
		if r, ok := ref.SqrtP(rhs); ok {
			y = r
			if rapid.Bool().Draw(t, label+"_yneg") {
				y = ref.NegM(y, ref.P)
			}
			if !ref.OnCurve(x, y) {
				return x, y, kind
			}
		}
		x = ref.AddM(x, one, ref.P)
	}
}
