package gen

import (
	"math/big"

	"pgregory.net/rapid"

	"gitlab.com/yawning/secp256k1-voi/verifharness/ref"
)

// Pair kinds.
const (
	PairIndependent = "independent"
	PairSumWindow   = "sum-window"
	PairNear        = "b=a+-d"
	PairProdWindow  = "prod-window"
	PairSquareWin   = "square-window"
	PairBitFlip     = "b=a^bit"
	PairNeg         = "b=-a"
	PairInv         = "b=1/a"
	PairMontNear    = "b~ = a~ with a small limb-level edit (Montgomery domain)"
	PairEqual       = "b=a"
	PairQuotient    = "Montgomery quotient digits of a~*b~ are hostile limbs"
	PairSqQuotient  = "Montgomery quotient digits of a~*a~ are hostile limbs (b=a)"
)

// MontQuotientOperand solves for the Montgomery-domain operand b~ such that
// the quotient Q = a~*b~*(-m^-1) mod 2^256 of the Montgomery reduction -- whose
// 64-bit limbs are exactly the per-round quotient digits q_0..q_3 of every
// word-serial (separate or interleaved) Montgomery multiplication -- is a drawn
// pattern of hostile limbs (0, 1, 2^63, 2^64-1, ...).  A hand-written
// multiplication or squaring that special-cases, or mishandles a borrow or
// carry for, one value of a quotient digit is wrong exactly there, and that
// digit is a pseudo-random function of the operands: about 2^-64 per digit
// for unsteered inputs.  With am == nil the square case a~*a~ is solved (2-adic
// square root); ok is false when no operand below m exists for the drawn
// pattern.
func MontQuotientOperand(t *rapid.T, m, am *big.Int, label string) (*big.Int, bool) {
	var q [4]uint64
	for i := range q {
		q[i] = Limb(t, label+"_q")
	}
	if rapid.Bool().Draw(t, label+"_onehostile") { // usually only one digit is special, the others ordinary
		keep := rapid.IntRange(0, 3).Draw(t, label+"_qkeep")
		for i := range q {
			if i != keep {
				q[i] = rapid.Uint64().Draw(t, label+"_qr")
			}
		}
	}
	mask := new(big.Int).Sub(two256, one)
	negM := new(big.Int).Sub(two256, m)
	if am != nil {
		if am.Bit(0) == 0 {
			return nil, false
		}
		// a~*b~ = -Q*m (mod 2^256)
		tgt := new(big.Int).Mul(ref.FromLimbs(q), negM)
		tgt.And(tgt, mask)
		bm := tgt.Mul(tgt, new(big.Int).ModInverse(am, two256))
		bm.And(bm, mask)
		return bm, bm.Cmp(m) < 0
	}
	// square: a~^2 = -Q*m (mod 2^256) has an (odd) solution iff -Q*m = 1 (mod 8), i.e. Q = -m (mod 8)
	q[0] = q[0]&^7 | negM.Uint64()&7
	tgt := new(big.Int).Mul(ref.FromLimbs(q), negM)
	tgt.And(tgt, mask)
	x := big.NewInt(1)
	for k := uint(3); k < 256; k++ { // x^2 = tgt (mod 2^k) holds; lift to 2^(k+1)
		d := new(big.Int).Mul(x, x)
		d.Sub(d, tgt)
		if d.Bit(int(k)) != 0 {
			x.Add(x, new(big.Int).Lsh(one, k-1))
		}
	}
	x.And(x, mask)
	if chk := new(big.Int).Mul(x, x); chk.And(chk, mask).Cmp(tgt) != 0 {
		panic("gen.MontQuotientOperand: 2-adic square root failed")
	}
	switch rapid.IntRange(0, 3).Draw(t, label+"_root") { // the four roots +-x, +-x + 2^255
	case 1:
		x.Sub(two256, x)
	case 2:
		x.Xor(x, new(big.Int).Lsh(one, 255))
	case 3:
		x.Sub(two256, x)
		x.Xor(x, new(big.Int).Lsh(one, 255))
	}
	return x, x.Cmp(m) < 0
}

// windowResidue draws r~ in [0, 2^256 - m): small, maximal or random.
func windowResidue(t *rapid.T, m *big.Int, label string) *big.Int {
	span := new(big.Int).Sub(two256, m)
	var r *big.Int
	switch rapid.IntRange(0, 2).Draw(t, label+"_wsel") {
	case 0:
		r = Small(t, label+"_w")
	case 1:
		r = new(big.Int).Sub(span, one)
		r.Sub(r, Small(t, label+"_w"))
	default:
		r = Uniform256(t, label+"_w")
	}
	r.Mod(r, span)
	if r.Sign() < 0 {
		r.Add(r, span)
	}
	return r
}

// Pair draws (a, b) in [0,m)^2 and the construction used.  The solved
// kinds place the *Montgomery-domain* operands a~ = aR, b~ = bR so that the
// unreduced sum / Montgomery product lands in [m, 2^256).
func Pair(t *rapid.T, m *big.Int, label string) (a, b *big.Int, kind string) {
	a = Int256(t, m, label+"_a")
	kind = Sampled([]string{
		PairIndependent, PairIndependent, PairSumWindow, PairNear, PairProdWindow,
		PairSquareWin, PairBitFlip, PairNeg, PairInv, PairEqual, PairMontNear, PairMontNear, PairQuotient, PairQuotient, PairSqQuotient,
	}).Draw(t, label+"_kind")
	am := ref.ToM(a, m)
	switch kind {
	case PairSumWindow:
		// a~ + b~ = m + d with 0 <= d < min(a~, 2^256 - m)
		lim := new(big.Int).Sub(two256, m)
		if am.Cmp(lim) < 0 {
			lim = am
		}
		if lim.Sign() == 0 {
			kind = PairIndependent
			b = Int256(t, m, label+"_b")
			break
		}
		d := windowResidue(t, m, label+"_d")
		d.Mod(d, lim)
		bm := new(big.Int).Add(m, d)
		bm.Sub(bm, am)
		b = ref.FromM(bm, m)
	case PairNear:
		b = ref.Mod(new(big.Int).Add(a, SignedSmall(t, label+"_d")), m)
	case PairProdWindow:
		if a.Sign() == 0 {
			kind = PairIndependent
			b = Int256(t, m, label+"_b")
			break
		}
		r := windowResidue(t, m, label+"_r")
		// b~ = r~ * R * a~^-1
		bm := ref.MulM(ref.MulM(r, two256, m), new(big.Int).ModInverse(am, m), m)
		b = ref.FromM(bm, m)
	case PairSquareWin:
		// a~ = sqrt(r~ * R): then a~*a~/R = r~ (mod m)
		found := false
		for i := 0; i < 8 && !found; i++ {
			r := windowResidue(t, m, label+"_r")
			sq := new(big.Int).ModSqrt(ref.MulM(r, two256, m), m)
			if sq != nil {
				a = ref.FromM(sq, m)
				found = true
			}
		}
		b = new(big.Int).Set(a)
		if !found {
			kind = PairEqual
		}
	case PairBitFlip:
		bit := rapid.IntRange(0, 255).Draw(t, label+"_bit")
		b = new(big.Int).Xor(a, new(big.Int).Lsh(one, uint(bit)))
		b.Mod(b, m)
	case PairMontNear:
		// b's internal (Montgomery) limbs are a's with a small edit: one bit flipped, one limb replaced, a
		// limb xor-ed with a subset of its neighbour's bits, two limbs swapped.  These are the unequal pairs a
		// limb-wise comparison that drops, repeats or mis-combines a limb calls equal.
		b = MontNear(t, m, a, label)
		if b == nil {
			kind = PairBitFlip
			b = new(big.Int).Xor(a, one)
			b.Mod(b, m)
		}
	case PairQuotient:
		if bm, ok := MontQuotientOperand(t, m, am, label+"_mq"); ok {
			b = ref.FromM(bm, m)
		} else {
			kind = PairIndependent
			b = Int256(t, m, label+"_b")
		}
	case PairSqQuotient:
		if sq, ok := MontQuotientOperand(t, m, nil, label+"_msq"); ok {
			a = ref.FromM(sq, m)
			b = new(big.Int).Set(a)
		} else {
			kind = PairEqual
			b = new(big.Int).Set(a)
		}
	case PairNeg:
		b = ref.NegM(a, m)
	case PairInv:
		b = ref.Inv0(a, m)
	case PairEqual:
		b = new(big.Int).Set(a)
	default:
		b = Int256(t, m, label+"_b")
	}
	return a, b, kind
}

// MontNear returns a value != a whose internal (Montgomery, R = 2^256) limbs are a's with a small edit: one bit
// flipped, one limb replaced, a limb xor-ed with a subset of its neighbour's bits, two limbs swapped.  These are
// the unequal pairs a limb-wise comparison that drops, repeats or mis-combines a limb calls equal.  nil if eight
// draws all left the range [0, m).
func MontNear(t *rapid.T, m, a *big.Int, label string) *big.Int {
	am := ref.ToM(a, m)
	la := ref.Limbs(am)
	for try := 0; try < 8; try++ {
		lb := la
		i := rapid.IntRange(0, 3).Draw(t, label+"_mlimb")
		switch Sampled([]string{"bit", "bit", "limb", "limb", "subset-of-neighbour", "swap", "two-bits"}).Draw(t, label+"_medit") {
		case "bit":
			lb[i] ^= 1 << uint(rapid.IntRange(0, 63).Draw(t, label+"_mbit"))
		case "two-bits":
			lb[i] ^= 1 << uint(rapid.IntRange(0, 63).Draw(t, label+"_mbit"))
			lb[rapid.IntRange(0, 3).Draw(t, label+"_mlimb2")] ^= 1 << uint(rapid.IntRange(0, 63).Draw(t, label+"_mbit2"))
		case "limb":
			lb[i] = rapid.Uint64().Draw(t, label+"_mval")
		case "subset-of-neighbour":
			lb[i] ^= la[i^1] & rapid.Uint64().Draw(t, label+"_mmask")
		case "swap":
			j := rapid.IntRange(0, 3).Draw(t, label+"_mlimb2")
			lb[i], lb[j] = lb[j], lb[i]
		}
		if bm := ref.FromLimbs(lb); bm.Cmp(m) < 0 && bm.Cmp(am) != 0 {
			return ref.FromM(bm, m)
		}
	}
	return nil
}
