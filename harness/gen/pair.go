package gen

import (
	"math/big"

	"pgregory.net/rapid"

	"gitlab.com/yawning/secp256k1-voi/verifharness/ref"
)

// Pair kinds.
const (
	PairIndependent = "independent"
	PairSumWindow   = "sum-window"
	PairNear        = "b=a+-d"
	PairProdWindow  = "prod-window"
	PairSquareWin   = "square-window"
	PairBitFlip     = "b=a^bit"
	PairNeg         = "b=-a"
	PairInv         = "b=1/a"
	PairEqual       = "b=a"
)

// windowResidue draws r~ in [0, 2^256 - m): small, maximal or random.
func windowResidue(t *rapid.T, m *big.Int, label string) *big.Int {
	span := new(big.Int).Sub(two256, m)
	var r *big.Int
	switch rapid.IntRange(0, 2).Draw(t, label+"_wsel") {
	case 0:
		r = Small(t, label+"_w")
	case 1:
		r = new(big.Int).Sub(span, one)
		r.Sub(r, Small(t, label+"_w"))
	default:
		r = Uniform256(t, label+"_w")
	}
	r.Mod(r, span)
	if r.Sign() < 0 {
		r.Add(r, span)
	}
	return r
}

// Pair draws (a, b) in [0,m)^2 and the construction used.  The solved
// kinds place the *Montgomery-domain* operands a~ = aR, b~ = bR so that the
// unreduced sum / Montgomery product lands in [m, 2^256).
func Pair(t *rapid.T, m *big.Int, label string) (a, b *big.Int, kind string) {
	a = Int256(t, m, label+"_a")
	kind = Sampled([]string{
		PairIndependent, PairIndependent, PairSumWindow, PairNear, PairProdWindow,
		PairSquareWin, PairBitFlip, PairNeg, PairInv, PairEqual,
	}).Draw(t, label+"_kind")
	am := ref.ToM(a, m)
	switch kind {
	case PairSumWindow:
		// a~ + b~ = m + d with 0 <= d < min(a~, 2^256 - m)
		lim := new(big.Int).Sub(two256, m)
		if am.Cmp(lim) < 0 {
			lim = am
		}
		if lim.Sign() == 0 {
			kind = PairIndependent
			b = Int256(t, m, label+"_b")
			break
		}
		d := windowResidue(t, m, label+"_d")
		d.Mod(d, lim)
		bm := new(big.Int).Add(m, d)
		bm.Sub(bm, am)
		b = ref.FromM(bm, m)
	case PairNear:
		b = ref.Mod(new(big.Int).Add(a, SignedSmall(t, label+"_d")), m)
	case PairProdWindow:
		if a.Sign() == 0 {
			kind = PairIndependent
			b = Int256(t, m, label+"_b")
			break
		}
		r := windowResidue(t, m, label+"_r")
		// b~ = r~ * R * a~^-1
		bm := ref.MulM(ref.MulM(r, two256, m), new(big.Int).ModInverse(am, m), m)
		b = ref.FromM(bm, m)
	case PairSquareWin:
		// a~ = sqrt(r~ * R): then a~*a~/R = r~ (mod m)
		found := false
		for i := 0; i < 8 && !found; i++ {
			r := windowResidue(t, m, label+"_r")
			sq := new(big.Int).ModSqrt(ref.MulM(r, two256, m), m)
			if sq != nil {
				a = ref.FromM(sq, m)
				found = true
			}
		}
		b = new(big.Int).Set(a)
		if !found {
			kind = PairEqual
		}
	case PairBitFlip:
		bit := rapid.IntRange(0, 255).Draw(t, label+"_bit")
		b = new(big.Int).Xor(a, new(big.Int).Lsh(one, uint(bit)))
		b.Mod(b, m)
	case PairNeg:
		b = ref.NegM(a, m)
	case PairInv:
		b = ref.Inv0(a, m)
	case PairEqual:
		b = new(big.Int).Set(a)
	default:
		b = Int256(t, m, label+"_b")
	}
	return a, b, kind
}
