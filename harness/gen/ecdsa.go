package gen

import (
	"crypto"
	"math/big"

	"pgregory.net/rapid"

	"gitlab.com/yawning/secp256k1-voi/verifharness/ref"
)

// SSpecial draws an s value incl. the half-order boundary.
func SSpecial(t *rapid.T, label string) *big.Int {
	n := ref.N
	sp := []*big.Int{bi(1), bi(2), ref.HalfN, new(big.Int).Add(ref.HalfN, one), new(big.Int).Sub(ref.HalfN, one),
		new(big.Int).Sub(n, one), new(big.Int).Sub(n, bi(2))}
	i := rapid.IntRange(0, len(sp)+7).Draw(t, label+"_sel")
	if i < len(sp) {
		return new(big.Int).Set(sp[i])
	}
	return NonZero256(t, n, label)
}

// Digest encodes e (any value < 2^256) into a digest of the requested
// length >= 32: the leftmost 32 bytes carry e (or e+n when alias is set and
// that still fits), the tail is drawn.
func Digest(t *rapid.T, e *big.Int, length int, alias bool, label string) ([]byte, bool) {
	v := new(big.Int).Set(e)
	aliased := false
	if alias {
		w := new(big.Int).Add(v, ref.N)
		if w.BitLen() <= 256 {
			v, aliased = w, true
		}
	}
	d := ref.B32(v)
	if length > 32 {
		d = append(d, Bytes(t, length-32, length-32, label+"_tail")...)
	}
	return d, aliased
}

// EValue draws the integer e of a digest: specials and general values, any
// value in [0, 2^256).
func EValue(t *rapid.T, label string) *big.Int {
	switch rapid.IntRange(0, 5).Draw(t, label+"_esel") {
	case 0:
		return bi(0)
	case 1:
		return new(big.Int).Sub(two256, one)
	case 2:
		return new(big.Int).Add(ref.N, SignedSmall(t, label+"_eo"))
	default:
		return Raw256(t, ref.N, label)
	}
}

// HashChoice is a crypto.Hash with a defined Size().
//
// Every identifier the standard library knows is included, whether or not its
// implementation is linked into the test binary: the library only needs the
// identifier's digest size (crypto.Hash.Size works without the implementation),
// so e.g. a BLAKE2b-256 digest is as admissible as a SHA-256 one.
var HashChoices = []crypto.Hash{0, crypto.SHA1, crypto.SHA224, crypto.SHA256, crypto.SHA384, crypto.SHA512, crypto.SHA512_256, crypto.SHA3_256,
	crypto.MD5, crypto.RIPEMD160, crypto.MD5SHA1, crypto.SHA3_224, crypto.SHA3_384, crypto.SHA3_512, crypto.SHA512_224,
	crypto.BLAKE2s_256, crypto.BLAKE2b_256, crypto.BLAKE2b_384, crypto.BLAKE2b_512}

// WideHashChoices are the identifiers whose digests are at least 32 bytes
// (the only ones a signature can be valid for).
var WideHashChoices = []crypto.Hash{0, crypto.SHA256, crypto.SHA384, crypto.SHA512, crypto.SHA512_256, crypto.SHA3_256, crypto.SHA3_384, crypto.SHA3_512,
	crypto.BLAKE2s_256, crypto.BLAKE2b_256, crypto.BLAKE2b_384, crypto.BLAKE2b_512}

// HashSize is the digest size the library will demand for h under
// *ECDSAOptions (0 means SHA-256).
func HashSize(h crypto.Hash) int {
	if h == 0 {
		h = crypto.SHA256
	}
	return h.Size()
}
