package gen

import (
	"go/ast"
	"go/parser"
	"go/token"
	"os"
	"path/filepath"
	"sort"
	"strconv"
	"strings"
	"sync"

	"pgregory.net/rapid"
)

var (
	dictOnce sync.Once
	dict     [][]byte
)

// SourceDictionary returns the string literals (3..80 bytes) that occur in
// the library's non-test sources, parsed from the current tree ($VERIF_REPO,
// default /repo) -- the classic fuzzing dictionary.  A special case keyed on a
// magic byte string (a reserved prefix, a tag, a domain string) cannot be hit
// by random bytes (2^-8k for k bytes) but is hit at once when the inputs are
// built from the program's own constants.  A few protocol constants from the
// standards are always included.
func SourceDictionary() [][]byte {
	dictOnce.Do(func() {
		set := map[string]bool{
			"H2C-OVERSIZE-DST-": true, "QUUX-V01-CS02-with-secp256k1_XMD:SHA-256_SSWU_RO_": true, "QUUX-V01-CS02-with-secp256k1_XMD:SHA-256_SSWU_NU_": true,
			"BIP0340/challenge": true, "BIP0340/aux": true, "BIP0340/nonce": true, "secp256k1": true,
		}
		root := os.Getenv("VERIF_REPO")
		if root == "" {
			root = "/repo"
		}
		fset := token.NewFileSet()
		_ = filepath.Walk(root, func(p string, info os.FileInfo, err error) error {
			if err != nil {
				return nil
			}
			if info.IsDir() {
				if (strings.HasPrefix(info.Name(), ".") && p != root) || info.Name() == "testdata" {
					return filepath.SkipDir
				}
				return nil
			}
			if !strings.HasSuffix(p, ".go") || strings.HasSuffix(p, "_test.go") {
				return nil
			}
			f, err := parser.ParseFile(fset, p, nil, 0)
			if err != nil {
				return nil
			}
			ast.Inspect(f, func(n ast.Node) bool {
				if imp, ok := n.(*ast.ImportSpec); ok && imp != nil {
					return false
				}
				if lit, ok := n.(*ast.BasicLit); ok && lit.Kind == token.STRING {
					if s, err := strconv.Unquote(lit.Value); err == nil && len(s) >= 3 && len(s) <= 80 {
						set[s] = true
					}
				}
				return true
			})
			return nil
		})
		var keys []string
		for k := range set {
			keys = append(keys, k)
		}
		sort.Strings(keys) // deterministic order
		for _, k := range keys {
			dict = append(dict, []byte(k))
		}
	})
	return dict
}

// DictBytes draws a byte string built around a dictionary entry: the entry
// itself, the entry followed / preceded by drawn bytes, or two entries.
func DictBytes(t *rapid.T, maxExtra int, label string) []byte {
	d := SourceDictionary()
	e := d[int(rapid.Uint32Range(0, uint32(len(d)-1)).Draw(t, label+"_entry"))]
	out := append([]byte(nil), e...)
	switch Sampled([]string{"bare", "suffix", "suffix", "prefix", "double", "truncated"}).Draw(t, label+"_shape") {
	case "suffix":
		out = append(out, Bytes(t, 1, maxExtra, label+"_suffix")...)
	case "prefix":
		out = append(Bytes(t, 1, maxExtra, label+"_prefix"), out...)
	case "double":
		out = append(out, d[int(rapid.Uint32Range(0, uint32(len(d)-1)).Draw(t, label+"_entry2"))]...)
	case "truncated":
		if len(out) > 1 {
			out = out[:len(out)-1]
		}
	}
	return out
}

var (
	intDictOnce sync.Once
	intDict     []int
)

// SourceIntLiterals returns the integer constants in [lo, hi] that occur in
// the library's non-test sources, as literals or as `1 << k` expressions,
// parsed from the current tree (vendored generated arithmetic under
// internal/fiat is skipped: its literals are limb constants).  A list length,
// a count or a size at which the code switches algorithm, batches or caps
// something is written down in the source as such a number; lengths next to
// every one of them are where a length-dependent path begins.
func SourceIntLiterals(lo, hi int) []int {
	intDictOnce.Do(func() {
		set := map[int]bool{}
		root := os.Getenv("VERIF_REPO")
		if root == "" {
			root = "/repo"
		}
		fset := token.NewFileSet()
		_ = filepath.Walk(root, func(p string, info os.FileInfo, err error) error {
			if err != nil {
				return nil
			}
			if info.IsDir() {
				if (strings.HasPrefix(info.Name(), ".") && p != root) || info.Name() == "testdata" || info.Name() == "fiat" {
					return filepath.SkipDir
				}
				return nil
			}
			if !strings.HasSuffix(p, ".go") || strings.HasSuffix(p, "_test.go") {
				return nil
			}
			f, err := parser.ParseFile(fset, p, nil, 0)
			if err != nil {
				return nil
			}
			intOf := func(e ast.Expr) (int, bool) {
				if lit, ok := e.(*ast.BasicLit); ok && lit.Kind == token.INT {
					if v, err := strconv.ParseInt(strings.ReplaceAll(lit.Value, "_", ""), 0, 64); err == nil && v >= 0 && v < 1<<31 {
						return int(v), true
					}
				}
				return 0, false
			}
			ast.Inspect(f, func(n ast.Node) bool {
				switch x := n.(type) {
				case *ast.BasicLit:
					if v, ok := intOf(x); ok {
						set[v] = true
					}
				case *ast.BinaryExpr:
					if x.Op == token.SHL {
						if a, ok1 := intOf(x.X); ok1 {
							if k, ok2 := intOf(x.Y); ok2 && k < 31 && a > 0 && a < 1<<10 {
								set[a<<uint(k)] = true
							}
						}
					}
				}
				return true
			})
			return nil
		})
		for v := range set {
			intDict = append(intDict, v)
		}
		sort.Ints(intDict)
	})
	var out []int
	for _, v := range intDict {
		if v >= lo && v <= hi {
			out = append(out, v)
		}
	}
	return out
}
