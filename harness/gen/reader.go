package gen

import (
	crand "crypto/rand"
	"errors"
	"fmt"
	"io"
	"runtime"
	"time"

	"pgregory.net/rapid"
)

// ErrScripted is returned by a ScriptedReader at its failure point.
var ErrScripted = errors.New("scripted reader failure")

// ScriptedReader is a deterministic io.Reader: it delivers Data in the
// given chunk sizes (cycling), and fails once FailAfter bytes have been
// delivered (FailAfter < 0: never; after Data is exhausted it keeps failing).
type ScriptedReader struct {
	Data      []byte
	Chunks    []int
	FailAfter int
	Consumed  int
	Calls     int
	Desc      string
	// Err is the error returned at the failure point (default ErrScripted).
	// io.EOF is what a drained bytes.Reader / file / finite pool returns.
	Err error
	// ErrWithData makes the read that delivers the last available bytes return
	// them together with Err (allowed by the io.Reader contract) instead of
	// returning (n, nil) first and (0, Err) on the next call.
	ErrWithData bool
	// Collect makes every Read run a garbage collection (and give finalizers
	// time to run) first: a slow entropy source is where a collection lands in
	// the middle of a signing call, and objects the call no longer references
	// -- the key, when the call is its last use -- may be finalized right there.
	Collect bool
}

// CollectNow runs a garbage collection and lets queued finalizers run.
func CollectNow() {
	runtime.GC()
	time.Sleep(500 * time.Microsecond)
	runtime.GC()
	time.Sleep(200 * time.Microsecond)
}

// ErrPanic as the Err of a ScriptedReader makes the reader panic at its
// failure point instead of returning an error (a caller-supplied source may
// do that - the library's own RFC6979SHA256() reader does when it is used
// out of context - and the caller may recover and go on using its key).
var ErrPanic = errors.New("scripted reader panic")

func (r *ScriptedReader) failure() error {
	if r.Err == ErrPanic {
		panic(ErrPanic)
	}
	if r.Err != nil {
		return r.Err
	}
	return ErrScripted
}

func (r *ScriptedReader) Read(p []byte) (int, error) {
	r.Calls++
	if r.Collect {
		CollectNow()
	}
	if len(p) == 0 {
		return 0, nil
	}
	limit := len(r.Data)
	if r.FailAfter >= 0 && r.FailAfter < limit {
		limit = r.FailAfter
	}
	if r.Consumed >= limit {
		return 0, r.failure()
	}
	n := len(p)
	if len(r.Chunks) > 0 {
		c := r.Chunks[(r.Calls-1)%len(r.Chunks)]
		if c < n {
			n = c
		}
	}
	if n < 1 {
		n = 1
	}
	if rem := limit - r.Consumed; n > rem {
		n = rem
	}
	copy(p, r.Data[r.Consumed:r.Consumed+n])
	r.Consumed += n
	if r.ErrWithData && r.Consumed >= limit {
		return n, r.failure()
	}
	return n, nil
}

// FailureKind draws the error a failing reader reports and whether it comes
// together with the last data.
func FailureKind(t *rapid.T, label string) (err error, withData bool, desc string) {
	desc = Sampled([]string{"custom", "custom", "EOF", "EOF", "ErrUnexpectedEOF", "EOF+data", "custom+data"}).Draw(t, label+"_errkind")
	switch desc {
	case "EOF":
		return io.EOF, false, desc
	case "ErrUnexpectedEOF":
		return io.ErrUnexpectedEOF, false, desc
	case "EOF+data":
		return io.EOF, true, desc
	case "custom+data":
		return ErrScripted, true, desc
	}
	return ErrScripted, false, desc
}

// Clone returns a fresh reader with the same script.
func (r *ScriptedReader) Clone() *ScriptedReader {
	return &ScriptedReader{Data: append([]byte(nil), r.Data...), Chunks: append([]int(nil), r.Chunks...), FailAfter: r.FailAfter, Desc: r.Desc, Err: r.Err, ErrWithData: r.ErrWithData, Collect: r.Collect}
}

// EntropyContent draws n bytes of reader content: constant, counter, zero,
// all-ones or random.
func EntropyContent(t *rapid.T, n int, label string) ([]byte, string) {
	kind := Sampled([]string{"zero", "ones", "constant", "counter", "random", "random"}).Draw(t, label+"_content")
	b := make([]byte, n)
	switch kind {
	case "ones":
		for i := range b {
			b[i] = 0xff
		}
	case "constant":
		c := rapid.Byte().Draw(t, label+"_const")
		for i := range b {
			b[i] = c
		}
	case "counter":
		for i := range b {
			b[i] = byte(i)
		}
	case "random":
		copy(b, Bytes(t, n, n, label+"_rand"))
	}
	return b, kind
}

// Reader draws a non-failing scripted reader holding n bytes.
func Reader(t *rapid.T, n int, label string) *ScriptedReader {
	data, kind := EntropyContent(t, n, label)
	var chunks []int
	ck := Sampled([]string{"whole", "1-byte", "drawn"}).Draw(t, label+"_chunking")
	switch ck {
	case "1-byte":
		chunks = []int{1}
	case "drawn":
		chunks = rapid.SliceOfN(rapid.IntRange(1, 33), 1, 6).Draw(t, label+"_chunks")
	}
	return &ScriptedReader{Data: data, Chunks: chunks, FailAfter: -1, Desc: fmt.Sprintf("%s/%s", kind, ck)}
}

// WithProcessEntropy runs f while the process-wide entropy source
// (crypto/rand.Reader, what the library falls back to when the caller passes a
// nil reader) is replaced by rd.  The source a nil argument selects is one
// more reader slot: the same scripted contents, short reads and failures apply
// to it.  Not safe for concurrent use (the harness' properties run one at a
// time in a process).
func WithProcessEntropy(rd io.Reader, f func()) {
	old := crand.Reader
	crand.Reader = rd
	defer func() { crand.Reader = old }()
	f()
}

// SetProcessEntropy replaces the process-wide entropy source until the
// returned function is called.
func SetProcessEntropy(rd io.Reader) (restore func()) {
	old := crand.Reader
	crand.Reader = rd
	return func() { crand.Reader = old }
}
