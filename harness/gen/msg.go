package gen

import "pgregory.net/rapid"

var msgLens = []int{0, 1, 31, 32, 33, 55, 56, 57, 63, 64, 65, 119, 120, 128, 300}

// Message draws a message with length dense around hash block boundaries.
func Message(t *rapid.T, label string) []byte {
	if rapid.IntRange(0, 11).Draw(t, label+"_dict") == 0 {
		return DictBytes(t, 64, label+"_d") // messages built from the program's own string constants
	}
	var n int
	switch rapid.IntRange(0, 9).Draw(t, label+"_lensel") {
	case 0:
		n = rapid.IntRange(0, 300).Draw(t, label+"_len")
	case 1:
		n = 32
	case 2:
		if rapid.IntRange(0, 7).Draw(t, label+"_big") == 0 {
			n = 4096
		} else {
			n = 32
		}
	default:
		n = Sampled(msgLens).Draw(t, label+"_lenpick")
	}
	b := make([]byte, n)
	switch rapid.IntRange(0, 3).Draw(t, label+"_content") {
	case 0: // zeros
	case 1:
		for i := range b {
			b[i] = 0xff
		}
	default:
		if n <= 300 {
			copy(b, Bytes(t, n, n, label))
		} else {
			seed := Bytes(t, 32, 32, label)
			for i := range b {
				b[i] = seed[i%32] ^ byte(i>>5)
			}
		}
	}
	return b
}
