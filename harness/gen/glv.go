package gen

import (
	"fmt"
	"math/big"

	"pgregory.net/rapid"

	"gitlab.com/yawning/secp256k1-voi/verifharness/ref"
)

// GLV scalar kinds.
const (
	GLVSpecial   = "special"
	GLVHalves    = "chosen-halves"
	GLVQuotient  = "chosen-quotient"
	GLVShort     = "short-halves"
	GLVNibble    = "single-nibble-half"
	GLVGeneral   = "general"
	GLVLambdaPow = "lambda-power"
)

var glvSpecials = func() []*big.Int {
	n := ref.N
	out := []*big.Int{bi(0), bi(1), bi(2), new(big.Int).Sub(n, bi(1)), new(big.Int).Sub(n, bi(2))}
	for d := int64(-1); d <= 2; d++ {
		out = append(out, new(big.Int).Add(ref.HalfN, bi(d)))
	}
	return out
}()

// fracHalf returns f*v rounded to the nearest integer for
// f = sign * (1/2 - 2^-j) (j >= 1; j large means "almost exactly one half").
func fracHalfTimes(v *big.Int, sign int, j uint) *big.Int {
	// f*v = sign*(v*2^(j-1) - v) / 2^j
	num := new(big.Int).Lsh(v, j-1)
	num.Sub(num, v)
	if sign < 0 {
		num.Neg(num)
	}
	den := new(big.Int).Lsh(one, j)
	// round to nearest
	twice := new(big.Int).Lsh(num, 1)
	twice.Add(twice, den)
	q := new(big.Int).Div(twice, new(big.Int).Lsh(den, 1)) // floor((2num+den)/(2den))
	return q
}

// GLVScalar draws a scalar in [0,n) steered at the endomorphism split.
func GLVScalar(t *rapid.T, label string) (*big.Int, string) {
	kind := Sampled([]string{GLVSpecial, GLVHalves, GLVHalves, GLVQuotient, GLVQuotient, GLVNibble, GLVGeneral, GLVLambdaPow, GLVShort, GLVShort}).Draw(t, label+"_kind")
	n := ref.N
	switch kind {
	case GLVSpecial:
		return new(big.Int).Set(Sampled(glvSpecials).Draw(t, label+"_sp")), kind
	case GLVLambdaPow:
		e := rapid.IntRange(0, 2).Draw(t, label+"_e")
		v := ref.ExpM(ref.Lambda, bi(int64(e)), n)
		if rapid.Bool().Draw(t, label+"_neg") {
			v = ref.NegM(v, n)
		}
		v = ref.MulM(v, new(big.Int).Add(Small(t, label+"_m"), one), n)
		return v, kind
	case GLVHalves:
		// (k1,k2) = round(f1*v1 + f2*v2), f_i = +-(1/2 - 2^-j): the corners / edges of the fundamental cell
		part := func(l string) (int, uint) {
			s := 1
			if rapid.Bool().Draw(t, l+"_sign") {
				s = -1
			}
			return s, uint(rapid.IntRange(1, 132).Draw(t, l+"_j"))
		}
		s1, j1 := part(label + "_f1")
		s2, j2 := part(label + "_f2")
		k1 := new(big.Int).Add(fracHalfTimes(ref.GLVa1, s1, j1), fracHalfTimes(ref.GLVa2, s2, j2))
		k2 := new(big.Int).Add(fracHalfTimes(ref.GLVb1, s1, j1), fracHalfTimes(ref.GLVb2, s2, j2))
		k1.Add(k1, SignedSmall(t, label+"_d1"))
		return ref.Mod(new(big.Int).Add(k1, new(big.Int).Mul(k2, ref.Lambda)), n), kind
	case GLVQuotient:
		// s = floor((4c+3) * 2^384 / (4g)), c = m*2^64 - 1: k*g/2^384 sits at c + 3/4, i.e. low quotient limb all-ones
		// and the rounding bit set, so the rounded quotient carries across the 64-bit limb.
		g := Sampled([]*big.Int{ref.GLVg1, ref.GLVg2}).Draw(t, label+"_g")
		maxQ := new(big.Int).Rsh(new(big.Int).Mul(n, g), 384) // largest reachable quotient
		mMax := new(big.Int).Rsh(maxQ, 64)
		m := new(big.Int).Mod(Uniform256(t, label+"_m"), new(big.Int).Add(mMax, one))
		if rapid.Bool().Draw(t, label+"_msmall") {
			m = new(big.Int).Add(Small(t, label+"_ms"), one)
		}
		if m.Sign() == 0 {
			m.SetInt64(1)
		}
		c := new(big.Int).Lsh(m, 64)
		c.Sub(c, one)
		num := new(big.Int).Lsh(c, 2)
		num.Add(num, bi(3))
		num.Lsh(num, 384)
		s := num.Div(num, new(big.Int).Lsh(g, 2))
		s.Add(s, bi(int64(rapid.IntRange(-2, 2).Draw(t, label+"_adj"))))
		return ref.Mod(s, n), kind
	case GLVShort:
		// s = k1 + k2*lambda with two short halves of independently drawn byte lengths (0..16) and signs:
		// ladders that skip leading zero windows, or size their loop from one half, see unequal lengths here
		half := func(l string) *big.Int {
			nb := rapid.IntRange(0, 16).Draw(t, l+"_bytes")
			if nb == 0 {
				return new(big.Int)
			}
			b := Bytes(t, nb, nb, l)
			if rapid.Bool().Draw(t, l+"_top") {
				b[0] |= 0x80
			} else if b[0] == 0 {
				b[0] = 1
			}
			v := new(big.Int).SetBytes(b)
			if rapid.Bool().Draw(t, l+"_neg") {
				v.Neg(v)
			}
			return v
		}
		k1, k2 := half(label+"_k1"), half(label+"_k2")
		return ref.Mod(new(big.Int).Add(k1, new(big.Int).Mul(k2, ref.Lambda)), n), kind
	case GLVNibble:
		i := rapid.IntRange(0, 31).Draw(t, label+"_pos")
		d := rapid.IntRange(1, 15).Draw(t, label+"_dig")
		h := new(big.Int).Lsh(bi(int64(d)), uint(4*i))
		if rapid.Bool().Draw(t, label+"_neg") {
			h.Neg(h)
		}
		if rapid.Bool().Draw(t, label+"_second") {
			h.Mul(h, ref.Lambda)
		}
		return ref.Mod(h, n), kind
	default:
		return Int256(t, n, label), kind
	}
}

// ExceptionalDouble draws (k, u1, u2) for the evaluation of u1*G + u2*P with
// P = k*G such that an accumulator that starts at u2*P and then adds the
// fixed-base table entries for the windows of u1 one after the other (width 4
// or 8 bits, from the top or from the bottom) is, just before it adds the
// entry W = digit*2^(w*i)*G of some window i, equal to +-W itself: an addition
// formula that is not complete (no doubling / no P + (-P) case) fails exactly
// there.  u2 = (+-W - processed)/k where processed is the part of u1 already
// added.  The total u1 + u2*k is otherwise unremarkable.
func ExceptionalDouble(t *rapid.T, label string) (k, u1, u2 *big.Int, kind string) {
	n := ref.N
	k = NonZero256(t, n, label+"_k")
	u1 = new(big.Int).Mod(Uniform256(t, label+"_u1"), n)
	w := uint(Sampled([]int{4, 8}).Draw(t, label+"_w"))
	nw := 256 / int(w)
	i := rapid.IntRange(0, nw-1).Draw(t, label+"_win")
	if rapid.IntRange(0, 2).Draw(t, label+"_edge") == 0 { // the first or last window processed
		i = Sampled([]int{0, nw - 1}).Draw(t, label+"_edgewin")
	}
	mask := new(big.Int).Sub(new(big.Int).Lsh(one, w), one)
	digit := new(big.Int).And(new(big.Int).Rsh(u1, w*uint(i)), mask)
	if digit.Sign() == 0 { // make the window non-zero
		u1.Add(u1, new(big.Int).Lsh(one, w*uint(i)))
		u1.Mod(u1, n)
		digit = new(big.Int).And(new(big.Int).Rsh(u1, w*uint(i)), mask)
		if digit.Sign() == 0 {
			return k, u1, Int256(t, n, label+"_u2"), "independent"
		}
	}
	W := new(big.Int).Lsh(digit, w*uint(i))
	high := new(big.Int).Rsh(u1, w*uint(i+1))
	high.Lsh(high, w*uint(i+1))
	low := new(big.Int).And(u1, new(big.Int).Sub(new(big.Int).Lsh(one, w*uint(i)), one))
	processed := high
	dir := "top-down"
	if rapid.Bool().Draw(t, label+"_bottomup") {
		processed, dir = low, "bottom-up"
	}
	sign := "+"
	tgt := new(big.Int).Set(W)
	if rapid.Bool().Draw(t, label+"_negw") {
		tgt.Neg(tgt)
		sign = "-"
	}
	tgt.Sub(tgt, processed)
	u2 = ref.MulM(ref.Mod(tgt, n), ref.Inv0(k, n), n)
	return k, u1, u2, fmt.Sprintf("exceptional-window:w%d:%s:%s", w, dir, sign)
}
