package gen

import (
	"sync"
	"time"
)

// GatedReader is an entropy source that, once At bytes have been delivered (as a short read), runs Beside before
// it delivers the rest: the caller of the library makes other calls while one call sits in the middle of reading
// its entropy.  This is a schedule the harness owns (nothing is left to the scheduler): from the library's side it
// is a call that overlaps another one at exactly this point, which is where a slow or blocking source puts every
// concurrent caller.  Beside runs on its own goroutine (a library that holds a lock across the read must not turn
// into a deadlock of ours); the reader waits for it, but only for Patience - when that runs out the read simply
// goes on and the other call is joined by Join() afterwards.  The clock decides what gets interleaved, never a
// verdict.
type GatedReader struct {
	Data     []byte
	At       int
	Beside   func()
	Patience time.Duration
	consumed int
	fired    bool
	wg       sync.WaitGroup
	// Overlapped reports whether Beside ran to completion inside the read.
	Overlapped bool
}

func (r *GatedReader) Read(p []byte) (int, error) {
	if len(p) == 0 {
		return 0, nil
	}
	if !r.fired && r.consumed >= r.At {
		r.fired = true
		if r.Beside != nil {
			done := make(chan struct{})
			r.wg.Add(1)
			go func() {
				defer r.wg.Done()
				defer close(done)
				r.Beside()
			}()
			patience := r.Patience
			if patience == 0 {
				patience = 3 * time.Second
			}
			tm := time.NewTimer(patience)
			select {
			case <-done:
				r.Overlapped = true
			case <-tm.C:
			}
			tm.Stop()
		}
	}
	if r.consumed >= len(r.Data) {
		return 0, ErrScripted
	}
	n := len(p)
	if !r.fired && r.consumed+n > r.At {
		n = r.At - r.consumed
	}
	if rem := len(r.Data) - r.consumed; n > rem {
		n = rem
	}
	copy(p, r.Data[r.consumed:r.consumed+n])
	r.consumed += n
	return n, nil
}

// Join waits for the call that ran beside the read.
func (r *GatedReader) Join() { r.wg.Wait() }
