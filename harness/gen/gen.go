// Package gen holds the rapid generators shared by the property packages.
// All randomness comes from rapid so shrinking and replay work.
package gen

import (
	"fmt"
	"math/big"

	"pgregory.net/rapid"

	"gitlab.com/yawning/secp256k1-voi/verifharness/ref"
)

var (
	one    = big.NewInt(1)
	two256 = ref.Two256
)

func bi(v int64) *big.Int { return big.NewInt(v) }

// Small draws an integer in [0, 2^16], biased towards 0.
func Small(t *rapid.T, label string) *big.Int {
	return bi(int64(rapid.IntRange(0, 1<<16).Draw(t, label)))
}

// SignedSmall draws a small offset in [-2^16, 2^16].
func SignedSmall(t *rapid.T, label string) *big.Int {
	return bi(int64(rapid.IntRange(-(1<<16), 1<<16).Draw(t, label)))
}

var limbChoices = []uint64{0, 1, 1 << 63, ^uint64(0), 1 << 32, 1<<32 - 1, ^uint64(0) - 1, 0x8000000000000001}

// Limb draws a 64-bit limb from the hostile set or at random.
func Limb(t *rapid.T, label string) uint64 {
	i := rapid.IntRange(0, len(limbChoices)).Draw(t, label+"_sel")
	if i < len(limbChoices) {
		return limbChoices[i]
	}
	return rapid.Uint64().Draw(t, label)
}

// LimbPattern draws a 256-bit value built from four pattern limbs.
func LimbPattern(t *rapid.T, label string) *big.Int {
	var l [4]uint64
	for i := range l {
		l[i] = Limb(t, label)
	}
	return ref.FromLimbs(l)
}

// Uniform256 draws 32 uniformly random bytes as an integer.
func Uniform256(t *rapid.T, label string) *big.Int {
	b := rapid.SliceOfN(rapid.Byte(), 32, 32).Draw(t, label)
	return new(big.Int).SetBytes(b)
}

var repeatBytes = []byte{0x00, 0xff, 0x0f, 0xf0, 0x55, 0xaa, 0x80, 0x01, 0x7f}

// BytePattern draws a 256-bit value made of a repeated byte with a few
// random positions overwritten.
func BytePattern(t *rapid.T, label string) *big.Int {
	b := make([]byte, 32)
	fill := Sampled(repeatBytes).Draw(t, label+"_fill")
	for i := range b {
		b[i] = fill
	}
	k := rapid.IntRange(0, 3).Draw(t, label+"_k")
	for i := 0; i < k; i++ {
		b[rapid.IntRange(0, 31).Draw(t, label+"_pos")] = rapid.Byte().Draw(t, label+"_val")
	}
	return new(big.Int).SetBytes(b)
}

// Raw256 draws any value in [0, 2^256) from the boundary-biased mixture
// relative to modulus m (not reduced).
func Raw256(t *rapid.T, m *big.Int, label string) *big.Int {
	strat := rapid.IntRange(0, 17).Draw(t, label+"_strat")
	v := new(big.Int)
	switch strat {
	case 17: // squaring this value has hostile Montgomery quotient digits (see MontQuotientOperand)
		if sq, ok := MontQuotientOperand(t, m, nil, label+"_msq"); ok {
			v = ref.FromM(sq, m)
		} else {
			v = Uniform256(t, label)
		}
	case 16: // +-2^t * (limb-sparse value), also counted down from m: what shift-and-subtract algorithms reduce to
		v = SparseShifted(t, m, label)
	case 0:
		v = Uniform256(t, label)
	case 1:
		v = Small(t, label)
	case 2: // m - small (and m + small)
		v.Add(m, SignedSmall(t, label))
	case 3: // 2^k +- small
		k := rapid.IntRange(0, 256).Draw(t, label+"_k")
		v.Lsh(one, uint(k))
		v.Add(v, SignedSmall(t, label))
	case 4: // (m +- 1)/2 +- small
		v.Rsh(m, 1)
		v.Add(v, SignedSmall(t, label))
	case 5: // 2^256 mod m +- small  (the Montgomery R)
		v.Mod(two256, m)
		v.Add(v, SignedSmall(t, label))
	case 6:
		v = LimbPattern(t, label)
	case 7: // Montgomery-domain pattern: the *internal* representation is a pattern
		raw := LimbPattern(t, label)
		raw.Mod(raw, m)
		v = ref.FromM(raw, m)
	case 8:
		v = BytePattern(t, label)
	case 9: // 2^256 - small
		v.Sub(two256, one)
		v.Sub(v, Small(t, label))
	case 15: // m - k*(2^256 mod m) +- small: where adding a small constant in Montgomery form crosses the modulus
		v = ModEdge(t, m, label)
	case 14: // the four limbs of the value (or of its Montgomery form) satisfy a relation among themselves
		v = LimbRelation(t, m, label)
	case 13: // limb-wise mixture around the modulus' own limbs (hostile for limb-by-limb range checks)
		v = ModLimbMix(t, m, label)
	case 12: // next to k*2^256/c for the small constants the formulas multiply by
		v = FracEdge(t, m, label)
	case 11: // next to a multiple of a limb boundary (carries out of / borrows into a limb; 2^256 mod p folds)
		v = LimbEdge(t, two256, label)
	case 10: // within 2^33 of 0 / m / 2^256
		off := new(big.Int).SetUint64(rapid.Uint64Range(0, 1<<33).Draw(t, label+"_off33"))
		switch rapid.IntRange(0, 3).Draw(t, label+"_anchor") {
		case 0:
			v.Set(off)
		case 1:
			v.Sub(m, off)
		case 2:
			v.Add(m, off)
		default:
			v.Sub(two256, one)
			v.Sub(v, off)
		}
	}
	if v.Sign() < 0 {
		v.Add(v, two256)
	}
	if v.Cmp(two256) >= 0 {
		v.Sub(v, two256)
	}
	return v.Mod(v, two256)
}

// Int256 draws a value in [0, m) from the boundary-biased mixture.
func Int256(t *rapid.T, m *big.Int, label string) *big.Int {
	v := Raw256(t, m, label)
	return v.Mod(v, m)
}

// NonZero256 draws a value in [1, m).
func NonZero256(t *rapid.T, m *big.Int, label string) *big.Int {
	v := Int256(t, m, label)
	if v.Sign() == 0 {
		v.SetInt64(1)
	}
	return v
}

// Bytes32Any draws a 32-byte string; with a forced share in [m, 2^256).
func Bytes32Any(t *rapid.T, m *big.Int, label string) []byte {
	var v *big.Int
	switch rapid.IntRange(0, 3).Draw(t, label+"_range") {
	case 0: // forced non-canonical: m + offset
		span := new(big.Int).Sub(two256, m)
		var off *big.Int
		switch rapid.IntRange(0, 3).Draw(t, label+"_offsel") {
		case 0:
			off = bi(0)
		case 1:
			off = bi(1)
		case 2:
			off = Small(t, label+"_off")
		default:
			off = new(big.Int).Sub(span, one)
			off.Sub(off, Small(t, label+"_off"))
		}
		off.Mod(off, span)
		v = new(big.Int).Add(m, off)
	default:
		v = Raw256(t, m, label)
	}
	return ref.B32(v)
}

var ctrlChoices = []uint64{0, 1, 2, 1 << 32, 1 << 63, ^uint64(0), 0x100, 0xfffffffe}

// Ctrl draws a control word for ConditionalSelect/Negate: documented
// semantics are "0 selects a, anything else selects b".
func Ctrl(t *rapid.T, label string) uint64 {
	switch Sampled([]string{"fixed", "fixed", "fixed", "any", "single-bit", "fold-hostile", "fold-hostile"}).Draw(t, label+"_ckind") {
	case "fixed":
		return ctrlChoices[int(rapid.Uint32Range(0, uint32(len(ctrlChoices)-1)).Draw(t, label+"_sel"))]
	case "single-bit":
		return 1 << uint(rapid.IntRange(0, 63).Draw(t, label+"_bit"))
	case "fold-hostile":
		// non-zero words that a "fold the word, then test for zero" normalisation maps to zero: halves that
		// cancel under + or xor, 16-bit quarters or bytes that cancel
		r := rapid.Uint64().Draw(t, label+"_r") | 1
		switch Sampled([]string{"halves-sum", "halves-sum", "halves-xor", "quarters-sum", "bytes-sum", "bytes-xor", "low-half-zero", "low-byte-zero"}).Draw(t, label+"_fold") {
		case "halves-sum":
			lo := uint32(r)
			return uint64(-lo)<<32 | uint64(lo)
		case "halves-xor":
			return uint64(uint32(r))<<32 | uint64(uint32(r))
		case "quarters-sum":
			a, b, c := uint16(r), uint16(r>>16), uint16(r>>32)
			return uint64(-(a+b+c))<<48 | uint64(c)<<32 | uint64(b)<<16 | uint64(a)
		case "bytes-sum":
			var sum byte
			for i := 0; i < 7; i++ {
				sum += byte(r >> (8 * i))
			}
			return uint64(-sum)<<56 | r&0x00ffffffffffffff
		case "bytes-xor":
			var x byte
			for i := 0; i < 7; i++ {
				x ^= byte(r >> (8 * i))
			}
			return uint64(x)<<56 | r&0x00ffffffffffffff
		case "low-half-zero":
			return r << 32
		default:
			return r << 8
		}
	}
	return rapid.Uint64().Draw(t, label)
}

// Bytes draws a byte string with length in [lo,hi].
func Bytes(t *rapid.T, lo, hi int, label string) []byte {
	return rapid.SliceOfN(rapid.Byte(), lo, hi).Draw(t, label)
}

// SparseShifted draws +-2^t * w (mod m, or counted down from 2^256) where w
// has only one or two non-zero 64-bit limbs: a small odd low part and one
// random higher limb, or a general sparse limb pattern.  Shift-and-subtract
// algorithms (binary / extended GCD inversion, divsteps, square roots by
// halving, conditional-subtraction reductions) strip the power of two and the
// difference from the modulus in their first steps and are then left with a
// value whose middle limbs are all zero -- where a termination test or a carry
// that looks at the wrong limbs goes wrong.  Plain limb patterns do not get
// there because they are not counted down from m and are not shifted.
func SparseShifted(t *rapid.T, m *big.Int, label string) *big.Int {
	var l [4]uint64
	if rapid.Bool().Draw(t, label+"_twoterm") {
		l[0] = Sampled([]uint64{1, 1, 1, 3, 5, 7, 0xff, 1<<32 + 1}).Draw(t, label+"_lowodd")
		// (a high limb of random bit length, so that there is room to shift when it is the top limb)
		l[rapid.IntRange(1, 3).Draw(t, label+"_hipos")] = rapid.Uint64().Draw(t, label+"_hi")>>uint(rapid.IntRange(0, 63).Draw(t, label+"_hibits")) | 1
	} else {
		for i := range l {
			switch rapid.IntRange(0, 5).Draw(t, fmt.Sprintf("%s_sp%d", label, i)) {
			case 0:
				l[i] = 1
			case 1:
				l[i] = rapid.Uint64().Draw(t, fmt.Sprintf("%s_spv%d", label, i))
			case 2:
				l[i] = ^uint64(0)
			}
		}
	}
	w := ref.FromLimbs(l)
	// shift: none, small, or anything that keeps the value below 2^256
	room := 256 - w.BitLen()
	if room < 0 {
		room = 0
	}
	sh := 0
	switch rapid.IntRange(0, 2).Draw(t, label+"_shk") {
	case 1:
		sh = rapid.IntRange(0, 8).Draw(t, label+"_shs")
	case 2:
		sh = rapid.IntRange(0, room).Draw(t, label+"_sh")
	}
	if sh > room {
		sh = room
	}
	w.Lsh(w, uint(sh))
	switch rapid.IntRange(0, 3).Draw(t, label+"_from") {
	case 0:
		return w.Mod(w, two256)
	case 1: // counted down from 2^256
		return w.Sub(two256, w).Mod(w, two256)
	default: // counted down from the modulus
		w.Mod(w, m)
		return w.Sub(m, w)
	}
}

// LimbEdge draws a value next to a multiple of 2^64: k*2^64 + e or
// k*2^64 - e (k in 0..4, reduced mod m) with e from the offsets at which a
// carry out of / borrow into the low limb or a fold by 2^256 mod p = 2^32+977
// changes behaviour.
func LimbEdge(t *rapid.T, m *big.Int, label string) *big.Int {
	// c * 2^(64*pos) +- e; pos = 1 twice as likely (the low-limb carry is the most common casualty)
	pos := Sampled([]uint{1, 1, 2, 3, 0}).Draw(t, label+"_limb")
	c := Sampled([]uint64{1, 1, 2, 3, 1 << 63, ^uint64(0)}).Draw(t, label+"_coef")
	e := Sampled([]int64{0, 1, 2, 976, 977, 978, 1<<32 - 1, 1 << 32, 1<<32 + 976, 1<<32 + 977, 1<<32 + 978, 2 * (1<<32 + 977), -1}).Draw(t, label+"_edge")
	ev := big.NewInt(e)
	if e < 0 {
		ev = Small(t, label+"_edgesmall")
	}
	v := new(big.Int).Lsh(new(big.Int).SetUint64(c), 64*pos)
	if rapid.Bool().Draw(t, label+"_below") {
		v.Sub(v, ev)
	} else {
		v.Add(v, ev)
	}
	return v.Mod(v, m)
}

// WideAlias draws an n-byte big-endian string (n >= 32) whose value is
// r + j*m: r is a boundary-biased or limb-edge residue and j is drawn from
// {0, 1, max, max-1, max-small, 2^k-aligned, uniform} with max the largest j
// that still fits n bytes.  The largest aliases exercise every carry of a
// wide reduction; the residue decides which final correction fires.
func WideAlias(t *rapid.T, m *big.Int, n int, label string) (src []byte, r, j *big.Int) {
	if rapid.IntRange(0, 2).Draw(t, label+"_rkind") == 0 {
		r = LimbEdge(t, m, label+"_r")
	} else {
		r = Int256(t, m, label+"_r")
	}
	maxv := new(big.Int).Lsh(big.NewInt(1), uint(8*n))
	jmax := new(big.Int).Div(new(big.Int).Sub(new(big.Int).Sub(maxv, big.NewInt(1)), r), m)
	j = new(big.Int)
	if jmax.Sign() > 0 {
		switch Sampled([]string{"max", "max", "max-1", "max-small", "1", "0", "uniform", "top-bit"}).Draw(t, label+"_j") {
		case "max":
			j.Set(jmax)
		case "max-1":
			j.Sub(jmax, big.NewInt(1))
		case "max-small":
			j.Sub(jmax, Small(t, label+"_jsmall"))
		case "1":
			j.SetInt64(1)
		case "uniform":
			j.Mod(new(big.Int).Lsh(Uniform256(t, label+"_ju"), 256), new(big.Int).Add(jmax, big.NewInt(1)))
			j.Add(j, new(big.Int).Mod(Uniform256(t, label+"_ju2"), new(big.Int).Add(jmax, big.NewInt(1))))
			j.Mod(j, new(big.Int).Add(jmax, big.NewInt(1)))
		case "top-bit":
			j.SetBit(j, jmax.BitLen()-1, 1)
		}
		if j.Sign() < 0 {
			j.SetInt64(0)
		}
	}
	v := new(big.Int).Add(r, new(big.Int).Mul(j, m))
	if v.Cmp(maxv) >= 0 { // cannot happen by construction
		v.Set(r)
		j.SetInt64(0)
	}
	return v.FillBytes(make([]byte, n)), r, j
}

// WideLen draws a SetWideBytes / SetUniformBytes input length in 32..64,
// weighted towards the full 64 bytes (where every limb of the high half is in
// play) and the 48 bytes hash-to-curve uses.
func WideLen(t *rapid.T, label string) int {
	switch rapid.IntRange(0, 5).Draw(t, label+"_sel") {
	case 0, 1:
		return 64
	case 2:
		return 48
	}
	return rapid.IntRange(32, 64).Draw(t, label)
}

// Adjacent lays byte strings out back to back in one backing array that
// ends in a canary, and returns them as sub-slices whose spare capacity
// belongs to their neighbours -- the way callers slice arguments out of a
// network buffer.  A callee that appends to, or edits, one of its inputs
// then damages a neighbour or the canary; unchanged() reports whether the
// whole backing array still has its original contents.
func Adjacent(parts ...[]byte) (out [][]byte, unchanged func() bool) {
	canary := []byte{0xc5, 0x5c, 0xa7, 0x7a, 0x11, 0xee, 0x42, 0x24, 0x99, 0x66, 0x3c, 0xc3, 0x0f, 0xf0, 0x5a, 0xa5,
		0xc5, 0x5c, 0xa7, 0x7a, 0x11, 0xee, 0x42, 0x24, 0x99, 0x66, 0x3c, 0xc3, 0x0f, 0xf0, 0x5a, 0xa5, 0x01, 0x02}
	var backing []byte
	for _, p := range parts {
		backing = append(backing, p...)
	}
	backing = append(backing, canary...)
	orig := append([]byte(nil), backing...)
	off := 0
	for _, p := range parts {
		out = append(out, backing[off:off+len(p)]) // cap extends to the end of backing
		off += len(p)
	}
	return out, func() bool { return string(backing) == string(orig) }
}

// Sampled is rapid.SampledFrom with a (near-)uniform choice.  rapid's
// integer generators -- and therefore SampledFrom -- deliberately favour small
// values (measured on a 20-element list: the first two elements are drawn 12.5 %
// of the time each, the middle ones 3.5 %), which starves the later entries of
// long strategy / mutation lists.  The index is derived by hashing three drawn
// bytes, so it is still a pure function of the rapid bit stream (replayable);
// the price is that the shrinker cannot move a choice towards "earlier is
// simpler".
func Sampled[T any](items []T) *rapid.Generator[T] {
	return rapid.Custom(func(t *rapid.T) T {
		b := rapid.SliceOfN(rapid.Byte(), 3, 3).Draw(t, "pick")
		h := uint32(2166136261)
		for _, c := range b {
			h ^= uint32(c)
			h *= 16777619
		}
		h ^= h >> 15
		return items[int(h%uint32(len(items)))]
	})
}

// FracEdge draws a value whose integer representation -- or, half of the
// time, whose Montgomery representation -- sits next to k*2^256/c for a small
// constant c: where multiplying by c (the curve formulas multiply
// intermediates by 3, 7 and 21 = 3b) wraps around 2^256, which is where a
// hand-written small-constant multiplication loses a carry.
func FracEdge(t *rapid.T, m *big.Int, label string) *big.Int {
	c := Sampled([]int64{21, 21, 21, 3, 7, 2, 4, 8, 12, 24, 42}).Draw(t, label+"_c")
	k := rapid.Int64Range(1, c-1).Draw(t, label+"_k")
	v := new(big.Int).Mul(big.NewInt(k), two256)
	v.Div(v, big.NewInt(c))
	off := SignedSmall(t, label+"_off")
	if rapid.Bool().Draw(t, label+"_wide") {
		off = new(big.Int).SetUint64(rapid.Uint64Range(0, 1<<40).Draw(t, label+"_wideoff"))
		if rapid.Bool().Draw(t, label+"_neg") {
			off.Neg(off)
		}
	}
	v.Add(v, off)
	v.Mod(v, m)
	if rapid.Bool().Draw(t, label+"_mont") {
		return ref.FromM(v, m) // the internal (Montgomery) representation is v
	}
	return v
}

// ModLimbMix builds a 256-bit value limb by limb from the modulus' own limbs:
// each 64-bit limb is the modulus' limb, that limb +-1, all-ones, zero or
// random.  The results agree with the modulus in some limbs and differ in
// others, on either side -- the inputs on which a hand-rolled limb-by-limb
// "is it below the modulus?" goes wrong when one limb is skipped or a borrow
// is dropped.
func ModLimbMix(t *rapid.T, m *big.Int, label string) *big.Int {
	mask := new(big.Int).SetUint64(^uint64(0))
	v := new(big.Int)
	for i := 3; i >= 0; i-- {
		ml := new(big.Int).And(new(big.Int).Rsh(m, uint(64*i)), mask).Uint64()
		var l uint64
		switch Sampled([]string{"same", "same", "same", "+1", "-1", "ones", "zero", "random"}).Draw(t, fmt.Sprintf("%s_l%d", label, i)) {
		case "same":
			l = ml
		case "+1":
			l = ml + 1
		case "-1":
			l = ml - 1
		case "ones":
			l = ^uint64(0)
		case "zero":
			l = 0
		default:
			l = rapid.Uint64().Draw(t, fmt.Sprintf("%s_r%d", label, i))
		}
		v.Lsh(v, 64)
		v.Or(v, new(big.Int).SetUint64(l))
	}
	return v
}

// LimbRelation draws a non-zero value whose four 64-bit limbs -- of the integer
// itself or, half of the time, of its Montgomery representation -- satisfy a
// relation: they sum to 0 mod 2^64, xor to zero, are pairwise equal, two of
// them cancel, share no set bit, are complements, or cover all bits.  Predicates that fold the limbs with the wrong operator
// (a sum or xor where an OR is needed, a comparison of folded halves) are
// wrong exactly on such values.
func LimbRelation(t *rapid.T, m *big.Int, label string) *big.Int {
	for try := 0; try < 16; try++ {
		var l [4]uint64
		for i := range l {
			l[i] = Limb(t, fmt.Sprintf("%s_rl%d_%d", label, try, i))
		}
		free := rapid.IntRange(0, 2).Draw(t, fmt.Sprintf("%s_free%d", label, try)) // the top limb stays free so that the value can be < m
		switch Sampled([]string{"sum", "sum", "xor", "pair-equal", "cancel", "disjoint", "complement", "cover"}).Draw(t, fmt.Sprintf("%s_rel%d", label, try)) {
		case "disjoint": // two limbs share no set bit (an AND where an OR was meant reads this as zero)
			l[free] &^= l[(free+1)%4]
		case "complement":
			l[free] = ^l[(free+1)%4]
		case "cover": // two limbs together have every bit set
			l[free] |= ^l[(free+1)%4]
		case "sum":
			var sum uint64
			for i := range l {
				if i != free {
					sum += l[i]
				}
			}
			l[free] = -sum
		case "xor":
			var x uint64
			for i := range l {
				if i != free {
					x ^= l[i]
				}
			}
			l[free] = x
		case "pair-equal":
			l[0], l[2] = l[1], l[3]
		case "cancel":
			l[free] = -l[(free+1)%3]
		}
		v := new(big.Int)
		for i := 3; i >= 0; i-- {
			v.Lsh(v, 64)
			v.Or(v, new(big.Int).SetUint64(l[i]))
		}
		if v.Sign() == 0 || v.Cmp(m) >= 0 {
			continue
		}
		if rapid.Bool().Draw(t, label+"_relmont") {
			return ref.FromM(v, m)
		}
		return v
	}
	return Int256(t, m, label+"_relfallback")
}

// ModEdge draws m - k*C +- small (and k*C +- small) for C = 2^256 mod m and
// small k, as a plain value or as a Montgomery representation.  In the
// Montgomery domain the small integer c is c*C, so these are the operands for
// which "add a small constant" lands in the gap between the modulus and 2^256
// or just wraps.
func ModEdge(t *rapid.T, m *big.Int, label string) *big.Int {
	c := new(big.Int).Mod(two256, m)
	k := int64(rapid.IntRange(0, 24).Draw(t, label+"_k"))
	v := new(big.Int).Mul(c, big.NewInt(k))
	if rapid.IntRange(0, 3).Draw(t, label+"_side") != 0 {
		v.Sub(m, v)
	}
	off := SignedSmall(t, label+"_off")
	if rapid.Bool().Draw(t, label+"_within") { // anywhere inside the k-th window
		off = new(big.Int).Mod(Uniform256(t, label+"_w"), c)
		if rapid.Bool().Draw(t, label+"_wneg") {
			off.Neg(off)
		}
	}
	v.Add(v, off)
	v.Mod(v, m)
	if rapid.Bool().Draw(t, label+"_mont") {
		return ref.FromM(v, m)
	}
	return v
}
