// Package c08: ECDSA signing always yields a valid, low-s, correctly
// recoverable signature.
package c08

import (
	"bytes"
	"crypto"
	"fmt"
	"io"
	"math/big"
	"testing"

	"pgregory.net/rapid"

	secp256k1 "gitlab.com/yawning/secp256k1-voi"
	"gitlab.com/yawning/secp256k1-voi/secec"
	"gitlab.com/yawning/secp256k1-voi/secec/bitcoin"
	"gitlab.com/yawning/secp256k1-voi/verifharness/gen"
	"gitlab.com/yawning/secp256k1-voi/verifharness/lib"
	"gitlab.com/yawning/secp256k1-voi/verifharness/ref"
	"gitlab.com/yawning/secp256k1-voi/verifharness/stat"
)

func TestMain(m *testing.M) { stat.Main(m) }

func privScalar(t *rapid.T) (*big.Int, string) {
	kind := gen.Sampled([]string{"1", "n-1", "2", "biased", "biased", "biased"}).Draw(t, "dkind")
	switch kind {
	case "1":
		return big.NewInt(1), kind
	case "2":
		return big.NewInt(2), kind
	case "n-1":
		return new(big.Int).Sub(ref.N, big.NewInt(1)), kind
	}
	return gen.NonZero256(t, ref.N, "d"), kind
}

// signingKey builds the private key through a drawn route and then lets the
// "caller" overwrite everything it passed in or got back, which must not
// influence later signatures.
func signingKey(t *rapid.T, d *big.Int) *secec.PrivateKey {
	k := signingKeyVia(t, d)
	if msg := lib.FirstUsePriv(t, k, d, "first-use"); msg != "" {
		t.Fatalf("%s (d=%x)", msg, d)
	}
	return k
}

func signingKeyVia(t *rapid.T, d *big.Int) *secec.PrivateKey {
	switch gen.Sampled([]string{"bytes", "bytes", "scalar-then-mutate", "bytes-then-scrub"}).Draw(t, "key-route") {
	case "scalar-then-mutate":
		sc := lib.Sc(d)
		k, err := secec.NewPrivateKeyFromScalar(sc)
		if err != nil {
			t.Fatalf("NewPrivateKeyFromScalar(%x): %v", d, err)
		}
		// (not Zero(): a key that aliases a zeroed scalar makes sign() spin forever on e = 0, and a
		// hang can only be reported as inconclusive)
		if rapid.Bool().Draw(t, "negate-it") {
			sc.Negate(sc)
		} else {
			sc.Add(sc, sc) // 2d != 0 for d != 0 (n is odd)
		}
		return k
	case "bytes-then-scrub":
		raw := ref.B32(d)
		k, err := secec.NewPrivateKey(raw)
		if err != nil {
			t.Fatalf("NewPrivateKey(%x): %v", d, err)
		}
		for _, b := range [][]byte{raw, k.Bytes(), k.PublicKey().Bytes()} {
			for i := range b {
				b[i] = 0
			}
		}
		k.Scalar().Zero()
		k.PublicKey().Point().Identity()
		return k
	}
	k := lib.PrivKey(d)
	if rapid.Bool().Draw(t, "derive-schnorr-first") {
		// other packages derive their own key objects from this one; that must leave it as it was
		_ = bitcoin.NewSchnorrPublicKeyFromECDSA(k.PublicKey())
		_ = bitcoin.NewSchnorrPrivateKeyFromECDSA(k)
	}
	return k
}

func digestBytes(t *rapid.T, n int) ([]byte, string) {
	kind := gen.Sampled([]string{"zeros", "ones", ">=n", "e=n", "random", "random"}).Draw(t, "digkind")
	d := make([]byte, n)
	switch kind {
	case "ones":
		for i := range d {
			d[i] = 0xff
		}
	case ">=n":
		copy(d, gen.Bytes(t, n, n, "dig"))
		if n >= 32 {
			copy(d, ref.B32(new(big.Int).Add(ref.N, gen.Small(t, "off"))))
		}
	case "e=n":
		copy(d, gen.Bytes(t, n, n, "dig"))
		if n >= 32 {
			copy(d, ref.B32(ref.N))
		}
	case "random":
		copy(d, gen.Bytes(t, n, n, "dig"))
	}
	return d, kind
}

// checkSignature applies the validity predicate to raw (r, s, v).
func checkSignature(t *rapid.T, d *big.Int, digest []byte, r, s *big.Int, v byte) {
	q := ref.BaseMul(d)
	if r.Sign() <= 0 || r.Cmp(ref.N) >= 0 {
		t.Fatalf("r out of range: %x", r)
	}
	if s.Sign() <= 0 || s.Cmp(ref.HalfN) > 0 {
		t.Fatalf("s not in [1,(n-1)/2]: %x", s)
	}
	if !ref.ECDSAVerify(q, digest, r, s) {
		t.Fatalf("reference verification rejects the signature (d=%x digest=%x r=%x s=%x)", d, digest, r, s)
	}
	if v > 3 {
		t.Fatalf("recovery id %d out of [0,3]", v)
	}
	for id := 0; id < 4; id++ {
		rec, ok := ref.ECDSARecover(digest, r, s, id)
		if id == int(v) {
			if !ok || !rec.Eq(q) {
				t.Fatalf("emitted recovery id %d does not recover the signer (d=%x digest=%x r=%x s=%x)", v, d, digest, r, s)
			}
		} else if ok && rec.Eq(q) {
			t.Fatalf("recovery id %d also recovers the signer (emitted %d)", id, v)
		}
	}
	// library-side: every encoding verifies, incl. RejectMalleable and the Bitcoin entry point
	pk := lib.PubKey(q)
	lr, ls := lib.Sc(r), lib.Sc(s)
	if !pk.VerifyRaw(digest, lr, ls) {
		t.Fatal("VerifyRaw rejects a fresh signature")
	}
	for _, enc := range []secec.SignatureEncoding{secec.EncodingASN1, secec.EncodingCompact, secec.EncodingCompactRecoverable} {
		var sig []byte
		switch enc {
		case secec.EncodingASN1:
			sig = secec.BuildASN1Signature(lr, ls)
		case secec.EncodingCompact:
			sig = secec.BuildCompactSignature(lr, ls)
		default:
			sig = secec.BuildCompactRecoverableSignature(lr, ls, v)
		}
		if !pk.Verify(digest, sig, nil) && enc == secec.EncodingASN1 {
			t.Fatal("Verify(nil opts) rejects a fresh ASN.1 signature")
		}
		if len(digest) == 32 {
			if !pk.Verify(digest, sig, &secec.ECDSAOptions{Encoding: enc, RejectMalleable: true}) {
				t.Fatalf("Verify(encoding %d, RejectMalleable) rejects a fresh signature", enc)
			}
		}
	}
	if len(digest) == 32 {
		if !bitcoin.VerifyASN1(pk, digest, append(secec.BuildASN1Signature(lr, ls), 0x01)) {
			t.Fatal("bitcoin.VerifyASN1 rejects a fresh signature")
		}
	}
	rq, err := secec.RecoverPublicKey(digest, lr, ls, v)
	if err != nil || !bytes.Equal(rq.Bytes(), q.Uncompressed()) {
		t.Fatalf("RecoverPublicKey with the emitted id does not return the signer: %v", err)
	}
}

func entropy(t *rapid.T) (io.Reader, func() io.Reader, string) {
	if rapid.IntRange(0, 3).Draw(t, "rfc6979") == 0 {
		return secec.RFC6979SHA256(), func() io.Reader { return secec.RFC6979SHA256() }, "rfc6979"
	}
	rd := gen.Reader(t, 32+gen.Sampled([]int{0, 0, 1, 8, 31, 32, 33, 64, 100}).Draw(t, "extra"), "rng")
	if rapid.IntRange(0, 4).Draw(t, "process-default") == 0 {
		// the caller passes nil: the entropy is what the process-wide source (crypto/rand.Reader) yields,
		// here the same scripted stream
		t.Cleanup(gen.SetProcessEntropy(rd))
		return nil, func() io.Reader { t.Cleanup(gen.SetProcessEntropy(rd.Clone())); return nil }, "process-default:" + rd.Desc
	}
	return rd, func() io.Reader { return rd.Clone() }, "reader:" + rd.Desc
}

func propSignRaw(t *rapid.T) {
	d, dk := privScalar(t)
	dlen := 32
	switch rapid.IntRange(0, 8).Draw(t, "long") {
	case 0, 1, 2:
		dlen = rapid.IntRange(32, 64).Draw(t, "dlen")
	case 3:
		// longer than any hash output.  Whether such a digest is "admissible" is the library's call (today it
		// is: only the leftmost 32 bytes count); what the property fixes is that it is either refused with an
		// error or signed correctly for e = leftmost 256 bits
		dlen = rapid.IntRange(65, 160).Draw(t, "dlen-over")
	}
	digest, digk := digestBytes(t, dlen)
	rnd, again, rdesc := entropy(t)
	key := signingKey(t, d)
	q := ref.BaseMul(d)
	r, s, v, err := key.SignRaw(rnd, digest)
	if err != nil && dlen > 64 {
		stat.Case("signraw", []string{"refused:oversize-digest"}, false, []byte(fmt.Sprintf("%x|%x", d, digest)), func() any {
			return map[string]any{"d": d.Text(16), "digest_len": dlen, "refused": err.Error()}
		})
		return
	}
	if err != nil {
		t.Fatalf("SignRaw failed for an admissible digest: %v", err)
	}
	ri, si := lib.ScInt(r), lib.ScInt(s)
	// other uses of the signer's public key object in between (a peer runs ECDH against it, it is encoded,
	// compared, converted) must leave it the key the signature verifies under
	switch gen.Sampled([]string{"none", "none", "peer-ecdh", "encode", "schnorr-view", "equal"}).Draw(t, "pub-use") {
	case "peer-ecdh":
		if _, err := lib.PrivKey(gen.NonZero256(t, ref.N, "peer")).ECDH(key.PublicKey()); err != nil {
			t.Fatalf("ECDH against the signer's public key failed: %v", err)
		}
	case "encode":
		_, _, _ = key.PublicKey().Bytes(), key.PublicKey().CompressedBytes(), key.PublicKey().ASN1Bytes()
	case "schnorr-view":
		_ = bitcoin.NewSchnorrPublicKeyFromECDSA(key.PublicKey())
	case "equal":
		_ = key.PublicKey().Equal(lib.PubKey(ref.G()))
	}
	// the signature verifies under the signing key's own public half (the very object, not a re-import)
	if !key.PublicKey().VerifyRaw(digest, r, s) || !bytes.Equal(key.PublicKey().Point().UncompressedBytes(), ref.BaseMul(d).Uncompressed()) {
		t.Fatalf("SignRaw output does not verify under the signing key's PublicKey() object (d=%x)", d)
	}
	// classify the outcome (which R was used, was s negated)
	cl := []string{"d:" + dk, "digest:" + digk, "rng:" + rdesc, fmt.Sprintf("key-y-odd:%d", q.Y.Bit(0)), fmt.Sprintf("v:%d", v)}
	if dlen != 32 {
		cl = append(cl, "digest-len>32")
	}
	stat.Case("signraw", cl, true, []byte(fmt.Sprintf("%x|%x|%s|%x|%x", d, digest, rdesc, ri, si)), func() any {
		return map[string]any{"d": d.Text(16), "digest": stat.Hex(digest), "entropy": rdesc, "r": ri.Text(16), "s": si.Text(16), "v": v}
	})
	checkSignature(t, d, digest, ri, si, v)
	// determinism: the same (key, digest, entropy) gives the same signature
	r2, s2, v2, err := key.SignRaw(again(), digest)
	if err != nil || lib.ScInt(r2).Cmp(ri) != 0 || lib.ScInt(s2).Cmp(si) != 0 || v2 != v {
		t.Fatal("SignRaw is not a deterministic function of (key, digest, entropy)")
	}
	// A, B, A on one key object: another digest in between (its signature must be valid too), then the
	// first request again -- nothing may be carried from one signing call to the next
	if rapid.Bool().Draw(t, "follow-up") {
		other := append([]byte(nil), digest...)
		other[rapid.IntRange(0, 31).Draw(t, "obyte")] ^= 0x40
		rb, sb, vb, err := key.SignRaw(again(), other)
		if err != nil {
			t.Fatalf("second SignRaw on the same key failed: %v", err)
		}
		checkSignature(t, d, other, lib.ScInt(rb), lib.ScInt(sb), vb)
		r3, s3, v3, err := key.SignRaw(again(), digest)
		if err != nil || lib.ScInt(r3).Cmp(ri) != 0 || lib.ScInt(s3).Cmp(si) != 0 || v3 != v {
			t.Fatal("SignRaw(A) changed after signing B with the same key object")
		}
	}
}

func TestC08_SignRaw(t *testing.T) { rapid.Check(t, propSignRaw) }

// propEphemeralSigner: the signing call is the caller's LAST use of the key
// object (a temporary, as in `NewPrivateKey(b).SignRaw(...)`), and the entropy
// source is slow enough for a garbage collection to land inside the call (the
// reader forces one on every Read).  Anything the library ties to the key
// object's lifetime -- a finalizer that wipes the scalar, a pooled buffer
// returned too early -- acts in the middle of the signature here and nowhere
// else, because a harness that goes on checking the key keeps it alive.
func propEphemeralSigner(t *rapid.T) {
	d, dk := privScalar(t)
	digest, digk := digestBytes(t, 32)
	rd := gen.Reader(t, 32+gen.Sampled([]int{0, 8, 32}).Draw(t, "extra"), "rng")
	rd.Collect = true
	rd.Chunks = []int{20} // two or three reads per call: each one costs a collection
	api := gen.Sampled([]string{"SignRaw", "Sign", "SignRaw-from-scalar"}).Draw(t, "api")
	stat.Case("ephemeral", []string{"d:" + dk, "digest:" + digk, "api:" + api}, true, []byte(fmt.Sprintf("%x|%x|%s|%s", d, digest, rd.Desc, api)), func() any {
		return map[string]any{"d": d.Text(16), "digest": stat.Hex(digest), "entropy": rd.Desc, "api": api}
	})
	sign := func(r io.Reader) (*big.Int, *big.Int) {
		switch api {
		case "Sign":
			sig, err := lib.PrivKey(d).Sign(r, digest, &secec.ECDSAOptions{Hash: crypto.SHA256, Encoding: secec.EncodingCompact})
			if err != nil {
				t.Fatalf("Sign: %v", err)
			}
			ri, si, ok := ref.ParseCompactStrict(sig)
			if !ok {
				t.Fatalf("Sign returned a malformed compact signature %x", sig)
			}
			return ri, si
		case "SignRaw-from-scalar":
			k, err := secec.NewPrivateKeyFromScalar(lib.Sc(d))
			if err != nil {
				t.Fatalf("NewPrivateKeyFromScalar: %v", err)
			}
			rr, ss, _, err := k.SignRaw(r, digest)
			if err != nil {
				t.Fatalf("SignRaw: %v", err)
			}
			return lib.ScInt(rr), lib.ScInt(ss)
		default:
			rr, ss, _, err := lib.PrivKey(d).SignRaw(r, digest)
			if err != nil {
				t.Fatalf("SignRaw: %v", err)
			}
			return lib.ScInt(rr), lib.ScInt(ss)
		}
	}
	r1, s1 := sign(rd)
	if !ref.ECDSAVerify(ref.BaseMul(d), digest, r1, s1) {
		t.Fatalf("%s on a temporary key object, with collections running during the entropy reads, returned an invalid signature (r=%x s=%x) for d=%x", api, r1, s1, d)
	}
	// the same inputs without collections in between give the same signature
	quiet := rd.Clone()
	quiet.Collect = false
	if r2, s2 := sign(quiet); r2.Cmp(r1) != 0 || s2.Cmp(s1) != 0 {
		t.Fatalf("%s(d=%x) depends on whether a garbage collection ran during the call: (%x,%x) vs (%x,%x)", api, d, r1, s1, r2, s2)
	}
}

func TestC08_EphemeralSigner(t *testing.T) { rapid.Check(t, propEphemeralSigner) }

type plainOpts struct{ h crypto.Hash }

func (p plainOpts) HashFunc() crypto.Hash { return p.h }

func propSignOpts(t *rapid.T) {
	d, dk := privScalar(t)
	key := signingKey(t, d)
	okind := gen.Sampled([]string{"nil", "ecdsa", "ecdsa", "ecdsa", "plain-hash", "plain-struct"}).Draw(t, "optkind")
	var (
		opts      crypto.SignerOpts
		enc       = secec.EncodingASN1
		expectLen = -1 // -1: any length >= 32
		eo        *secec.ECDSAOptions
	)
	switch okind {
	case "ecdsa":
		eo = &secec.ECDSAOptions{
			Hash:       gen.Sampled(gen.HashChoices).Draw(t, "hash"),
			Encoding:   secec.SignatureEncoding(gen.Sampled([]int{0, 0, 1, 1, 2, 2, 3, -1}).Draw(t, "enc")),
			SelfVerify: rapid.Bool().Draw(t, "sv"),
		}
		opts, enc, expectLen = eo, eo.Encoding, gen.HashSize(eo.Hash)
	case "plain-hash":
		h := gen.Sampled(gen.HashChoices[1:]).Draw(t, "hash")
		opts, expectLen = h, h.Size()
	case "plain-struct":
		h := gen.Sampled(gen.HashChoices[1:]).Draw(t, "hash")
		opts, expectLen = plainOpts{h}, h.Size()
	}
	var dlen int
	switch gen.Sampled([]string{"match", "match", "match", "match", "match", "match", "off", "short"}).Draw(t, "lenmode") {
	case "match":
		dlen = expectLen
		if dlen < 0 {
			dlen = rapid.IntRange(32, 64).Draw(t, "dlen")
		}
	case "off":
		dlen = rapid.IntRange(0, 70).Draw(t, "dlen")
	default:
		dlen = rapid.IntRange(0, 31).Draw(t, "dlen")
	}
	digest, digk := digestBytes(t, dlen)
	rnd, again, rdesc := entropy(t)

	admissible := dlen >= 32 && (expectLen < 0 || dlen == expectLen) && enc >= 0 && enc <= 2
	acc := "error"
	if admissible {
		acc = "signed"
	}
	optDesc := okind
	if eo != nil {
		optDesc = fmt.Sprintf("ecdsa{hash=%d enc=%d sv=%v}", eo.Hash, eo.Encoding, eo.SelfVerify)
	}
	stat.Case("signopts", []string{"opts:" + okind, acc, fmt.Sprintf("enc:%d", enc), "d:" + dk, "digest:" + digk}, true,
		[]byte(fmt.Sprintf("%x|%x|%s|%s", d, digest, rdesc, optDesc)), func() any {
			return map[string]any{"d": d.Text(16), "digest": stat.Hex(digest), "entropy": rdesc, "opts": optDesc, "expect": acc}
		})
	var sig []byte
	var err error
	if p := lib.Catch(func() { sig, err = key.Sign(rnd, digest, opts) }); p != nil {
		t.Fatalf("Sign panicked: %v (opts %s, digest len %d)", p, optDesc, dlen)
	}
	if !admissible {
		if err == nil || sig != nil {
			t.Fatalf("Sign(opts %s, digest len %d) signed an inadmissible request", optDesc, dlen)
		}
		return
	}
	if err != nil {
		t.Fatalf("Sign(opts %s, digest len %d) failed: %v", optDesc, dlen, err)
	}
	// the returned bytes parse (reference parsers) and rebuild to the same bytes
	var (
		r, s *big.Int
		v    byte
		ok   bool
	)
	switch enc {
	case secec.EncodingASN1:
		r, s, ok = ref.ParseDERSigStrict(sig)
	case secec.EncodingCompact:
		r, s, ok = ref.ParseCompactStrict(sig)
	default:
		r, s, v, ok = ref.ParseCompactRecoverableStrict(sig)
	}
	if !ok {
		t.Fatalf("signature bytes %x are not a strict encoding (encoding %d)", sig, enc)
	}
	// SignRaw with the same entropy gives the same (r,s,v): the encodings carry exactly that triple
	rr, rs, rv, err := key.SignRaw(again(), digest)
	if err != nil || lib.ScInt(rr).Cmp(r) != 0 || lib.ScInt(rs).Cmp(s) != 0 {
		t.Fatalf("Sign and SignRaw disagree on (r,s) for the same inputs")
	}
	if enc == secec.EncodingCompactRecoverable && rv != v {
		t.Fatalf("Sign emitted v=%d, SignRaw v=%d", v, rv)
	}
	checkSignature(t, d, digest, r, s, rv)
	var rebuilt []byte
	switch enc {
	case secec.EncodingASN1:
		pr, ps, err := secec.ParseASN1Signature(sig)
		if err != nil {
			t.Fatalf("ParseASN1Signature rejects Sign output: %v", err)
		}
		rebuilt = secec.BuildASN1Signature(pr, ps)
	case secec.EncodingCompact:
		pr, ps, err := secec.ParseCompactSignature(sig)
		if err != nil {
			t.Fatalf("ParseCompactSignature rejects Sign output: %v", err)
		}
		rebuilt = secec.BuildCompactSignature(pr, ps)
	default:
		pr, ps, pv, err := secec.ParseCompactRecoverableSignature(sig)
		if err != nil {
			t.Fatalf("ParseCompactRecoverableSignature rejects Sign output: %v", err)
		}
		rebuilt = secec.BuildCompactRecoverableSignature(pr, ps, pv)
	}
	if !bytes.Equal(rebuilt, sig) {
		t.Fatalf("parse-then-build of Sign output differs: %x vs %x", rebuilt, sig)
	}
	if !lib.PubKey(ref.BaseMul(d)).Verify(digest, sig, eoForVerify(eo, enc)) {
		t.Fatal("Verify with the same options rejects Sign output")
	}
	// toggling SelfVerify never changes the output
	if eo != nil {
		o2 := *eo
		o2.SelfVerify = !eo.SelfVerify
		sig2, err := key.Sign(again(), digest, &o2)
		if err != nil || !bytes.Equal(sig2, sig) {
			t.Fatalf("toggling SelfVerify changed the output: %x vs %x (%v)", sig2, sig, err)
		}
	}
	// the caller still holds the first signature while it goes on signing other things (another digest,
	// every encoding): the bytes it was handed are its own and must not change under it
	held := append([]byte(nil), sig...)
	other := append([]byte(nil), digest...)
	other[0] ^= 0x80
	for _, e2 := range []secec.SignatureEncoding{secec.EncodingCompactRecoverable, secec.EncodingCompact, secec.EncodingASN1} {
		o3 := opts // the same (admissible) options, with each encoding in turn where the options carry one
		if eo != nil {
			c := *eo
			c.Encoding = e2
			o3 = &c
		}
		if _, err := key.Sign(again(), other, o3); err != nil {
			t.Fatalf("a later Sign on the same key failed: %v", err)
		}
		if !bytes.Equal(sig, held) {
			t.Fatalf("a signature returned earlier (%x) was overwritten by a later Sign call with encoding %d: now %x", held, e2, sig)
		}
	}
}

func eoForVerify(eo *secec.ECDSAOptions, enc secec.SignatureEncoding) *secec.ECDSAOptions {
	if eo == nil {
		return nil
	}
	return &secec.ECDSAOptions{Hash: eo.Hash, Encoding: enc}
}

func TestC08_SignOpts(t *testing.T) { rapid.Check(t, propSignOpts) }

var _ = secp256k1.ScalarSize

// propEncodeStage exercises the second half of Sign -- turning (r, s, v) into
// bytes -- on values a caller cannot reach through signing itself (the nonce
// is not the caller's to choose): valid signatures whose r and/or s have
// leading zero bytes, a set top bit, or sit at the low-s boundary are built
// with the chosen-R construction Q = r^-1(sR - eG), encoded with the
// library's Build* functions exactly as Sign does, and must (a) equal the
// reference encoding, (b) parse back, and (c) verify under Q.
func propEncodeStage(t *rapid.T) {
	var R ref.Pt
	rk := gen.Sampled([]string{"small-x", "small-x", "drawn", "x>=n"}).Draw(t, "Rkind")
	switch rk {
	case "small-x":
		R = gen.SmallXPoint(t, "R").P
	case "x>=n":
		xr := new(big.Int).Add(ref.N, gen.Small(t, "xoff"))
		for {
			if pt, ok := ref.LiftX(xr, rapid.Bool().Draw(t, "Rodd")); ok {
				R = pt
				break
			}
			xr.Add(xr, big.NewInt(1))
		}
	default:
		R = gen.NonIdentityPoint(t, "R").P
	}
	r := ref.Mod(R.X, ref.N)
	if r.Sign() == 0 {
		t.Skip("r = 0")
	}
	// s: any byte length 1..32, top bit of the leading byte set or clear, or the low-s boundary
	var s *big.Int
	sk := gen.Sampled([]string{"short", "short-topbit", "half", "special"}).Draw(t, "skind")
	switch sk {
	case "short", "short-topbit":
		n := rapid.IntRange(1, 31).Draw(t, "slen")
		b := gen.Bytes(t, n, n, "sbytes")
		if sk == "short-topbit" {
			b[0] |= 0x80
		} else {
			b[0] &= 0x7f
		}
		s = ref.Int(b)
	case "half":
		s = new(big.Int).Sub(ref.HalfN, big.NewInt(int64(rapid.IntRange(0, 3).Draw(t, "below"))))
	default:
		s = gen.SSpecial(t, "s")
	}
	if ls, neg := ref.LowS(s); neg {
		s = ls
	}
	if s.Sign() == 0 {
		t.Skip("s = 0")
	}
	e := ref.Mod(gen.EValue(t, "e"), ref.N)
	digest := ref.B32(e)
	q := R.Mul(s).Sub(ref.BaseMul(e)).Mul(ref.Inv0(r, ref.N))
	if q.Inf {
		t.Skip("Q = O")
	}
	if !ref.ECDSAVerify(q, digest, r, s) {
		t.Fatalf("harness: constructed signature is not valid for the reference")
	}
	v := byte(R.Y.Bit(0))
	if R.X.Cmp(ref.N) >= 0 {
		v |= 2
	}
	rb, sb := ref.B32(r), ref.B32(s)
	lz := func(b []byte) int {
		n := 0
		for n < len(b) && b[n] == 0 {
			n++
		}
		return n
	}
	cl := []string{"R:" + rk, "s:" + sk, fmt.Sprintf("r-leading-zero-bytes:%d", min(lz(rb), 3)), fmt.Sprintf("s-leading-zero-bytes:%d", min(lz(sb), 3))}
	stat.Case("encode-stage", cl, lz(rb) > 0 || lz(sb) > 0 || sk == "half", []byte(fmt.Sprintf("%x|%x|%x", r, s, e)), func() any {
		return map[string]any{"r": r.Text(16), "s": s.Text(16), "v": v, "Q": q.String(), "digest": stat.Hex(digest)}
	})
	lr, ls := lib.Sc(r), lib.Sc(s)
	pub := lib.PubKey(q)
	for _, enc := range []secec.SignatureEncoding{secec.EncodingASN1, secec.EncodingCompact, secec.EncodingCompactRecoverable} {
		var got, want []byte
		switch enc {
		case secec.EncodingASN1:
			got, want = secec.BuildASN1Signature(lr, ls), ref.EncodeDERSig(r, s)
		case secec.EncodingCompact:
			got, want = secec.BuildCompactSignature(lr, ls), append(append([]byte(nil), rb...), sb...)
		default:
			got, want = secec.BuildCompactRecoverableSignature(lr, ls, v), append(append(append([]byte(nil), rb...), sb...), v)
		}
		if !bytes.Equal(got, want) {
			t.Fatalf("encoding %d of (r=%x, s=%x, v=%d): %x, want %x", enc, r, s, v, got, want)
		}
		if !pub.Verify(digest, got, &secec.ECDSAOptions{Encoding: enc, RejectMalleable: true}) {
			t.Fatalf("a valid low-s signature (r=%x, s=%x) encoded by the library as %x (encoding %d) does not verify", r, s, got, enc)
		}
	}
	if lib.ScInt(lr).Cmp(r) != 0 || lib.ScInt(ls).Cmp(s) != 0 {
		t.Fatal("Build* modified its scalar arguments")
	}
	if k, err := secec.RecoverPublicKey(digest, lr, ls, v); err != nil || !k.Equal(pub) {
		t.Fatalf("recovery id %d does not recover Q for (r=%x, s=%x): %v", v, r, s, err)
	}
}

func TestC08_EncodeStage(t *testing.T) { rapid.Check(t, propEncodeStage) }
