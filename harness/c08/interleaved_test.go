package c08

import (
	"crypto"
	"fmt"
	"math/big"
	"sync"
	"testing"

	"pgregory.net/rapid"

	"gitlab.com/yawning/secp256k1-voi/secec"
	"gitlab.com/yawning/secp256k1-voi/verifharness/gen"
	"gitlab.com/yawning/secp256k1-voi/verifharness/lib"
	"gitlab.com/yawning/secp256k1-voi/verifharness/ref"
	"gitlab.com/yawning/secp256k1-voi/verifharness/stat"
)

// propInterleaved: "for every private key, admissible digest and entropy source" includes an entropy source that
// is slow - and a caller that keeps signing elsewhere while one call waits for it.  One slow Sign / SignRaw call
// (with or without self-verification); between two of its entropy reads, at a drawn byte offset, 1-3 other signing
// calls (other digests, the same or other keys, same or separate key objects) run to completion
// (gen.GatedReader: the interleaving is the harness's, not the scheduler's).  Every call that succeeded - the slow
// one and the ones beside it - must have produced a valid, low-s, correctly recoverable signature of *its own*
// digest under *its own* key; with self-verification on, the slow call must not fail either.
func propInterleaved(t *rapid.T) {
	type call struct {
		d       *big.Int
		key     *secec.PrivateKey
		digest  []byte
		ent     []byte
		selfVer bool
		raw     bool
		r, s    *big.Int
		v       byte
		err     error
		desc    string
	}
	var objs []*secec.PrivateKey
	var objD []*big.Int
	for i := rapid.IntRange(1, 2).Draw(t, "keys"); i > 0; i-- {
		d, _ := privScalar(t)
		for j := rapid.IntRange(1, 2).Draw(t, "objects"); j > 0; j-- {
			objs, objD = append(objs, lib.PrivKey(d)), append(objD, d)
		}
	}
	draw := func(label string) *call {
		o := rapid.IntRange(0, len(objs)-1).Draw(t, label+"_obj")
		c := &call{d: objD[o], key: objs[o], selfVer: rapid.Bool().Draw(t, label+"_selfverify"), raw: rapid.Bool().Draw(t, label+"_raw")}
		c.digest, _ = digestBytes(t, 32)
		c.ent, _ = gen.EntropyContent(t, 32, label+"_ent")
		c.desc = fmt.Sprintf("%s(obj%d, digest %x, selfverify=%v)", map[bool]string{true: "SignRaw", false: "Sign"}[c.raw], o, c.digest, c.selfVer)
		return c
	}
	run := func(c *call, rd interface{ Read([]byte) (int, error) }) {
		if c.raw {
			r, s, v, err := c.key.SignRaw(rd, c.digest)
			c.err = err
			if err == nil {
				c.r, c.s, c.v = lib.ScInt(r), lib.ScInt(s), v
			}
			return
		}
		sig, err := c.key.Sign(rd, c.digest, &secec.ECDSAOptions{Hash: crypto.SHA256, Encoding: secec.EncodingCompactRecoverable, SelfVerify: c.selfVer})
		c.err = err
		if err == nil {
			r, s, v, ok := ref.ParseCompactRecoverableStrict(sig)
			if !ok {
				c.err = fmt.Errorf("malformed recoverable signature %x", sig)
				return
			}
			c.r, c.s, c.v = r, s, v
		}
	}
	slow := draw("slow")
	var beside []*call
	for i := rapid.IntRange(1, 3).Draw(t, "beside"); i > 0; i-- {
		beside = append(beside, draw(fmt.Sprintf("b%d", i)))
	}
	at := rapid.IntRange(0, 31).Draw(t, "gate_at")
	// one earlier, ordinary signature: state that is set up by the first signature of a process exists
	warm := draw("warm")
	run(warm, gen.Reader(t, 32, "warm_rd"))
	var mu sync.Mutex
	gr := &gen.GatedReader{Data: slow.ent, At: at, Beside: func() {
		mu.Lock()
		defer mu.Unlock()
		for _, c := range beside {
			run(c, &gen.ScriptedReader{Data: c.ent, FailAfter: -1})
		}
	}}
	run(slow, gr)
	gr.Join()
	mu.Lock()
	defer mu.Unlock()
	stat.Case("interleaved", []string{fmt.Sprintf("beside:%d", len(beside)), fmt.Sprintf("overlapped:%v", gr.Overlapped), fmt.Sprintf("slow-selfverify:%v", slow.selfVer)}, true,
		[]byte(fmt.Sprintf("%s|%d|%v", slow.desc, at, len(beside))), func() any {
			return map[string]any{"slow": slow.desc, "gate_after_bytes": at, "beside": len(beside)}
		})
	for i, c := range append([]*call{warm, slow}, beside...) {
		role := []string{"the earlier call", "the slow call"}
		what := "a call beside the slow one"
		if i < 2 {
			what = role[i]
		}
		if c.err != nil {
			t.Fatalf("%s %s failed: %v [slow call %s gated after %d entropy bytes, %d calls beside it]", what, c.desc, c.err, slow.desc, at, len(beside))
		}
		if !ref.ECDSAVerify(ref.BaseMul(c.d), c.digest, c.r, c.s) {
			t.Fatalf("%s %s returned (r=%x, s=%x), which is not a signature of its digest under its key d=%x [slow call %s gated after %d entropy bytes, %d calls beside it]", what, c.desc, c.r, c.s, c.d, slow.desc, at, len(beside))
		}
		checkSignature(t, c.d, c.digest, c.r, c.s, c.v)
	}
}

func TestC08_Interleaved(t *testing.T) { rapid.Check(t, propInterleaved) }
