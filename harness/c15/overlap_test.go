package c15

import (
	"bytes"
	"fmt"
	"testing"

	"pgregory.net/rapid"

	secp256k1 "gitlab.com/yawning/secp256k1-voi"
	"gitlab.com/yawning/secp256k1-voi/secec/h2c"
	"gitlab.com/yawning/secp256k1-voi/verifharness/gen"
	"gitlab.com/yawning/secp256k1-voi/verifharness/lib"
	"gitlab.com/yawning/secp256k1-voi/verifharness/ref"
	"gitlab.com/yawning/secp256k1-voi/verifharness/stat"
)

// propOverlapping: "a pure function of its inputs" for calls that overlap in time.  A handful of (suite, tag,
// message) inputs - short and oversize tags, tags shared between calls, messages of different lengths - hashed from
// several goroutines at once; every result must be the reference's point.
func propOverlapping(t *rapid.T) {
	n := rapid.IntRange(3, 8).Draw(t, "inputs")
	var calls []func() string
	var want []string
	var key bytes.Buffer
	var prevDST []byte
	for i := 0; i < n; i++ {
		var dst []byte
		switch gen.Sampled([]string{"short", "short", "oversize", "same-as-previous", "255", "256"}).Draw(t, fmt.Sprintf("dstkind%d", i)) {
		case "short":
			dst = gen.Bytes(t, 1, 40, fmt.Sprintf("dst%d", i))
		case "oversize":
			dst = gen.Bytes(t, 257, 400, fmt.Sprintf("dst%d", i))
		case "255":
			dst = gen.Bytes(t, 255, 255, fmt.Sprintf("dst%d", i))
		case "256":
			dst = gen.Bytes(t, 256, 256, fmt.Sprintf("dst%d", i))
		default:
			dst = prevDST // the very same slice: a tag is typically one package-level value shared by all callers
		}
		if len(dst) == 0 {
			dst = []byte("QUUX-V01-CS02-with-secp256k1_XMD:SHA-256_SSWU_RO_")
		}
		prevDST = dst
		msg := gen.Message(t, fmt.Sprintf("msg%d", i))
		suite := gen.Sampled([]string{"RO", "NU", "uniform"}).Draw(t, fmt.Sprintf("suite%d", i))
		var w ref.Pt
		var ok bool
		switch suite {
		case "RO":
			w, ok = ref.HashToCurveRO(msg, dst)
			calls = append(calls, func() string {
				p, err := h2c.Secp256k1_XMD_SHA256_SSWU_RO(dst, msg)
				if err != nil {
					return "error: " + err.Error()
				}
				return fmt.Sprintf("%x", p.CompressedBytes())
			})
		case "NU":
			w, ok = ref.EncodeToCurveNU(msg, dst)
			calls = append(calls, func() string {
				p, err := h2c.Secp256k1_XMD_SHA256_SSWU_NU(dst, msg)
				if err != nil {
					return "error: " + err.Error()
				}
				return fmt.Sprintf("%x", p.CompressedBytes())
			})
		default:
			ub := gen.Bytes(t, 48, 48, fmt.Sprintf("ub%d", i))
			w, ok = ref.MapToCurve(ref.Mod(ref.Int(ub), ref.P)), true
			calls = append(calls, func() string {
				p := secp256k1.NewIdentityPoint().SetUniformBytes(ub)
				return fmt.Sprintf("%x", p.CompressedBytes())
			})
		}
		if !ok {
			t.Skip("reference refuses the input")
		}
		want = append(want, fmt.Sprintf("%x", w.Compressed()))
		fmt.Fprintf(&key, "%s|%x|%x;", suite, dst, msg)
	}
	g := gen.Sampled([]int{2, 3, 4, 8}).Draw(t, "goroutines")
	stat.Case("overlapping", []string{fmt.Sprintf("goroutines:%d", g), fmt.Sprintf("inputs:%d", n)}, true, key.Bytes(), func() any {
		return map[string]any{"inputs": n, "goroutines": g, "expected_points": want}
	})
	if msg := lib.Overlap(calls, want, g, 3); msg != "" {
		t.Fatalf("hash to curve: %s", msg)
	}
}

func TestC15_Overlapping(t *testing.T) { rapid.Check(t, propOverlapping) }
