// Package c15: hash-to-curve equals RFC 9380 (secp256k1 XMD:SHA-256 SSWU
// RO/NU) on every input.
package c15

import (
	"bytes"
	"fmt"
	"math/big"
	"testing"

	"pgregory.net/rapid"

	secp256k1 "gitlab.com/yawning/secp256k1-voi"
	"gitlab.com/yawning/secp256k1-voi/internal/swu"
	"gitlab.com/yawning/secp256k1-voi/secec/h2c"
	"gitlab.com/yawning/secp256k1-voi/verifharness/gen"
	"gitlab.com/yawning/secp256k1-voi/verifharness/lib"
	"gitlab.com/yawning/secp256k1-voi/verifharness/ref"
	"gitlab.com/yawning/secp256k1-voi/verifharness/stat"
)

func TestMain(m *testing.M) { stat.Main(m) }

func dst(t *rapid.T) []byte {
	if rapid.IntRange(0, 5).Draw(t, "dst-dict") == 0 {
		// tags built from the program's own string constants (reserved prefixes, suite names, ...)
		if b := gen.DictBytes(t, 40, "dstdict"); len(b) > 0 {
			return b
		}
	}
	n := gen.Sampled([]int{1, 2, 16, 43, 254, 255, 256, 257, 300, 1000}).Draw(t, "dstlen")
	if rapid.IntRange(0, 3).Draw(t, "dstany") == 0 {
		n = rapid.IntRange(1, 600).Draw(t, "dstlen2")
	}
	b := make([]byte, n)
	seed := gen.Bytes(t, 16, 16, "dstseed")
	for i := range b {
		b[i] = seed[i%16] + byte(i/16)
	}
	return b
}

func propSuites(t *rapid.T) {
	d := dst(t)
	msg := gen.Message(t, "msg")
	ro := rapid.Bool().Draw(t, "ro")
	cl := []string{fmt.Sprintf("ro:%v", ro)}
	switch {
	case len(d) > 255:
		cl = append(cl, "dst>255")
	case len(d) == 255:
		cl = append(cl, "dst=255")
	}
	stat.Case("suites", cl, true, []byte(fmt.Sprintf("%v|%x|%x", ro, d, msg)), func() any {
		return map[string]any{"ro": ro, "dst_len": len(d), "dst": stat.Hex(d), "msg": stat.Hex(msg)}
	})
	var (
		want ref.Pt
		ok   bool
		got  *secp256k1.Point
		err  error
	)
	dOrig, mOrig := append([]byte(nil), d...), append([]byte(nil), msg...)
	// Callers slice their inputs out of larger buffers.  Lay the arguments out in one backing array
	// (DST directly followed by the message, followed by a canary, or the other way round) so that each
	// slice has spare capacity that belongs to somebody else: an append() or an in-place edit inside
	// the library then lands in the neighbour.
	layout := gen.Sampled([]string{"separate", "dst|msg|canary", "msg|dst|canary"}).Draw(t, "layout")
	canary := []byte{0xc5, 0x5c, 0xa7, 0x7a, 0x11, 0xee, 0x42, 0x24}
	var backing []byte
	switch layout {
	case "dst|msg|canary":
		backing = append(append(append([]byte(nil), dOrig...), mOrig...), canary...)
		d, msg = backing[:len(dOrig)], backing[len(dOrig):len(dOrig)+len(mOrig)]
	case "msg|dst|canary":
		backing = append(append(append([]byte(nil), mOrig...), dOrig...), canary...)
		msg, d = backing[:len(mOrig)], backing[len(mOrig):len(mOrig)+len(dOrig)]
	}
	backingOrig := append([]byte(nil), backing...)
	defer func() {
		if !bytes.Equal(backing, backingOrig) {
			t.Fatalf("the library wrote outside / inside its input slices (layout %s): buffer %x became %x", layout, backingOrig, backing)
		}
	}()
	if ro {
		want, ok = ref.HashToCurveRO(mOrig, dOrig)
		got, err = h2c.Secp256k1_XMD_SHA256_SSWU_RO(d, msg)
	} else {
		want, ok = ref.EncodeToCurveNU(mOrig, dOrig)
		got, err = h2c.Secp256k1_XMD_SHA256_SSWU_NU(d, msg)
	}
	if !ok {
		t.Fatal("reference aborted on a valid input")
	}
	if err != nil {
		t.Fatalf("suite failed: %v", err)
	}
	if !bytes.Equal(got.UncompressedBytes(), want.Uncompressed()) {
		t.Fatalf("h2c(ro=%v, dst len %d, msg %x) = %x, RFC 9380 says %v", ro, len(d), msg, got.UncompressedBytes(), want)
	}
	if !bytes.Equal(d, dOrig) || !bytes.Equal(msg, mOrig) {
		t.Fatal("inputs modified")
	}
	// a related call in between (DST with its last byte changed), then the original again
	d2 := append([]byte(nil), dOrig...)
	d2[len(d2)-1] ^= 0x01
	var mid *secp256k1.Point
	var wmid ref.Pt
	if ro {
		mid, _ = h2c.Secp256k1_XMD_SHA256_SSWU_RO(d2, mOrig)
		wmid, _ = ref.HashToCurveRO(mOrig, d2)
	} else {
		mid, _ = h2c.Secp256k1_XMD_SHA256_SSWU_NU(d2, mOrig)
		wmid, _ = ref.EncodeToCurveNU(mOrig, d2)
	}
	if mid == nil || !bytes.Equal(mid.UncompressedBytes(), wmid.Uncompressed()) {
		t.Fatalf("h2c(ro=%v, dst %x, msg %x) right after the same message under dst %x: wrong point", ro, d2, mOrig, dOrig)
	}
	// the caller reuses its buffers: the same slices (same backing memory) now hold another tag / message of
	// the same length; the result must be the function of what the buffers hold now.  Afterwards the original
	// content is written back into the same memory.
	if rapid.Bool().Draw(t, "reuse-buffers") {
		which := gen.Sampled([]string{"dst", "msg", "both"}).Draw(t, "reuse-which")
		if which != "msg" {
			for i := range d {
				d[i] = d2[i]
			}
			if rapid.Bool().Draw(t, "reuse-scramble") { // a different tag altogether
				copy(d, gen.Bytes(t, len(d), len(d), "reuse-dst"))
				if len(d) > 0 && d[0] == 0 {
					d[0] = 'Q'
				}
			}
		}
		if which != "dst" && len(msg) > 0 {
			msg[rapid.IntRange(0, len(msg)-1).Draw(t, "reuse-mpos")] ^= 0x20
		}
		dNow, mNow := append([]byte(nil), d...), append([]byte(nil), msg...)
		var re *secp256k1.Point
		var wre ref.Pt
		if ro {
			re, _ = h2c.Secp256k1_XMD_SHA256_SSWU_RO(d, msg)
			wre, _ = ref.HashToCurveRO(mNow, dNow)
		} else {
			re, _ = h2c.Secp256k1_XMD_SHA256_SSWU_NU(d, msg)
			wre, _ = ref.EncodeToCurveNU(mNow, dNow)
		}
		if re == nil || !bytes.Equal(re.UncompressedBytes(), wre.Uncompressed()) {
			t.Fatalf("h2c(ro=%v) after the caller rewrote its %s buffer in place (dst %x -> %x, msg %x -> %x): result is not the RFC 9380 point of the current content", ro, which, dOrig, dNow, mOrig, mNow)
		}
		copy(d, dOrig)
		copy(msg, mOrig)
		stat.Case("suites", []string{"follow-up:buffers-reused-in-place:" + which}, true, []byte(fmt.Sprintf("reuse|%x|%x", dNow, mNow)), func() any {
			return map[string]any{"first_dst": stat.Hex(dOrig), "then_dst_same_memory": stat.Hex(dNow), "msg": stat.Hex(mNow)}
		})
	}
	// pure function
	var again *secp256k1.Point
	if ro {
		again, _ = h2c.Secp256k1_XMD_SHA256_SSWU_RO(d, msg)
	} else {
		again, _ = h2c.Secp256k1_XMD_SHA256_SSWU_NU(d, msg)
	}
	if again.Equal(got) != 1 {
		t.Fatal("two calls with the same input differ")
	}
	if _, err := secp256k1.NewPointFromBytes(got.UncompressedBytes()); err != nil {
		t.Fatalf("result is not a valid point: %v", err)
	}
}

func TestC15_Suites(t *testing.T) { rapid.Check(t, propSuites) }

func TestC15_EmptyDST(t *testing.T) {
	// The property quantifies over non-empty tags (RFC 9380 3.1: tags MUST have nonzero length), so the
	// behaviour for an empty tag is not pinned down by it: rejecting is what the library does; if it ever
	// returns a point instead, that point must at least be the RFC's function of the (empty) tag.
	stat.Case("empty-dst", nil, true, []byte("ro"), func() any { return "RO with an empty DST: error, or the RFC point" })
	stat.Case("empty-dst", nil, true, []byte("nu"), func() any { return "NU with an empty DST: error, or the RFC point" })
	msg := []byte("x")
	if p, err := h2c.Secp256k1_XMD_SHA256_SSWU_RO(nil, msg); err == nil {
		if w, ok := ref.HashToCurveRO(msg, nil); p == nil || !ok || !bytes.Equal(p.UncompressedBytes(), w.Uncompressed()) {
			t.Fatal("RO accepted an empty DST and returned something other than the RFC 9380 point")
		}
	} else if p != nil {
		t.Fatal("RO returned an error together with a point")
	}
	if p, err := h2c.Secp256k1_XMD_SHA256_SSWU_NU([]byte{}, msg); err == nil {
		if w, ok := ref.EncodeToCurveNU(msg, nil); p == nil || !ok || !bytes.Equal(p.UncompressedBytes(), w.Uncompressed()) {
			t.Fatal("NU accepted an empty DST and returned something other than the RFC 9380 point")
		}
	} else if p != nil {
		t.Fatal("NU returned an error together with a point")
	}
}

var (
	inv11        = ref.Inv0(big.NewInt(11), ref.P)
	sqrtInv11, _ = ref.SqrtP(inv11) // u with Z*u^2 = -1: the SWU denominator vanishes
)

// chosenU draws a field element aimed at the exceptional / branch cases.
func chosenU(t *rapid.T) (*big.Int, string) {
	kind := gen.Sampled([]string{"0", "1", "p-1", "+sqrt(1/11)", "-sqrt(1/11)", "small", "drawn", "drawn", "iso-kernel", "limb-edge", "limb-edge", "steered", "steered"}).Draw(t, "ukind")
	switch kind {
	case "steered":
		// u solved so that an intermediate of the straight-line SWU map (u^2, Z u^2, (Z u^2)^2, the
		// denominator Z^2 u^4 + Z u^2, or that plus one) is a hostile value -- a limb pattern of the
		// integer or of its Montgomery form, a value next to a limb boundary or the modulus.  Predicates
		// and small-constant arithmetic on these intermediates see such operands only this way: the
		// intermediates of a drawn u look uniformly random.
		half := ref.Inv0(big.NewInt(2), ref.P)
		zinv := ref.Inv0(ref.SwuZ, ref.P)
		for try := 0; try < 6; try++ {
			target := ref.Mod(gen.Raw256(t, ref.P, fmt.Sprintf("target%d", try)), ref.P)
			which := gen.Sampled([]string{"u^2", "Zu^2", "(Zu^2)^2", "tv2", "tv2", "tv2+1"}).Draw(t, fmt.Sprintf("which%d", try))
			var zu2 *big.Int // the value Z u^2 has to take
			switch which {
			case "u^2":
				zu2 = ref.MulM(ref.SwuZ, target, ref.P)
			case "Zu^2":
				zu2 = target
			case "(Zu^2)^2":
				r, ok := ref.SqrtP(target)
				if !ok {
					continue
				}
				zu2 = r
			default: // w^2 + w = c  <=>  w = (-1 +- sqrt(1 + 4c)) / 2
				c := target
				if which == "tv2+1" {
					c = ref.SubM(target, big.NewInt(1), ref.P)
				}
				r, ok := ref.SqrtP(ref.AddM(big.NewInt(1), ref.MulM(big.NewInt(4), c, ref.P), ref.P))
				if !ok {
					continue
				}
				if rapid.Bool().Draw(t, fmt.Sprintf("root%d", try)) {
					r = ref.NegM(r, ref.P)
				}
				zu2 = ref.MulM(ref.SubM(r, big.NewInt(1), ref.P), half, ref.P)
			}
			u, ok := ref.SqrtP(ref.MulM(zu2, zinv, ref.P))
			if !ok {
				continue
			}
			if rapid.Bool().Draw(t, fmt.Sprintf("neg%d", try)) {
				u = ref.NegM(u, ref.P)
			}
			return u, "steered:" + which
		}
		return gen.Int256(t, ref.P, "u"), "drawn"
	case "0":
		return big.NewInt(0), kind
	case "1":
		return big.NewInt(1), kind
	case "p-1":
		return new(big.Int).Sub(ref.P, big.NewInt(1)), kind
	case "+sqrt(1/11)":
		return new(big.Int).Set(sqrtInv11), kind
	case "-sqrt(1/11)":
		return ref.NegM(sqrtInv11, ref.P), kind
	case "small":
		return gen.Small(t, "u"), kind
	case "limb-edge":
		return gen.LimbEdge(t, ref.P, "u"), kind
	case "iso-kernel":
		// a u whose SWU image has the x' that kills the isogeny denominators is not constructible
		// by formula here; approximate by searching a few small u (classified by the model below).
		return gen.Small(t, "u"), "small"
	}
	return gen.Int256(t, ref.P, "u"), kind
}

func propUniformBytes(t *rapid.T) {
	u, kind := chosenU(t)
	n := gen.WideLen(t, "len")
	// encode u + j*p in n bytes
	maxv := new(big.Int).Lsh(big.NewInt(1), uint(8*n))
	j := new(big.Int)
	if rapid.Bool().Draw(t, "alias") {
		jmax := new(big.Int).Div(new(big.Int).Sub(new(big.Int).Sub(maxv, big.NewInt(1)), u), ref.P)
		if jmax.Sign() > 0 {
			switch rapid.IntRange(0, 4).Draw(t, "jsel") {
			case 0:
				j.SetInt64(1)
			case 1:
				j.Sub(jmax, big.NewInt(1))
				if j.Sign() < 0 {
					j.SetInt64(0)
				}
			case 2, 3:
				j.Set(jmax) // the largest alias that fits: every carry of the wide reduction
			default:
				j.Mod(gen.Uniform256(t, "j"), jmax)
			}
		}
	}
	v := new(big.Int).Add(u, new(big.Int).Mul(j, ref.P))
	if v.Cmp(maxv) >= 0 {
		v = new(big.Int).Set(u)
	}
	src := v.FillBytes(make([]byte, n))
	// model classification
	xp, yp := ref.MapToCurveSimpleSWU(u)
	zu2 := ref.MulM(ref.SwuZ, ref.MulM(u, u, ref.P), ref.P)
	cl := []string{"u:" + kind, fmt.Sprintf("sgn0(u):%d", ref.Sgn0(u))}
	if ref.AddM(ref.MulM(zu2, zu2, ref.P), zu2, ref.P).Sign() == 0 {
		cl = append(cl, "swu-exceptional")
	}
	cl = append(cl, fmt.Sprintf("gx1-square:%v", ref.SWUFirstCandidateIsSquare(u)))
	if j.Sign() != 0 {
		cl = append(cl, "wide-alias")
	}
	if n != 48 {
		cl = append(cl, "len!=48")
	}
	want := ref.MapToCurve(u)
	if want.Inf {
		cl = append(cl, "iso-exceptional")
	}
	stat.Case("uniform", cl, true, append([]byte("u|"), src...), func() any {
		return map[string]any{"u": u.Text(16), "kind": kind, "len": n, "src": stat.Hex(src)}
	})
	rcv, _ := lib.Receiver(rapid.IntRange(0, lib.ReceiverKinds-1).Draw(t, "rcv"))
	ret := rcv.SetUniformBytes(src)
	if ret != rcv {
		t.Fatal("returned pointer is not the receiver")
	}
	if !bytes.Equal(rcv.UncompressedBytes(), want.Uncompressed()) {
		t.Fatalf("SetUniformBytes(u=%x [%s], len %d) = %x, RFC 9380 says %v", u, kind, n, rcv.UncompressedBytes(), want)
	}
	// the internal maps, level by level
	gx, gy := swu.MapToCurveSimpleSWU(lib.Fe(u))
	if lib.FeInt(gx).Cmp(xp) != 0 || lib.FeInt(gy).Cmp(yp) != 0 {
		t.Fatalf("map_to_curve_simple_swu(%x) = (%x,%x), generic SWU says (%x,%x)", u, lib.FeInt(gx), lib.FeInt(gy), xp, yp)
	}
	if !ref.OnIsoCurve(xp, yp) {
		t.Fatal("reference SWU output not on E' (reference broken)")
	}
	ix, iy, flag := swu.IsoMap(gx, gy)
	wx, wy, wok := ref.IsoMap(xp, yp)
	if (flag == 1) != wok {
		t.Fatalf("iso_map(%x,%x) flag %d, reference ok=%v", xp, yp, flag, wok)
	}
	if wok && (lib.FeInt(ix).Cmp(wx) != 0 || lib.FeInt(iy).Cmp(wy) != 0) {
		t.Fatalf("iso_map(%x,%x) wrong", xp, yp)
	}
}

func TestC15_UniformBytes(t *testing.T) { rapid.Check(t, propUniformBytes) }

// TestC15_IsoKernel feeds the isogeny its exceptional abscissas directly
// (roots of the x-denominator, found by solving the quadratic).
func TestC15_IsoKernel(t *testing.T) {
	// x_den = x'^2 + k21 x' + k20; roots = (-k21 +- sqrt(k21^2 - 4 k20)) / 2
	k20, _ := new(big.Int).SetString("d35771193d94918a9ca34ccbb7b640dd86cd409542f8487d9fe6b745781eb49b", 16)
	k21, _ := new(big.Int).SetString("edadc6f64383dc1df7c4b2d51b54225406d36b641f5e41bbc52a56612a8c6d14", 16)
	disc := ref.SubM(ref.MulM(k21, k21, ref.P), ref.MulM(big.NewInt(4), k20, ref.P), ref.P)
	sq, ok := ref.SqrtP(disc)
	n := 0
	if ok {
		for _, s := range []*big.Int{sq, ref.NegM(sq, ref.P)} {
			x := ref.MulM(ref.AddM(ref.NegM(k21, ref.P), s, ref.P), ref.Inv0(big.NewInt(2), ref.P), ref.P)
			_, _, wok := ref.IsoMap(x, big.NewInt(1))
			_, _, flag := swu.IsoMap(lib.Fe(x), lib.Fe(big.NewInt(1)))
			stat.Case("iso-kernel", nil, true, x.Bytes(), func() any { return map[string]any{"x_prime": x.Text(16), "reference_ok": wok} })
			if wok || flag != 0 {
				t.Fatalf("iso_map at the kernel abscissa %x: flag %d (reference ok=%v)", x, flag, wok)
			}
			n++
		}
	}
	// whether or not the denominator has roots in F_p, ordinary abscissas must give flag 1
	for i := int64(0); i < 50; i++ {
		x := big.NewInt(i)
		_, _, wok := ref.IsoMap(x, big.NewInt(1))
		_, _, flag := swu.IsoMap(lib.Fe(x), lib.Fe(big.NewInt(1)))
		stat.Case("iso-kernel", nil, true, append([]byte("o"), x.Bytes()...), nil)
		if (flag == 1) != wok {
			t.Fatalf("iso_map flag mismatch at x'=%d", i)
		}
	}
	t.Logf("isogeny x-denominator roots in F_p: %d", n)
}
