//go:build verif

package c15

import (
	"bytes"
	"crypto"
	"fmt"
	"testing"

	"pgregory.net/rapid"

	"gitlab.com/yawning/secp256k1-voi/secec/h2c"
	"gitlab.com/yawning/secp256k1-voi/verifharness/gen"
	"gitlab.com/yawning/secp256k1-voi/verifharness/lib"
	"gitlab.com/yawning/secp256k1-voi/verifharness/ref"
	"gitlab.com/yawning/secp256k1-voi/verifharness/stat"
)

func propExpand(t *rapid.T) {
	which := gen.Sampled([]int{256, 256, 512}).Draw(t, "hash")
	bIn := which / 8
	n := gen.Sampled([]int{1, 31, 32, 33, 48, 63, 64, 65, 96, 128, 255 * 32, 255*32 + 1, 255 * 64, 255*64 + 1, 65535, 65536}).Draw(t, "outlen")
	if rapid.Bool().Draw(t, "anylen") {
		n = rapid.IntRange(1, 400).Draw(t, "outlen2")
	}
	d := dst(t)
	msg := gen.Message(t, "msg")
	h := crypto.SHA256
	if which == 512 {
		h = crypto.SHA512
	}
	want, ok := ref.ExpandMessageXMD(which, msg, d, n)
	cl := []string{fmt.Sprintf("hash:%d", which)}
	if !ok {
		cl = append(cl, "abort")
	}
	if len(d) > 255 {
		cl = append(cl, "dst>255")
	}
	if n%bIn != 0 {
		cl = append(cl, "partial-block")
	}
	stat.Case("expand", cl, true, []byte(fmt.Sprintf("%d|%d|%x|%x", which, n, d, msg)), func() any {
		return map[string]any{"hash": which, "len_in_bytes": n, "dst_len": len(d), "msg_len": len(msg)}
	})
	out := make([]byte, n)
	var err error
	if p := lib.Catch(func() { err = h2c.VerifExpandMessageXMD(out, h, d, msg) }); p != nil {
		t.Fatalf("expand_message_xmd panicked: %v", p)
	}
	if !ok {
		if err == nil {
			t.Fatalf("expand_message_xmd(len %d, hash %d) must abort (ell > 255 or len > 65535)", n, which)
		}
		return
	}
	if err != nil {
		t.Fatalf("expand_message_xmd(len %d) failed: %v", n, err)
	}
	if !bytes.Equal(out, want) {
		t.Fatalf("expand_message_xmd(hash %d, len %d, dst len %d, msg %x) mismatch", which, n, len(d), msg)
	}
}

func TestC15_Expand(t *testing.T) { rapid.Check(t, propExpand) }
