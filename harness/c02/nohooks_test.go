//go:build !verif

package c02

import (
	"pgregory.net/rapid"

	secp256k1 "gitlab.com/yawning/secp256k1-voi"
)

func checkInternal(_ *rapid.T, _ *secp256k1.Scalar) {}
