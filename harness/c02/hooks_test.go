//go:build verif

package c02

import (
	"fmt"
	"math/big"
	"testing"

	"pgregory.net/rapid"

	secp256k1 "gitlab.com/yawning/secp256k1-voi"
	"gitlab.com/yawning/secp256k1-voi/verifharness/gen"
	"gitlab.com/yawning/secp256k1-voi/verifharness/lib"
	"gitlab.com/yawning/secp256k1-voi/verifharness/ref"
	"gitlab.com/yawning/secp256k1-voi/verifharness/stat"
)

func checkInternal(t *rapid.T, s *secp256k1.Scalar) {
	// see c01: a non-reduced internal value is only a violation once an observer goes wrong
	raw := ref.FromLimbs(s.VerifRawLimbs())
	if raw.Cmp(N) < 0 {
		return
	}
	stat.Note("ops", "a non-reduced internal representation was observed; observers were cross-checked")
	b := s.Bytes()
	v := ref.Int(b)
	if v.Cmp(N) >= 0 {
		t.Fatalf("internal representation %x not reduced and Bytes() = %x is not canonical", raw, b)
	}
	fresh := lib.Sc(v)
	var wz, wh uint64
	if v.Sign() == 0 {
		wz = 1
	}
	if v.Cmp(ref.HalfN) > 0 {
		wh = 1
	}
	if s.Equal(fresh) != 1 || fresh.Equal(s) != 1 || s.IsZero() != wz || s.IsGreaterThanHalfN() != wh {
		t.Fatalf("internal representation not reduced (%x) and the observers disagree with the value %x: Equal(fresh)=%d/%d IsZero=%d IsGreaterThanHalfN=%d",
			raw, v, s.Equal(fresh), fresh.Equal(s), s.IsZero(), s.IsGreaterThanHalfN())
	}
}

func propHooks(t *rapid.T) {
	which := gen.Sampled([]string{"pow2k", "reducesat", "rawlimbs"}).Draw(t, "which")
	switch which {
	case "pow2k":
		a, _, kind := gen.Pair(t, N, "p")
		k := uint(rapid.IntRange(1, 300).Draw(t, "k"))
		alias := rapid.Bool().Draw(t, "alias")
		stat.Case("hooks", []string{"hook:" + which, "pair:" + kind}, true, []byte(fmt.Sprintf("p2k|%x|%d|%v", a, k, alias)), func() any {
			return map[string]any{"which": which, "a": a.Text(16), "k": k, "alias": alias}
		})
		ea := lib.Sc(a)
		er := secp256k1.NewScalar()
		if alias {
			er = ea
		}
		er.VerifPow2k(ea, k)
		if got, want := lib.ScInt(er), ref.ExpM(a, new(big.Int).Lsh(big.NewInt(1), k), N); got.Cmp(want) != 0 {
			t.Fatalf("pow2k(%x,%d) = %x want %x", a, k, got, want)
		}
		checkInternal(t, er)
	case "reducesat":
		src := gen.Bytes32Any(t, N, "src")
		v := ref.Int(src)
		in := ref.Limbs(v)
		alias := rapid.Bool().Draw(t, "alias")
		cl := []string{"hook:" + which}
		if v.Cmp(N) >= 0 {
			cl = append(cl, "non-canonical")
		}
		stat.Case("hooks", cl, v.Cmp(N) >= 0 || nearBoundary(v), append([]byte("rs"), src...), func() any {
			return map[string]any{"which": which, "src": stat.Hex(src), "alias": alias}
		})
		var out [4]uint64
		dst := &out
		if alias {
			dst = &in
		}
		flag := secp256k1.VerifScalarReduceSaturated(dst, &in)
		var wantFlag uint64
		if v.Cmp(N) >= 0 {
			wantFlag = 1
		}
		if flag != wantFlag || ref.FromLimbs(*dst).Cmp(ref.Mod(v, N)) != 0 {
			t.Fatalf("reduceSaturated(%x): flag %d out %x", v, flag, ref.FromLimbs(*dst))
		}
	case "rawlimbs":
		a := gen.Int256(t, N, "a")
		stat.Case("hooks", []string{"hook:" + which}, nearBoundary(a), []byte(fmt.Sprintf("rl|%x", a)), nil)
		raw := ref.FromLimbs(lib.Sc(a).VerifRawLimbs())
		if raw.Cmp(ref.ToM(a, N)) != 0 {
			t.Fatalf("internal representation of %x is %x, want a*R mod n", a, raw)
		}
	}
}

func TestC02_Hooks(t *testing.T) { rapid.Check(t, propHooks) }
