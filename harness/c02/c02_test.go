// Package c02: scalar operations are exact arithmetic modulo n.
package c02

import (
	"bytes"
	"fmt"
	"math/big"
	"testing"

	"pgregory.net/rapid"

	secp256k1 "gitlab.com/yawning/secp256k1-voi"
	"gitlab.com/yawning/secp256k1-voi/verifharness/gen"
	"gitlab.com/yawning/secp256k1-voi/verifharness/lib"
	"gitlab.com/yawning/secp256k1-voi/verifharness/ref"
	"gitlab.com/yawning/secp256k1-voi/verifharness/stat"
)

func TestMain(m *testing.M) { stat.Main(m) }

var (
	N      = ref.N
	two33  = new(big.Int).Lsh(big.NewInt(1), 33)
	opList = []string{"add", "sub", "mul", "neg", "square", "invert", "set", "condneg", "condsel",
		"equal", "iszero", "gthalf", "sum", "product"}
)

func nearBoundary(v *big.Int) bool {
	if v.Cmp(two33) < 0 {
		return true
	}
	for _, anchor := range []*big.Int{N, ref.HalfN, ref.Two256} {
		d := new(big.Int).Sub(anchor, v)
		if d.Abs(d).Cmp(two33) < 0 {
			return true
		}
	}
	return false
}

func classify(op string, a, b *big.Int) (classes []string, window bool) {
	am, bm := ref.ToM(a, N), ref.ToM(b, N)
	switch op {
	case "mul":
		if ref.InWindow(ref.MontPre(am, bm, N), N) {
			classes, window = append(classes, "mont-window"), true
		}
	case "square", "invert":
		if ref.InWindow(ref.MontPre(am, am, N), N) {
			classes, window = append(classes, "mont-window"), true
		}
	case "gthalf": // FromMontgomery = Montgomery product with 1
		if ref.InWindow(ref.MontPre(am, big.NewInt(1), N), N) {
			classes, window = append(classes, "mont-window"), true
		}
	case "add":
		s := new(big.Int).Add(am, bm)
		switch {
		case s.Cmp(ref.Two256) >= 0:
			classes = append(classes, "sum-carry")
		case s.Cmp(N) >= 0:
			classes, window = append(classes, "sum-window"), true
		}
	case "sub":
		if am.Cmp(bm) < 0 {
			classes = append(classes, "sub-borrow")
		}
	}
	return
}

// halfSpecial draws values around (n-1)/2 and the other boundaries of the
// half-order test.
func halfSpecial(t *rapid.T) *big.Int {
	base := gen.Sampled([]*big.Int{ref.HalfN, big.NewInt(0), new(big.Int).Sub(N, big.NewInt(1)), big.NewInt(1)}).Draw(t, "halfbase")
	off := big.NewInt(int64(rapid.IntRange(-3, 3).Draw(t, "halfoff")))
	return ref.Mod(new(big.Int).Add(base, off), N)
}

func propOps(t *rapid.T) {
	a, b, kind := gen.Pair(t, N, "p")
	op := gen.Sampled(opList).Draw(t, "op")
	alias := rapid.IntRange(0, 4).Draw(t, "alias")
	ctrl := gen.Ctrl(t, "ctrl")
	junk := gen.Int256(t, N, "junk")
	if op == "gthalf" && rapid.Bool().Draw(t, "half-special") {
		a, kind = halfSpecial(t), "half-special"
	}
	if alias >= 3 {
		b = new(big.Int).Set(a)
	}
	ea, eb, er := lib.Sc(a), lib.Sc(b), lib.Sc(junk)
	switch alias {
	case 1:
		er = ea
	case 2:
		er = eb
	case 3:
		eb = ea
	case 4:
		eb, er = ea, ea
	}
	classes, window := classify(op, a, b)
	classes = append(classes, "op:"+op, "pair:"+kind, fmt.Sprintf("alias:%d", alias))

	var (
		want              *big.Int
		gotFlag, wantFlag uint64
		hasFlag           bool
		ret               *secp256k1.Scalar
		vecDesc           string
	)
	switch op {
	case "add":
		ret, want = er.Add(ea, eb), ref.AddM(a, b, N)
	case "sub":
		ret, want = er.Subtract(ea, eb), ref.SubM(a, b, N)
	case "mul":
		ret, want = er.Multiply(ea, eb), ref.MulM(a, b, N)
	case "neg":
		ret, want = er.Negate(ea), ref.NegM(a, N)
	case "square":
		ret, want = er.Square(ea), ref.MulM(a, a, N)
	case "invert":
		ret, want = er.Invert(ea), ref.Inv0(a, N)
	case "set":
		ret, want = er.Set(ea), a
	case "condneg":
		ret, want = er.ConditionalNegate(ea, ctrl), a
		if ctrl != 0 {
			want = ref.NegM(a, N)
		}
	case "condsel":
		ret, want = er.ConditionalSelect(ea, eb, ctrl), a
		if ctrl != 0 {
			want = b
		}
	case "equal":
		hasFlag, gotFlag = true, ea.Equal(eb)
		if a.Cmp(b) == 0 {
			wantFlag = 1
		}
	case "iszero":
		hasFlag, gotFlag = true, ea.IsZero()
		if a.Sign() == 0 {
			wantFlag = 1
		}
	case "gthalf":
		hasFlag, gotFlag = true, ea.IsGreaterThanHalfN()
		if a.Cmp(ref.HalfN) > 0 {
			wantFlag = 1
		}
	case "sum", "product":
		// vector of 0..6 entries drawn from {a, b, receiver, fresh values}; repeated pointers allowed
		ln := rapid.IntRange(0, 6).Draw(t, "veclen")
		vec := make([]*secp256k1.Scalar, ln)
		acc := big.NewInt(0)
		if op == "product" {
			acc = big.NewInt(1)
		}
		rv := lib.ScInt(er)
		for i := range vec {
			var v *big.Int
			switch rapid.IntRange(0, 3).Draw(t, "vecsrc") {
			case 0:
				vec[i], v = ea, a
				vecDesc += "a"
			case 1:
				vec[i], v = eb, b
				vecDesc += "b"
			case 2:
				vec[i], v = er, rv
				vecDesc += "r"
			default:
				v = gen.Int256(t, N, "vecval")
				vec[i] = lib.Sc(v)
				vecDesc += "f"
			}
			if op == "sum" {
				acc = ref.AddM(acc, v, N)
			} else {
				acc = ref.MulM(acc, v, N)
			}
		}
		classes = append(classes, fmt.Sprintf("veclen:%d", ln))
		if op == "sum" {
			ret = er.Sum(vec...)
		} else {
			ret = er.Product(vec...)
		}
		want = acc
	}

	nontrivial := window || kind != gen.PairIndependent || alias != 0 || nearBoundary(a) || nearBoundary(b) ||
		(want != nil && nearBoundary(want)) || ((op == "condneg" || op == "condsel") && ctrl > 1) ||
		(vecDesc != "" && (bytes.ContainsRune([]byte(vecDesc), 'r') || len(vecDesc) == 0))
	if op == "sum" || op == "product" {
		nontrivial = true
		if bytes.ContainsRune([]byte(vecDesc), 'r') {
			classes = append(classes, "vec-contains-receiver")
		}
	}
	key := []byte(fmt.Sprintf("%s|%x|%x|%d|%d|%s", op, a, b, alias, ctrl, vecDesc))
	stat.Case("ops", classes, nontrivial, key, func() any {
		return map[string]any{"op": op, "a": a.Text(16), "b": b.Text(16), "alias": alias, "ctrl": ctrl, "vec": vecDesc}
	})

	if hasFlag && gotFlag != wantFlag {
		t.Fatalf("%s(%x,%x): flag %d want %d", op, a, b, gotFlag, wantFlag)
	}
	if ret != nil && ret != er {
		t.Fatalf("%s: returned pointer is not the receiver", op)
	}
	if want != nil {
		if got := lib.ScInt(er); got.Cmp(want) != 0 {
			t.Fatalf("%s(%x,%x) alias=%d ctrl=%d vec=%s: got %x want %x", op, a, b, alias, ctrl, vecDesc, got, want)
		}
	}
	if ea != er {
		if got := lib.ScInt(ea); got.Cmp(a) != 0 {
			t.Fatalf("%s: operand a modified: %x -> %x", op, a, got)
		}
	}
	if eb != er {
		if got := lib.ScInt(eb); got.Cmp(b) != 0 {
			t.Fatalf("%s: operand b modified: %x -> %x", op, b, got)
		}
	}
	checkInternal(t, er)
}

func TestC02_Ops(t *testing.T) { rapid.Check(t, propOps) }

func propCodec(t *rapid.T) {
	which := gen.Sampled([]string{"setbytes", "setcanonical", "newfrombytes", "newfromcanonical",
		"bytes", "uint64", "zero-one"}).Draw(t, "which")
	prev := gen.Int256(t, N, "prev")
	sc := lib.Sc(prev)
	classes := []string{"codec:" + which}
	switch which {
	case "setbytes", "setcanonical", "newfrombytes", "newfromcanonical":
		src := gen.Bytes32Any(t, N, "src")
		orig := append([]byte(nil), src...)
		v := ref.Int(src)
		canonical := v.Cmp(N) < 0
		if !canonical {
			classes = append(classes, "non-canonical")
		}
		stat.Case("codec", classes, !canonical || nearBoundary(v), append([]byte(which), src...), func() any {
			return map[string]any{"which": which, "src": stat.Hex(src)}
		})
		switch which {
		case "setbytes", "newfrombytes":
			var (
				ret  *secp256k1.Scalar
				flag uint64
			)
			if which == "setbytes" {
				ret, flag = sc.SetBytes((*[32]byte)(src))
				if ret != sc {
					t.Fatal("SetBytes: returned pointer is not the receiver")
				}
			} else {
				ret, flag = secp256k1.NewScalarFromBytes((*[32]byte)(src))
			}
			if (flag == 1) == canonical || flag > 1 {
				t.Fatalf("%s(%x): didReduce=%d canonical=%v", which, src, flag, canonical)
			}
			if got := lib.ScInt(ret); got.Cmp(ref.Mod(v, N)) != 0 {
				t.Fatalf("%s(%x): got %x", which, src, got)
			}
			checkInternal(t, ret)
		case "setcanonical":
			ret, err := sc.SetCanonicalBytes((*[32]byte)(src))
			if canonical {
				if err != nil || ret != sc || lib.ScInt(sc).Cmp(v) != 0 {
					t.Fatalf("SetCanonicalBytes(%x): err=%v", src, err)
				}
			} else {
				if err == nil || ret != nil {
					t.Fatalf("SetCanonicalBytes(%x): out-of-range input accepted", src)
				}
				if lib.ScInt(sc).Cmp(prev) != 0 {
					t.Fatalf("SetCanonicalBytes(%x): receiver changed on error", src)
				}
			}
		case "newfromcanonical":
			ns, err := secp256k1.NewScalarFromCanonicalBytes((*[32]byte)(src))
			if canonical {
				if err != nil || ns == nil || lib.ScInt(ns).Cmp(v) != 0 {
					t.Fatalf("NewScalarFromCanonicalBytes(%x): err=%v", src, err)
				}
			} else if err == nil || ns != nil {
				t.Fatalf("NewScalarFromCanonicalBytes(%x): out-of-range input accepted", src)
			}
		}
		if !bytes.Equal(src, orig) {
			t.Fatal("input bytes were modified")
		}
	case "bytes":
		v := gen.Int256(t, N, "v")
		e := lib.Sc(v)
		enc := e.Bytes()
		stat.Case("codec", classes, nearBoundary(v), append([]byte(which), enc...), func() any {
			return map[string]any{"which": which, "v": v.Text(16)}
		})
		if len(enc) != 32 || ref.Int(enc).Cmp(v) != 0 {
			t.Fatalf("Bytes() of %x = %x", v, enc)
		}
		enc[31] ^= 0xff
		if lib.ScInt(e).Cmp(v) != 0 {
			t.Fatal("Bytes() aliases internal state")
		}
	case "uint64":
		u := gen.Limb(t, "u")
		stat.Case("codec", classes, true, []byte(fmt.Sprintf("u64|%d", u)), func() any {
			return map[string]any{"which": which, "u": u}
		})
		if got := lib.ScInt(secp256k1.NewScalarFromUint64(u)); got.Cmp(new(big.Int).SetUint64(u)) != 0 {
			t.Fatalf("NewScalarFromUint64(%d) = %x", u, got)
		}
		// what a constructor returns is the caller's: small constants are built over and over (loop counters,
		// 1, 2, the cofactor), updated in place, and built again
		small := uint64(rapid.IntRange(0, 300).Draw(t, "small"))
		for _, v := range []uint64{u, small} {
			a := secp256k1.NewScalarFromUint64(v)
			switch rapid.IntRange(0, 2).Draw(t, "update") {
			case 0:
				a.Add(a, secp256k1.NewScalarFromUint64(v+1))
			case 1:
				a.Invert(a)
			default:
				a.Negate(a)
			}
			if got := lib.ScInt(secp256k1.NewScalarFromUint64(v)); got.Cmp(new(big.Int).SetUint64(v)) != 0 {
				t.Fatalf("NewScalarFromUint64(%d) = %x after an earlier result of the same call was updated in place", v, got)
			}
		}
	case "zero-one":
		stat.Case("codec", classes, false, []byte(which), nil)
		if r := sc.Zero(); r != sc || lib.ScInt(sc).Sign() != 0 || sc.IsZero() != 1 {
			t.Fatal("Zero()")
		}
		if r := sc.One(); r != sc || lib.ScInt(sc).Cmp(big.NewInt(1)) != 0 || sc.IsZero() != 0 {
			t.Fatal("One()")
		}
		if lib.ScInt(secp256k1.NewScalar()).Sign() != 0 {
			t.Fatal("NewScalar() != 0")
		}
		var zv secp256k1.Scalar // the zero value is documented as a valid zero element
		if zv.IsZero() != 1 || lib.ScInt(&zv).Sign() != 0 {
			t.Fatal("zero value is not 0")
		}
		c := secp256k1.NewScalarFrom(lib.Sc(prev))
		if lib.ScInt(c).Cmp(prev) != 0 {
			t.Fatal("NewScalarFrom")
		}
	}
	checkInternal(t, sc)
}

func TestC02_Codec(t *testing.T) { rapid.Check(t, propCodec) }

func propMachine(t *rapid.T) {
	const slots = 4
	var (
		pool  [slots]*secp256k1.Scalar
		model [slots]*big.Int
	)
	for i := range pool {
		model[i] = gen.Int256(t, N, fmt.Sprintf("init%d", i))
		pool[i] = lib.Sc(model[i])
	}
	steps, aliased := 0, 0
	var trace []string
	slot := func(l string) int { return rapid.IntRange(0, slots-1).Draw(t, l) }
	rec := func(op string, r, a, b int) {
		steps++
		if r == a || r == b || a == b {
			aliased++
		}
		if len(trace) < 40 {
			trace = append(trace, fmt.Sprintf("%s r%d a%d b%d", op, r, a, b))
		}
	}
	bin := func(name string, f func(r, a, b *secp256k1.Scalar), m func(a, b *big.Int) *big.Int) func(*rapid.T) {
		return func(t *rapid.T) {
			r, a, b := slot("r"), slot("a"), slot("b")
			rec(name, r, a, b)
			w := m(model[a], model[b])
			f(pool[r], pool[a], pool[b])
			model[r] = w
		}
	}
	un := func(name string, f func(r, a *secp256k1.Scalar), m func(a *big.Int) *big.Int) func(*rapid.T) {
		return func(t *rapid.T) {
			r, a := slot("r"), slot("a")
			rec(name, r, a, -1)
			w := m(model[a])
			f(pool[r], pool[a])
			model[r] = w
		}
	}
	t.Repeat(map[string]func(*rapid.T){
		"add":    bin("add", func(r, a, b *secp256k1.Scalar) { r.Add(a, b) }, func(a, b *big.Int) *big.Int { return ref.AddM(a, b, N) }),
		"sub":    bin("sub", func(r, a, b *secp256k1.Scalar) { r.Subtract(a, b) }, func(a, b *big.Int) *big.Int { return ref.SubM(a, b, N) }),
		"mul":    bin("mul", func(r, a, b *secp256k1.Scalar) { r.Multiply(a, b) }, func(a, b *big.Int) *big.Int { return ref.MulM(a, b, N) }),
		"square": un("square", func(r, a *secp256k1.Scalar) { r.Square(a) }, func(a *big.Int) *big.Int { return ref.MulM(a, a, N) }),
		"neg":    un("neg", func(r, a *secp256k1.Scalar) { r.Negate(a) }, func(a *big.Int) *big.Int { return ref.NegM(a, N) }),
		"invert": un("invert", func(r, a *secp256k1.Scalar) { r.Invert(a) }, func(a *big.Int) *big.Int { return ref.Inv0(a, N) }),
		"sum3": func(t *rapid.T) {
			r, a, b, c := slot("r"), slot("a"), slot("b"), slot("c")
			rec("sum3", r, a, b)
			w := ref.AddM(ref.AddM(model[a], model[b], N), model[c], N)
			pool[r].Sum(pool[a], pool[b], pool[c])
			model[r] = w
		},
		"product3": func(t *rapid.T) {
			r, a, b, c := slot("r"), slot("a"), slot("b"), slot("c")
			rec("product3", r, a, b)
			w := ref.MulM(ref.MulM(model[a], model[b], N), model[c], N)
			pool[r].Product(pool[a], pool[b], pool[c])
			model[r] = w
		},
		"condsel": func(t *rapid.T) {
			r, a, b := slot("r"), slot("a"), slot("b")
			ctrl := gen.Ctrl(t, "ctrl")
			rec("condsel", r, a, b)
			w := model[a]
			if ctrl != 0 {
				w = model[b]
			}
			pool[r].ConditionalSelect(pool[a], pool[b], ctrl)
			model[r] = w
		},
		"condneg": func(t *rapid.T) {
			r, a := slot("r"), slot("a")
			ctrl := gen.Ctrl(t, "ctrl")
			rec("condneg", r, a, -1)
			w := model[a]
			if ctrl != 0 {
				w = ref.NegM(w, N)
			}
			pool[r].ConditionalNegate(pool[a], ctrl)
			model[r] = w
		},
		"reload": func(t *rapid.T) {
			r := slot("r")
			_, b, _ := gen.Pair(t, N, "reload")
			rec("reload", r, -1, -2)
			pool[r], model[r] = lib.Sc(b), b
		},
		"roundtrip": func(t *rapid.T) {
			r, a := slot("r"), slot("a")
			rec("roundtrip", r, a, -1)
			enc := pool[a].Bytes()
			if _, err := pool[r].SetCanonicalBytes((*[32]byte)(enc)); err != nil {
				t.Fatalf("Bytes() of a live scalar is not canonical: %x", enc)
			}
			model[r] = model[a]
		},
		"": func(t *rapid.T) {
			for i := range pool {
				if got := lib.ScInt(pool[i]); got.Cmp(model[i]) != 0 {
					t.Fatalf("slot %d: got %x want %x (trace %v)", i, got, model[i], trace)
				}
				var wz, wh uint64
				if model[i].Sign() == 0 {
					wz = 1
				}
				if model[i].Cmp(ref.HalfN) > 0 {
					wh = 1
				}
				if pool[i].IsZero() != wz || pool[i].IsGreaterThanHalfN() != wh {
					t.Fatalf("slot %d: IsZero/IsGreaterThanHalfN disagree with model %x", i, model[i])
				}
				for j := range pool {
					var we uint64
					if model[i].Cmp(model[j]) == 0 {
						we = 1
					}
					if pool[i].Equal(pool[j]) != we {
						t.Fatalf("Equal(slot %d, slot %d) != %d", i, j, we)
					}
				}
				checkInternal(t, pool[i])
			}
		},
	})
	stat.Case("machine", []string{fmt.Sprintf("steps>=%d", steps/10*10)}, aliased > 0 && steps >= 5, []byte(fmt.Sprint(trace, model)), func() any {
		return map[string]any{"steps": steps, "aliased_steps": aliased, "trace": trace}
	})
}

func TestC02_Machine(t *testing.T) { rapid.Check(t, propMachine) }
