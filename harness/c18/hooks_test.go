//go:build verif

package c18

import (
	"fmt"

	secp256k1 "gitlab.com/yawning/secp256k1-voi"
	"gitlab.com/yawning/secp256k1-voi/verifharness/lib"
)

// pointState renders the raw projective coordinates and the validity flag.
func pointState(p *secp256k1.Point) string {
	x, y, z, v := secp256k1.VerifPointCoords(p)
	return fmt.Sprintf("(%x,%x,%x,valid=%v)", x.Bytes(), y.Bytes(), z.Bytes(), v)
}

// pointInvalid checks the projective curve equation on the raw coordinates.
func pointInvalid(p *secp256k1.Point) string {
	if !lib.CoordsOK(p) {
		return "raw coordinates " + pointState(p) + " satisfy neither Y^2 Z = X^3 + 7 Z^3 nor X = Z = 0, Y != 0"
	}
	return ""
}
