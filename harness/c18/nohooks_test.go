//go:build !verif

package c18

import (
	"fmt"

	secp256k1 "gitlab.com/yawning/secp256k1-voi"
	"gitlab.com/yawning/secp256k1-voi/verifharness/lib"
	"gitlab.com/yawning/secp256k1-voi/verifharness/ref"
)

// pointState renders what the public API shows of a point.
func pointState(p *secp256k1.Point) string {
	var enc []byte
	if lib.Catch(func() { enc = p.UncompressedBytes() }) != nil {
		return "uninitialised"
	}
	return fmt.Sprintf("%x", enc)
}

// pointInvalid re-decodes the encoding with the reference strict decoder.
func pointInvalid(p *secp256k1.Point) string {
	if _, ok := ref.DecodePoint(p.UncompressedBytes()); !ok {
		return fmt.Sprintf("encoding %x is not a curve point", p.UncompressedBytes())
	}
	return ""
}
