package c18

import (
	"bytes"
	"fmt"
	"testing"

	secp256k1 "gitlab.com/yawning/secp256k1-voi"
	"gitlab.com/yawning/secp256k1-voi/secec"
	"gitlab.com/yawning/secp256k1-voi/secec/bitcoin"
	"gitlab.com/yawning/secp256k1-voi/verifharness/lib"
	"gitlab.com/yawning/secp256k1-voi/verifharness/stat"
)

// TestC18_UninitEnumeration: every public method x every point-operand
// position given a zero-value Point panics and leaves its receiver untouched
// (finite enumeration; receivers: a live point, the identity, a zero value).
func TestC18_UninitEnumeration(t *testing.T) {
	g := secp256k1.NewGeneratorPoint()
	one := secp256k1.NewScalarFromUint64(1)
	two := secp256k1.NewScalarFromUint64(2)
	type call struct {
		name string
		f    func(rcv, z *secp256k1.Point)
	}
	calls := []call{
		{"Add(z,g)", func(r, z *secp256k1.Point) { r.Add(z, g) }},
		{"Add(g,z)", func(r, z *secp256k1.Point) { r.Add(g, z) }},
		{"Add(z,z)", func(r, z *secp256k1.Point) { r.Add(z, z) }},
		{"Subtract(z,g)", func(r, z *secp256k1.Point) { r.Subtract(z, g) }},
		{"Subtract(g,z)", func(r, z *secp256k1.Point) { r.Subtract(g, z) }},
		{"Double(z)", func(r, z *secp256k1.Point) { r.Double(z) }},
		{"Negate(z)", func(r, z *secp256k1.Point) { r.Negate(z) }},
		{"ConditionalNegate(z,0)", func(r, z *secp256k1.Point) { r.ConditionalNegate(z, 0) }},
		{"ConditionalNegate(z,1)", func(r, z *secp256k1.Point) { r.ConditionalNegate(z, 1) }},
		{"ConditionalSelect(z,g,0)", func(r, z *secp256k1.Point) { r.ConditionalSelect(z, g, 0) }},
		{"ConditionalSelect(z,g,1)", func(r, z *secp256k1.Point) { r.ConditionalSelect(z, g, 1) }},
		{"ConditionalSelect(g,z,0)", func(r, z *secp256k1.Point) { r.ConditionalSelect(g, z, 0) }},
		{"ConditionalSelect(g,z,1)", func(r, z *secp256k1.Point) { r.ConditionalSelect(g, z, 1) }},
		{"Set(z)", func(r, z *secp256k1.Point) { r.Set(z) }},
		{"NewPointFrom(z)", func(r, z *secp256k1.Point) { secp256k1.NewPointFrom(z) }},
		{"g.Equal(z)", func(r, z *secp256k1.Point) { g.Equal(z) }},
		{"z.Equal(g)", func(r, z *secp256k1.Point) { z.Equal(g) }},
		{"z.IsIdentity()", func(r, z *secp256k1.Point) { z.IsIdentity() }},
		{"z.IsYOdd()", func(r, z *secp256k1.Point) { z.IsYOdd() }},
		{"z.CompressedBytes()", func(r, z *secp256k1.Point) { z.CompressedBytes() }},
		{"z.UncompressedBytes()", func(r, z *secp256k1.Point) { z.UncompressedBytes() }},
		{"z.XBytes()", func(r, z *secp256k1.Point) { _, _ = z.XBytes() }},
		{"ScalarMult(1,z)", func(r, z *secp256k1.Point) { r.ScalarMult(one, z) }},
		{"ScalarMult(2,z)", func(r, z *secp256k1.Point) { r.ScalarMult(two, z) }},
		{"ScalarMult(0,z)", func(r, z *secp256k1.Point) { r.ScalarMult(secp256k1.NewScalar(), z) }},
		{"DoubleScalarMultBasepointVartime(1,2,z)", func(r, z *secp256k1.Point) { r.DoubleScalarMultBasepointVartime(one, two, z) }},
		{"DoubleScalarMultBasepointVartime(1,0,z)", func(r, z *secp256k1.Point) { r.DoubleScalarMultBasepointVartime(one, secp256k1.NewScalar(), z) }},
		{"MultiScalarMult([2],[z])", func(r, z *secp256k1.Point) { r.MultiScalarMult([]*secp256k1.Scalar{two}, []*secp256k1.Point{z}) }},
		{"MultiScalarMult([1,2],[g,z])", func(r, z *secp256k1.Point) {
			r.MultiScalarMult([]*secp256k1.Scalar{one, two}, []*secp256k1.Point{g, z})
		}},
		{"MultiScalarMult([1,2],[z,g])", func(r, z *secp256k1.Point) {
			r.MultiScalarMult([]*secp256k1.Scalar{one, two}, []*secp256k1.Point{z, g})
		}},
		{"MultiScalarMult([1,2,1],[g,g,z])", func(r, z *secp256k1.Point) {
			r.MultiScalarMult([]*secp256k1.Scalar{one, two, one}, []*secp256k1.Point{g, g, z})
		}},
		{"MultiScalarMultVartime([2],[z])", func(r, z *secp256k1.Point) {
			r.MultiScalarMultVartime([]*secp256k1.Scalar{two}, []*secp256k1.Point{z})
		}},
		{"MultiScalarMultVartime([1,2],[g,z])", func(r, z *secp256k1.Point) {
			r.MultiScalarMultVartime([]*secp256k1.Scalar{one, two}, []*secp256k1.Point{g, z})
		}},
		{"MultiScalarMultVartime([1,2],[z,g])", func(r, z *secp256k1.Point) {
			r.MultiScalarMultVartime([]*secp256k1.Scalar{one, two}, []*secp256k1.Point{z, g})
		}},
		{"MultiScalarMultVartime([0,0],[z,g])", func(r, z *secp256k1.Point) {
			r.MultiScalarMultVartime([]*secp256k1.Scalar{secp256k1.NewScalar(), secp256k1.NewScalar()}, []*secp256k1.Point{z, g})
		}},
		{"secec.NewPublicKeyFromPoint(z)", func(r, z *secp256k1.Point) { _, _ = secec.NewPublicKeyFromPoint(z) }},
		{"bitcoin.NewSchnorrPublicKeyFromPoint(z)", func(r, z *secp256k1.Point) { _, _ = bitcoin.NewSchnorrPublicKeyFromPoint(z) }},
	}
	five := secp256k1.NewIdentityPoint().ScalarBaseMult(secp256k1.NewScalarFromUint64(5))
	receivers := []struct {
		name string
		mk   func() *secp256k1.Point
	}{
		{"live point (projective)", func() *secp256k1.Point { return secp256k1.NewPointFrom(five) }},
		{"identity", secp256k1.NewIdentityPoint},
		{"zero value", func() *secp256k1.Point { return new(secp256k1.Point) }},
		{"the uninitialised operand itself", nil},
	}
	n := 0
	for _, c := range calls {
		for _, rc := range receivers {
			z := new(secp256k1.Point)
			r := z
			if rc.mk != nil {
				r = rc.mk()
			}
			before := pointState(r)
			p := lib.Catch(func() { c.f(r, z) })
			if p == nil {
				t.Fatalf("%s with z a zero-value Point (receiver: %s) did not panic", c.name, rc.name)
			}
			if after := pointState(r); after != before {
				t.Fatalf("%s (receiver: %s) panicked but changed its receiver: %s -> %s", c.name, rc.name, before, after)
			}
			if lib.Catch(func() { z.IsIdentity() }) == nil {
				t.Fatalf("%s made the zero-value operand usable", c.name)
			}
			n++
			stat.Case("uninit-enumeration", []string{"receiver:" + rc.name}, true, []byte(c.name+"/"+rc.name), func() any {
				return map[string]any{"call": c.name, "receiver": rc.name, "panic": fmt.Sprint(p)}
			})
		}
	}
	stat.Exhaustive("uninit-enumeration")
	// sanity of the harness itself: the same calls with z a valid point must not panic
	for _, c := range calls {
		r, z := secp256k1.NewIdentityPoint(), secp256k1.NewPointFrom(five)
		if p := lib.Catch(func() { c.f(r, z) }); p != nil {
			t.Fatalf("HARNESS-INCONCLUSIVE: %s panics on a valid operand: %v", c.name, p)
		}
	}
	if !bytes.Equal(five.CompressedBytes(), secp256k1.NewPointFrom(five).CompressedBytes()) {
		t.Fatalf("HARNESS-INCONCLUSIVE")
	}
}
