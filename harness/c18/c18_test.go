// Package c18: no invalid objects via the API; aliasing and caller mutation
// are harmless.
//
// A model-based state machine drives the whole public API over a pool of
// point slots (some left zero-value), scalar slots and key objects, in
// lock-step with a math/big model.  Every action draws its receiver and
// argument slots independently, so every alias pattern occurs; calls with an
// uninitialised operand must panic and change nothing; failed decodes and
// constructors must return nil+error and change nothing; everything handed to
// or obtained from a key is mutated by the "caller" afterwards and the key's
// observable behaviour (encodings, deterministic signatures, shared secrets)
// must keep matching the model.
package c18

import (
	"bytes"
	"crypto"
	"fmt"
	"math/big"
	"testing"

	"pgregory.net/rapid"

	secp256k1 "gitlab.com/yawning/secp256k1-voi"
	"gitlab.com/yawning/secp256k1-voi/secec"
	"gitlab.com/yawning/secp256k1-voi/secec/bitcoin"
	"gitlab.com/yawning/secp256k1-voi/verifharness/gen"
	"gitlab.com/yawning/secp256k1-voi/verifharness/lib"
	"gitlab.com/yawning/secp256k1-voi/verifharness/ref"
	"gitlab.com/yawning/secp256k1-voi/verifharness/stat"
)

func TestMain(m *testing.M) { stat.Main(m) }

const (
	nPts = 6
	nScs = 4
)

var (
	fixedDigest = ref.TaggedHash("verif/c18/digest")
	fixedMsg    = []byte("verif c18 schnorr message")
	fixedAux    = ref.TaggedHash("verif/c18/aux")
	peerD       = big.NewInt(0x5eed5eed)
	peerPt      = ref.BaseMul(peerD)
)

type privEntry struct {
	k       *secec.PrivateKey
	d       *big.Int
	q       ref.Pt
	r, s    *big.Int // RFC 6979 signature of fixedDigest (low-s)
	v       byte
	ecdh    []byte
	created int
}

type pubEntry struct {
	k *secec.PublicKey
	q ref.Pt
}

type sPrivEntry struct {
	k   *bitcoin.SchnorrPrivateKey
	d   *big.Int
	q   ref.Pt
	sig []byte
}

type sPubEntry struct {
	k *bitcoin.SchnorrPublicKey
	x *big.Int
}

// heldBuf is a byte slice the library returned earlier and the caller still
// holds: whatever the library does later, it must keep its content.
type heldBuf struct {
	what     string
	buf, was []byte
}

type machine struct {
	held  []heldBuf
	t     *rapid.T
	pts   [nPts]*secp256k1.Point
	pinit [nPts]bool
	mp    [nPts]ref.Pt
	scs   [nScs]*secp256k1.Scalar
	ms    [nScs]*big.Int
	privs []privEntry
	pubs  []pubEntry
	sprv  []sPrivEntry
	spub  []sPubEntry
	trace []string

	steps, aliased, failedLive, uninitOps, mutations, keyUseAfterMutation int
	rr                                                                    int
}

func (m *machine) log(f string, a ...any) {
	m.steps++
	if len(m.trace) < 60 {
		m.trace = append(m.trace, fmt.Sprintf(f, a...))
	}
}

func (m *machine) fatalf(f string, a ...any) {
	m.t.Fatalf("%s\n  trace: %v", fmt.Sprintf(f, a...), m.trace)
}

func (m *machine) pslot(l string) int { return rapid.IntRange(0, nPts-1).Draw(m.t, l) }
func (m *machine) sslot(l string) int { return rapid.IntRange(0, nScs-1).Draw(m.t, l) }

// pstate renders everything observable about a point slot (raw coordinates
// with hooks, encoding without).
func (m *machine) pstate(i int) string { return pointState(m.pts[i]) }

func scramble(b []byte) {
	for i := range b {
		b[i] ^= 0xa5
	}
}

// pointOp runs a library call that writes point slot r and reads the point
// slots in `operands`; want computes the model result.
func (m *machine) pointOp(name string, r int, operands []int, want func() ref.Pt, do func()) {
	uninit := false
	for _, o := range operands {
		if !m.pinit[o] {
			uninit = true
		}
		if o == r {
			m.aliased++
		}
	}
	for i := 0; i < len(operands); i++ {
		for j := i + 1; j < len(operands); j++ {
			if operands[i] == operands[j] {
				m.aliased++
			}
		}
	}
	if uninit {
		m.uninitOps++
		before := m.pstate(r)
		if lib.Catch(do) == nil {
			m.fatalf("%s with an uninitialised operand did not panic", name)
		}
		if after := m.pstate(r); after != before {
			m.fatalf("%s panicked on an uninitialised operand but changed its receiver: %s -> %s", name, before, after)
		}
		if m.pinit[r] {
			m.failedLive++
		}
		return
	}
	w := want()
	if p := lib.Catch(do); p != nil {
		m.fatalf("%s panicked on valid operands: %v", name, p)
	}
	m.pinit[r], m.mp[r] = true, w
}

// failingPointCall runs a call on receiver r that must fail with (nil, err)
// and leave r untouched.
func (m *machine) failingPointCall(name string, r int, do func() (*secp256k1.Point, error)) {
	before := m.pstate(r)
	var got *secp256k1.Point
	var err error
	if p := lib.Catch(func() { got, err = do() }); p != nil {
		m.fatalf("%s panicked: %v", name, p)
	}
	if err == nil || got != nil {
		m.fatalf("%s: invalid input accepted (point %v, err %v)", name, got != nil, err)
	}
	if after := m.pstate(r); after != before {
		m.fatalf("%s failed but changed its receiver: %s -> %s", name, before, after)
	}
	if m.pinit[r] {
		m.failedLive++
	}
}

// badEncoding returns an invalid SEC 1 string derived from a valid point.
func badEncoding(t *rapid.T, p ref.Pt) ([]byte, string) {
	if p.Inf {
		p = ref.G()
	}
	kind := gen.Sampled([]string{"y+1", "prefix", "truncate", "extend", "x>=p", "nonresidue-x", "empty", "hybrid", "identity-padded", "wrong-parity-len"}).Draw(t, "bad")
	u, c := p.Uncompressed(), p.Compressed()
	switch kind {
	case "y+1":
		y := ref.AddM(p.Y, big.NewInt(1), ref.P)
		return append(append([]byte{4}, ref.B32(p.X)...), ref.B32(y)...), kind
	case "prefix":
		b := append([]byte(nil), u...)
		b[0] = gen.Sampled([]byte{0, 1, 2, 3, 5, 8, 0xff}).Draw(t, "pfx")
		return b, kind
	case "truncate":
		return append([]byte(nil), u[:rapid.IntRange(1, 64).Draw(t, "cut")]...), kind
	case "extend":
		return append(append([]byte(nil), c...), 0), kind
	case "x>=p":
		b := append([]byte{2}, bytes.Repeat([]byte{0xff}, 32)...)
		return b, kind
	case "nonresidue-x":
		x := new(big.Int).Set(p.X)
		for {
			x = ref.AddM(x, big.NewInt(1), ref.P)
			if _, ok := ref.LiftX(x, false); !ok {
				break
			}
		}
		return append([]byte{3}, ref.B32(x)...), kind
	case "empty":
		return []byte{}, kind
	case "hybrid":
		b := append([]byte(nil), u...)
		b[0] = 6 + byte(p.Y.Bit(0))
		return b, kind
	case "identity-padded":
		return make([]byte, 33), kind
	default:
		return append([]byte(nil), c[:32]...), kind
	}
}

func (m *machine) scalarVec(l string) ([]int, []*secp256k1.Scalar, []*big.Int) {
	n := rapid.IntRange(0, 4).Draw(m.t, l+"_n")
	var idx []int
	var ss []*secp256k1.Scalar
	var vs []*big.Int
	for i := 0; i < n; i++ {
		j := m.sslot(fmt.Sprintf("%s_%d", l, i))
		idx = append(idx, j)
		ss = append(ss, m.scs[j])
		vs = append(vs, m.ms[j])
	}
	return idx, ss, vs
}

func newMachine(t *rapid.T) *machine {
	m := &machine{t: t}
	for i := 0; i < nPts; i++ {
		m.pts[i] = new(secp256k1.Point)
	}
	init := []ref.Pt{ref.G(), gen.Point(t, "p1").P, gen.Point(t, "p2").P, ref.Infinity()}
	for i, p := range init {
		m.pts[i], m.pinit[i], m.mp[i] = lib.Pt(p), true, p
	}
	vals := []*big.Int{new(big.Int), big.NewInt(1), gen.Int256(t, ref.N, "s2"), gen.Int256(t, ref.N, "s3")}
	for i, v := range vals {
		m.scs[i], m.ms[i] = lib.Sc(v), v
	}
	return m
}

// ---- key model ----

func (m *machine) addPriv(k *secec.PrivateKey, d *big.Int) {
	if msg := lib.FirstUsePriv(m.t, k, d, "first-use"); msg != "" {
		m.fatalf("%s", msg)
	}
	q := ref.BaseMul(d)
	r, s, id, _ := ref.RFC6979Sign(d, fixedDigest)
	if ls, neg := ref.LowS(s); neg {
		s, id = ls, id^1
	}
	e := privEntry{k: k, d: new(big.Int).Set(d), q: q, r: r, s: s, v: byte(id), ecdh: ref.B32(peerPt.Mul(d).X), created: m.steps}
	if len(m.privs) >= 4 {
		m.privs = m.privs[1:]
	}
	m.privs = append(m.privs, e)
}

func (m *machine) addPub(k *secec.PublicKey, q ref.Pt) {
	if len(m.pubs) >= 4 {
		m.pubs = m.pubs[1:]
	}
	m.pubs = append(m.pubs, pubEntry{k, q})
}

func (m *machine) addSPriv(k *bitcoin.SchnorrPrivateKey, d *big.Int) {
	sig, _ := ref.BIP340Sign(d, fixedAux, fixedMsg)
	if len(m.sprv) >= 3 {
		m.sprv = m.sprv[1:]
	}
	m.sprv = append(m.sprv, sPrivEntry{k, new(big.Int).Set(d), ref.BaseMul(d), sig})
}

func (m *machine) addSPub(k *bitcoin.SchnorrPublicKey, x *big.Int) {
	if len(m.spub) >= 3 {
		m.spub = m.spub[1:]
	}
	m.spub = append(m.spub, sPubEntry{k, new(big.Int).Set(x)})
}

func (m *machine) checkPubKey(what string, k *secec.PublicKey, q ref.Pt) {
	if b := k.Bytes(); !bytes.Equal(b, q.Uncompressed()) {
		m.fatalf("%s: Bytes() = %x, model %x", what, b, q.Uncompressed())
	} else {
		scramble(b)
	}
	if b := k.CompressedBytes(); !bytes.Equal(b, q.Compressed()) {
		m.fatalf("%s: CompressedBytes() = %x, model %x", what, b, q.Compressed())
	} else {
		scramble(b)
	}
	if b := k.Bytes(); !bytes.Equal(b, q.Uncompressed()) {
		m.fatalf("%s: Bytes() changed after the caller modified a returned slice: %x", what, b)
	}
	m.hold("public key ASN1Bytes()", k.ASN1Bytes())
}

func (m *machine) checkPubKeyFull(what string, k *secec.PublicKey, q ref.Pt) {
	m.checkPubKey(what, k, q)
	if b := k.ASN1Bytes(); !bytes.Equal(b, ref.EncodeSPKI(q)) {
		m.fatalf("%s: ASN1Bytes() = %x", what, b)
	} else {
		scramble(b)
	}
	pt := k.Point()
	if b := pt.UncompressedBytes(); !bytes.Equal(b, q.Uncompressed()) {
		m.fatalf("%s: Point() = %x, model %v", what, b, q)
	}
	pt.Double(pt) // caller mutates the returned point
	if b := k.Point().UncompressedBytes(); !bytes.Equal(b, q.Uncompressed()) {
		m.fatalf("%s: Point() changed after the caller modified a returned point: %x", what, b)
	}
	other, err := secec.NewPublicKey(q.Compressed())
	if err != nil || !k.Equal(other) || !other.Equal(k) {
		m.fatalf("%s: not Equal to a fresh import of the model key", what)
	}
}

func (m *machine) checkPrivFull(i int) {
	e := m.privs[i]
	what := fmt.Sprintf("ECDSA private key #%d (d=%x)", i, e.d)
	if b := e.k.Bytes(); !bytes.Equal(b, ref.B32(e.d)) {
		m.fatalf("%s: Bytes() = %x", what, b)
	} else {
		scramble(b)
	}
	sc := e.k.Scalar()
	if !bytes.Equal(sc.Bytes(), ref.B32(e.d)) {
		m.fatalf("%s: Scalar() = %x", what, sc.Bytes())
	}
	sc.Add(sc, sc) // caller mutates the returned scalar
	if b := e.k.Bytes(); !bytes.Equal(b, ref.B32(e.d)) {
		m.fatalf("%s: key changed after the caller modified a returned scalar/slice: %x", what, b)
	}
	m.checkPubKeyFull(what+" public half", e.k.PublicKey(), e.q)
	r, s, v, err := e.k.SignRaw(secec.RFC6979SHA256(), fixedDigest)
	if err != nil || lib.ScInt(r).Cmp(e.r) != 0 || lib.ScInt(s).Cmp(e.s) != 0 || v != e.v {
		m.fatalf("%s: deterministic signature differs from the model: got (%x,%x,%d,%v) want (%x,%x,%d)", what, r.Bytes(), s.Bytes(), v, err, e.r, e.s, e.v)
	}
	if !e.k.PublicKey().VerifyRaw(fixedDigest, r, s) {
		m.fatalf("%s: own signature does not verify", what)
	}
	sec, err := e.k.ECDH(lib.PubKey(peerPt))
	if err != nil || !bytes.Equal(sec, e.ecdh) {
		m.fatalf("%s: ECDH = %x (%v), model %x", what, sec, err, e.ecdh)
	}
	if e.created < m.steps {
		m.keyUseAfterMutation++
	}
}

func (m *machine) checkSPrivFull(i int) {
	e := m.sprv[i]
	what := fmt.Sprintf("Schnorr private key #%d (d'=%x)", i, e.d)
	// Bytes()/Scalar() export a private scalar of this key pair (d' or its y-normalised negation: the
	// property does not fix which): +-d', and stable under caller mutation
	okScalar := func(b []byte) bool {
		v := ref.Int(b)
		return len(b) == 32 && (v.Cmp(e.d) == 0 || v.Cmp(ref.NegM(e.d, ref.N)) == 0)
	}
	b := e.k.Bytes()
	if !okScalar(b) {
		m.fatalf("%s: Bytes() = %x is not a private scalar of this key pair", what, b)
	}
	keep := append([]byte(nil), b...)
	scramble(b)
	if again := e.k.Bytes(); !bytes.Equal(again, keep) {
		m.fatalf("%s: Bytes() changed after the caller modified a returned slice: %x", what, again)
	}
	sc := e.k.Scalar()
	if !okScalar(sc.Bytes()) {
		m.fatalf("%s: Scalar() = %x is not a private scalar of this key pair", what, sc.Bytes())
	}
	sc.Negate(sc)
	sc.Add(sc, sc)
	pk := e.k.PublicKey()
	if b := pk.Bytes(); !bytes.Equal(b, ref.B32(e.q.X)) {
		m.fatalf("%s: public key bytes %x, model %x", what, b, e.q.X)
	} else {
		scramble(b)
	}
	sig, err := e.k.Sign(bytes.NewReader(fixedAux), fixedMsg, nil)
	if err != nil || !bytes.Equal(sig, e.sig) {
		m.fatalf("%s: signature differs from the model after caller-side mutations: %x (%v) want %x", what, sig, err, e.sig)
	}
	if !pk.Verify(fixedMsg, sig) {
		m.fatalf("%s: own signature does not verify", what)
	}
	m.keyUseAfterMutation++
}

func (m *machine) checkSPub(i int) {
	e := m.spub[i]
	what := fmt.Sprintf("Schnorr public key #%d (x=%x)", i, e.x)
	if b := e.k.Bytes(); !bytes.Equal(b, ref.B32(e.x)) {
		m.fatalf("%s: Bytes() = %x", what, b)
	} else {
		scramble(b)
	}
	want, _ := ref.LiftXEven(e.x)
	pt := e.k.Point()
	if b := pt.UncompressedBytes(); !bytes.Equal(b, want.Uncompressed()) {
		m.fatalf("%s: Point() = %x, model %v", what, b, want)
	}
	pt.Negate(pt)
	if b := e.k.Point().UncompressedBytes(); !bytes.Equal(b, want.Uncompressed()) {
		m.fatalf("%s: Point() changed after the caller modified a returned point", what)
	}
	if b := e.k.Bytes(); !bytes.Equal(b, ref.B32(e.x)) {
		m.fatalf("%s: Bytes() changed after the caller modified a returned slice", what)
	}
}

// invariant runs after every step.
// hold keeps a returned slice (up to 6 of them; the oldest is scribbled on and
// dropped) so that the invariant can see a later call writing into it.
func (m *machine) hold(what string, b []byte) {
	if len(m.held) >= 6 {
		scramble(m.held[0].buf)
		m.held = m.held[1:]
	}
	m.held = append(m.held, heldBuf{what, b, append([]byte(nil), b...)})
}

func (m *machine) invariant() {
	for _, h := range m.held {
		if !bytes.Equal(h.buf, h.was) {
			m.fatalf("a %s the library returned earlier (%x) was overwritten by a later call: now %x", h.what, h.was, h.buf)
		}
	}
	for i := 0; i < nPts; i++ {
		if !m.pinit[i] {
			if lib.Catch(func() { m.pts[i].IsIdentity() }) == nil {
				m.fatalf("point slot %d should still be uninitialised but is usable", i)
			}
			continue
		}
		u := m.pts[i].UncompressedBytes()
		if !bytes.Equal(u, m.mp[i].Uncompressed()) {
			m.fatalf("point slot %d = %x, model %v", i, u, m.mp[i])
		}
		if c := m.pts[i].CompressedBytes(); !bytes.Equal(c, m.mp[i].Compressed()) {
			m.fatalf("point slot %d compressed = %x, model %v", i, c, m.mp[i])
		}
		if msg := pointInvalid(m.pts[i]); msg != "" {
			m.fatalf("point slot %d is not a valid object: %s", i, msg)
		}
		if i == nPts-1 {
			m.hold("point UncompressedBytes()", u)
		} else {
			scramble(u)
		}
	}
	for i := 0; i < nScs; i++ {
		b := m.scs[i].Bytes()
		if !bytes.Equal(b, ref.B32(m.ms[i])) {
			m.fatalf("scalar slot %d = %x, model %x", i, b, m.ms[i])
		}
		scramble(b)
		var wz uint64
		if m.ms[i].Sign() == 0 {
			wz = 1
		}
		if m.scs[i].IsZero() != wz {
			m.fatalf("scalar slot %d: IsZero disagrees with model %x", i, m.ms[i])
		}
	}
	for i, e := range m.privs {
		if b := e.k.Bytes(); !bytes.Equal(b, ref.B32(e.d)) {
			m.fatalf("ECDSA private key #%d: Bytes() = %x, model %x", i, b, e.d)
		}
		m.checkPubKey(fmt.Sprintf("ECDSA private key #%d public half", i), e.k.PublicKey(), e.q)
	}
	for i, e := range m.pubs {
		m.checkPubKey(fmt.Sprintf("ECDSA public key #%d", i), e.k, e.q)
	}
	for i, e := range m.sprv {
		if v := ref.Int(e.k.Bytes()); v.Cmp(e.d) != 0 && v.Cmp(ref.NegM(e.d, ref.N)) != 0 {
			m.fatalf("Schnorr private key #%d: Bytes() = %x, model +-%x", i, v, e.d)
		}
	}
	// one full fingerprint per step, round robin over all key objects
	total := len(m.privs) + len(m.pubs) + len(m.sprv) + len(m.spub)
	if total > 0 {
		j := m.rr % total
		m.rr++
		switch {
		case j < len(m.privs):
			m.checkPrivFull(j)
		case j < len(m.privs)+len(m.pubs):
			e := m.pubs[j-len(m.privs)]
			m.checkPubKeyFull(fmt.Sprintf("ECDSA public key #%d", j-len(m.privs)), e.k, e.q)
		case j < len(m.privs)+len(m.pubs)+len(m.sprv):
			m.checkSPrivFull(j - len(m.privs) - len(m.pubs))
		default:
			m.checkSPub(j - len(m.privs) - len(m.pubs) - len(m.sprv))
		}
	}
}

func (m *machine) finalCheck() {
	for i := range m.privs {
		m.checkPrivFull(i)
	}
	for i, e := range m.pubs {
		m.checkPubKeyFull(fmt.Sprintf("ECDSA public key #%d", i), e.k, e.q)
	}
	for i := range m.sprv {
		m.checkSPrivFull(i)
	}
	for i := range m.spub {
		m.checkSPub(i)
	}
}

func propMachine(t *rapid.T) {
	m := newMachine(t)
	actions := map[string]func(*rapid.T){
		// ---------------- point arithmetic ----------------
		"add": func(t *rapid.T) {
			r, a, b := m.pslot("r"), m.pslot("a"), m.pslot("b")
			m.log("add r%d a%d b%d", r, a, b)
			m.pointOp("Add", r, []int{a, b}, func() ref.Pt { return m.mp[a].Add(m.mp[b]) }, func() { m.pts[r].Add(m.pts[a], m.pts[b]) })
		},
		"sub": func(t *rapid.T) {
			r, a, b := m.pslot("r"), m.pslot("a"), m.pslot("b")
			m.log("sub r%d a%d b%d", r, a, b)
			m.pointOp("Subtract", r, []int{a, b}, func() ref.Pt { return m.mp[a].Sub(m.mp[b]) }, func() { m.pts[r].Subtract(m.pts[a], m.pts[b]) })
		},
		"double": func(t *rapid.T) {
			r, a := m.pslot("r"), m.pslot("a")
			m.log("double r%d a%d", r, a)
			m.pointOp("Double", r, []int{a}, func() ref.Pt { return m.mp[a].Double() }, func() { m.pts[r].Double(m.pts[a]) })
		},
		"neg": func(t *rapid.T) {
			r, a := m.pslot("r"), m.pslot("a")
			m.log("neg r%d a%d", r, a)
			m.pointOp("Negate", r, []int{a}, func() ref.Pt { return m.mp[a].Neg() }, func() { m.pts[r].Negate(m.pts[a]) })
		},
		"condneg": func(t *rapid.T) {
			r, a := m.pslot("r"), m.pslot("a")
			ctrl := gen.Ctrl(t, "ctrl")
			m.log("condneg r%d a%d ctrl=%x", r, a, ctrl)
			m.pointOp("ConditionalNegate", r, []int{a}, func() ref.Pt {
				if ctrl != 0 {
					return m.mp[a].Neg()
				}
				return m.mp[a]
			}, func() { m.pts[r].ConditionalNegate(m.pts[a], ctrl) })
		},
		"condsel": func(t *rapid.T) {
			r, a, b := m.pslot("r"), m.pslot("a"), m.pslot("b")
			ctrl := gen.Ctrl(t, "ctrl")
			m.log("condsel r%d a%d b%d ctrl=%x", r, a, b, ctrl)
			m.pointOp("ConditionalSelect", r, []int{a, b}, func() ref.Pt {
				if ctrl != 0 {
					return m.mp[b]
				}
				return m.mp[a]
			}, func() { m.pts[r].ConditionalSelect(m.pts[a], m.pts[b], ctrl) })
		},
		"set": func(t *rapid.T) {
			r, a := m.pslot("r"), m.pslot("a")
			m.log("set r%d a%d", r, a)
			m.pointOp("Set", r, []int{a}, func() ref.Pt { return m.mp[a] }, func() { m.pts[r].Set(m.pts[a]) })
		},
		"newfrom": func(t *rapid.T) {
			r, a := m.pslot("r"), m.pslot("a")
			m.log("newfrom r%d a%d", r, a)
			if !m.pinit[a] {
				m.uninitOps++
				if lib.Catch(func() { secp256k1.NewPointFrom(m.pts[a]) }) == nil {
					m.fatalf("NewPointFrom(uninitialised) did not panic")
				}
				return
			}
			m.pts[r], m.pinit[r], m.mp[r] = secp256k1.NewPointFrom(m.pts[a]), true, m.mp[a]
		},
		"assign-by-value": func(t *rapid.T) {
			// plain Go struct assignment (`*dst = *src`, what `var p Point; p = *q` does): the types carry no
			// noCopy marker and hold their coordinates by value, so the copy must be an independent object --
			// nothing reachable from it may be shared with the source
			if rapid.Bool().Draw(t, "scalar") {
				r, a := m.sslot("r"), m.sslot("a")
				m.log("assign-by-value scalar r%d = *a%d", r, a)
				fresh := new(secp256k1.Scalar)
				*fresh = *m.scs[a]
				m.scs[r], m.ms[r] = fresh, new(big.Int).Set(m.ms[a])
				return
			}
			r, a := m.pslot("r"), m.pslot("a")
			m.log("assign-by-value point r%d = *a%d", r, a)
			fresh := new(secp256k1.Point)
			*fresh = *m.pts[a]
			m.pts[r], m.pinit[r], m.mp[r] = fresh, m.pinit[a], m.mp[a]
		},
		"retire-private": func(t *rapid.T) {
			// the caller is done with a private key object but keeps what it handed out (its public key, its
			// scalar, its point); the object becomes unreachable and a garbage collection runs, finalizers
			// included.  What was handed out must be values of their own.
			if rapid.Bool().Draw(t, "schnorr") {
				if len(m.sprv) == 0 {
					t.Skip("no schnorr key yet")
				}
				i := rapid.IntRange(0, len(m.sprv)-1).Draw(t, "key")
				e := m.sprv[i]
				m.log("retire-private schnorr key%d", i)
				m.addSPub(e.k.PublicKey(), e.q.X)
				m.sprv = append(m.sprv[:i:i], m.sprv[i+1:]...)
			} else {
				if len(m.privs) == 0 {
					t.Skip("no private key yet")
				}
				i := rapid.IntRange(0, len(m.privs)-1).Draw(t, "key")
				e := m.privs[i]
				r, pr := m.sslot("r"), m.pslot("pr")
				m.log("retire-private key%d (public key kept, scalar -> r%d, point -> r%d)", i, r, pr)
				m.addPub(e.k.PublicKey(), e.q)
				m.scs[r], m.ms[r] = e.k.Scalar(), new(big.Int).Set(e.d)
				m.pts[pr], m.pinit[pr], m.mp[pr] = e.k.PublicKey().Point(), true, e.q
				m.privs = append(m.privs[:i:i], m.privs[i+1:]...)
			}
			gen.CollectNow()
		},
		"identity-generator": func(t *rapid.T) {
			r := m.pslot("r")
			if rapid.Bool().Draw(t, "gen") {
				m.log("generator r%d", r)
				m.pts[r].Generator()
				m.pinit[r], m.mp[r] = true, ref.G()
			} else {
				m.log("identity r%d", r)
				m.pts[r].Identity()
				m.pinit[r], m.mp[r] = true, ref.Infinity()
			}
		},
		"forget": func(t *rapid.T) { // replace a slot by a fresh zero-value point
			r := m.pslot("r")
			m.log("forget r%d", r)
			m.pts[r], m.pinit[r] = new(secp256k1.Point), false
		},
		// ---------------- multiplications ----------------
		"scalarmult": func(t *rapid.T) {
			r, a, s := m.pslot("r"), m.pslot("a"), m.sslot("s")
			m.log("scalarmult r%d s%d a%d", r, s, a)
			m.pointOp("ScalarMult", r, []int{a}, func() ref.Pt { return m.mp[a].Mul(m.ms[s]) }, func() { m.pts[r].ScalarMult(m.scs[s], m.pts[a]) })
		},
		"basemult": func(t *rapid.T) {
			r, s := m.pslot("r"), m.sslot("s")
			m.log("basemult r%d s%d", r, s)
			m.pointOp("ScalarBaseMult", r, nil, func() ref.Pt { return ref.BaseMul(m.ms[s]) }, func() { m.pts[r].ScalarBaseMult(m.scs[s]) })
		},
		"doublemult": func(t *rapid.T) {
			r, a, s1, s2 := m.pslot("r"), m.pslot("a"), m.sslot("s1"), m.sslot("s2")
			m.log("doublemult r%d s%d s%d a%d", r, s1, s2, a)
			m.pointOp("DoubleScalarMultBasepointVartime", r, []int{a}, func() ref.Pt { return ref.BaseMul(m.ms[s1]).Add(m.mp[a].Mul(m.ms[s2])) },
				func() { m.pts[r].DoubleScalarMultBasepointVartime(m.scs[s1], m.scs[s2], m.pts[a]) })
		},
		"multimult": func(t *rapid.T) {
			r := m.pslot("r")
			n := rapid.IntRange(0, 3).Draw(t, "n")
			if rapid.IntRange(0, 11).Draw(t, "long") == 0 {
				// long lists take other code paths (batching, bucket methods) where the operands may be read in
				// place; the list is made of the machine's few objects, so the receiver is in it many times over
				n = gen.Sampled([]int{16, 64, 129, 256, 257, 512, 513, 1024, 2048, 4096}).Draw(t, "longn")
			}
			vartime := rapid.Bool().Draw(t, "vartime")
			var ps, ss []int
			for i := 0; i < n; i++ {
				ps = append(ps, m.pslot(fmt.Sprintf("p%d", i)))
				ss = append(ss, m.sslot(fmt.Sprintf("s%d", i)))
			}
			mismatch := rapid.IntRange(0, 9).Draw(t, "mismatch") == 0
			if n > 8 {
				m.log("multimult(vartime=%v) r%d %d terms (points %v... scalars %v...) mismatch=%v", vartime, r, n, ps[:8], ss[:8], mismatch)
			} else {
				m.log("multimult(vartime=%v) r%d points%v scalars%v mismatch=%v", vartime, r, ps, ss, mismatch)
			}
			var lp []*secp256k1.Point
			var ls []*secp256k1.Scalar
			for i := range ps {
				lp, ls = append(lp, m.pts[ps[i]]), append(ls, m.scs[ss[i]])
			}
			call := func() {
				if vartime {
					m.pts[r].MultiScalarMultVartime(ls, lp)
				} else {
					m.pts[r].MultiScalarMult(ls, lp)
				}
			}
			if mismatch {
				ls = append(ls, m.scs[0])
				before := m.pstate(r)
				if lib.Catch(call) == nil {
					m.fatalf("MultiScalarMult with %d scalars and %d points did not panic", len(ls), len(lp))
				}
				if after := m.pstate(r); after != before {
					// no property says what a refused call leaves in its receiver, only that whatever is
					// usable afterwards is a valid point: resynchronise the model from the library
					var enc []byte
					if lib.Catch(func() { enc = m.pts[r].UncompressedBytes() }) != nil {
						m.pinit[r] = false
					} else if w, ok := ref.DecodePoint(enc); ok {
						m.pinit[r], m.mp[r] = true, w
					} else {
						m.fatalf("MultiScalarMult refused mismatched lengths but left an invalid object in its receiver: %s -> %s", before, after)
					}
				}
				if m.pinit[r] {
					m.failedLive++
				}
				return
			}
			m.pointOp("MultiScalarMult", r, ps, func() ref.Pt {
				// sum the coefficients per point slot first: a long list costs one reference multiplication per slot
				coef := map[int]*big.Int{}
				for i := range ps {
					if coef[ps[i]] == nil {
						coef[ps[i]] = new(big.Int)
					}
					coef[ps[i]].Add(coef[ps[i]], m.ms[ss[i]])
				}
				acc := ref.Infinity()
				for slot := 0; slot < len(m.mp); slot++ {
					if c := coef[slot]; c != nil {
						acc = acc.Add(m.mp[slot].Mul(ref.Mod(c, ref.N)))
					}
				}
				return acc
			}, call)
		},
		"uniform": func(t *rapid.T) {
			r := m.pslot("r")
			n := rapid.IntRange(32, 64).Draw(t, "len")
			src := gen.Bytes(t, n, n, "src")
			m.log("uniform r%d %x", r, src)
			keep := append([]byte(nil), src...)
			m.pointOp("SetUniformBytes", r, nil, func() ref.Pt { return ref.MapToCurve(ref.Mod(ref.Int(keep), ref.P)) }, func() { m.pts[r].SetUniformBytes(src) })
			scramble(src)
		},
		// ---------------- decoding onto receivers ----------------
		"decode-valid": func(t *rapid.T) {
			r := m.pslot("r")
			p := gen.Point(t, "P").P
			how := gen.Sampled([]string{"SetBytes/compressed", "SetBytes/uncompressed", "SetCompressedBytes", "SetUncompressedBytes", "NewPointFromBytes", "NewPointFromCoords"}).Draw(t, "how")
			m.log("decode-valid r%d %s %v", r, how, p)
			var got *secp256k1.Point
			var err error
			var src []byte
			switch how {
			case "SetBytes/compressed":
				src = p.Compressed()
				got, err = m.pts[r].SetBytes(src)
			case "SetBytes/uncompressed":
				src = p.Uncompressed()
				got, err = m.pts[r].SetBytes(src)
			case "SetCompressedBytes":
				if p.Inf {
					p = ref.G()
				}
				src = p.Compressed()
				got, err = m.pts[r].SetCompressedBytes(src)
			case "SetUncompressedBytes":
				if p.Inf {
					p = ref.G()
				}
				src = p.Uncompressed()
				got, err = m.pts[r].SetUncompressedBytes(src)
			case "NewPointFromBytes":
				src = p.Compressed()
				got, err = secp256k1.NewPointFromBytes(src)
				if got != nil {
					m.pts[r] = got
				}
			default:
				if p.Inf {
					p = ref.G()
				}
				xb, yb := ref.B32(p.X), ref.B32(p.Y)
				got, err = secp256k1.NewPointFromCoords((*[32]byte)(xb), (*[32]byte)(yb))
				if got != nil {
					m.pts[r] = got
				}
				scramble(xb)
				scramble(yb)
			}
			if err != nil || got != m.pts[r] {
				m.fatalf("%s rejected a valid encoding of %v: %v", how, p, err)
			}
			scramble(src)
			m.pinit[r], m.mp[r] = true, p
		},
		"decode-invalid": func(t *rapid.T) {
			r := m.pslot("r")
			bad, kind := badEncoding(t, gen.Point(t, "P").P)
			how := gen.Sampled([]string{"SetBytes", "SetCompressedBytes", "SetUncompressedBytes"}).Draw(t, "how")
			m.log("decode-invalid r%d %s %s %x", r, how, kind, bad)
			m.failingPointCall(how+"("+kind+")", r, func() (*secp256k1.Point, error) {
				switch how {
				case "SetBytes":
					return m.pts[r].SetBytes(bad)
				case "SetCompressedBytes":
					return m.pts[r].SetCompressedBytes(bad)
				}
				return m.pts[r].SetUncompressedBytes(bad)
			})
			if p, err := secp256k1.NewPointFromBytes(bad); p != nil || err == nil {
				m.fatalf("NewPointFromBytes(%x) returned an object for an invalid encoding", bad)
			}
		},
		"recoverpoint": func(t *rapid.T) {
			r, s := m.pslot("r"), m.sslot("s")
			id := byte(rapid.IntRange(0, 5).Draw(t, "id"))
			m.log("recoverpoint r%d s%d id%d", r, s, id)
			got, err := secp256k1.RecoverPoint(m.scs[s], id)
			x := new(big.Int).Set(m.ms[s])
			if id&2 != 0 {
				x.Add(x, ref.N)
			}
			want, ok := ref.LiftX(x, id&1 == 1)
			ok = ok && id < 4 && x.Cmp(ref.P) < 0
			if ok != (err == nil) || (err != nil && got != nil) {
				m.fatalf("RecoverPoint(%x,%d): err=%v, model ok=%v", m.ms[s], id, err, ok)
			}
			if ok {
				m.pts[r], m.pinit[r], m.mp[r] = got, true, want
			}
		},
		// ---------------- point observers ----------------
		"observe": func(t *rapid.T) {
			a, b := m.pslot("a"), m.pslot("b")
			m.log("observe a%d b%d", a, b)
			if !m.pinit[a] || !m.pinit[b] {
				m.uninitOps++
				for name, f := range map[string]func(){
					"Equal": func() { m.pts[a].Equal(m.pts[b]) }, "Equal'": func() { m.pts[b].Equal(m.pts[a]) },
				} {
					if lib.Catch(f) == nil {
						m.fatalf("%s with an uninitialised operand did not panic", name)
					}
				}
				u := a
				if m.pinit[a] {
					u = b
				}
				for name, f := range map[string]func(){
					"IsIdentity": func() { m.pts[u].IsIdentity() }, "IsYOdd": func() { m.pts[u].IsYOdd() },
					"CompressedBytes": func() { m.pts[u].CompressedBytes() }, "UncompressedBytes": func() { m.pts[u].UncompressedBytes() },
					"XBytes": func() { _, _ = m.pts[u].XBytes() },
				} {
					if lib.Catch(f) == nil {
						m.fatalf("%s on an uninitialised point did not panic", name)
					}
				}
				return
			}
			var we uint64
			if m.mp[a].Eq(m.mp[b]) {
				we = 1
			}
			if m.pts[a].Equal(m.pts[b]) != we {
				m.fatalf("Equal(slot %d, slot %d) != %d", a, b, we)
			}
			xb, err := m.pts[a].XBytes()
			if m.mp[a].Inf {
				if err == nil || xb != nil {
					m.fatalf("XBytes of the identity returned %x, %v", xb, err)
				}
			} else {
				if err != nil || !bytes.Equal(xb, ref.B32(m.mp[a].X)) {
					m.fatalf("XBytes(slot %d) = %x, %v", a, xb, err)
				}
				scramble(xb)
				if m.pts[a].IsYOdd() != uint64(m.mp[a].Y.Bit(0)) {
					m.fatalf("IsYOdd(slot %d) wrong", a)
				}
			}
		},
		// ---------------- scalars ----------------
		"scalar-binop": func(t *rapid.T) {
			r, a, b := m.sslot("r"), m.sslot("a"), m.sslot("b")
			op := gen.Sampled([]string{"add", "sub", "mul"}).Draw(t, "op")
			m.log("scalar %s r%d a%d b%d", op, r, a, b)
			if r == a || r == b || a == b {
				m.aliased++
			}
			var w *big.Int
			switch op {
			case "add":
				w = ref.AddM(m.ms[a], m.ms[b], ref.N)
				m.scs[r].Add(m.scs[a], m.scs[b])
			case "sub":
				w = ref.SubM(m.ms[a], m.ms[b], ref.N)
				m.scs[r].Subtract(m.scs[a], m.scs[b])
			default:
				w = ref.MulM(m.ms[a], m.ms[b], ref.N)
				m.scs[r].Multiply(m.scs[a], m.scs[b])
			}
			m.ms[r] = w
		},
		"scalar-unop": func(t *rapid.T) {
			r, a := m.sslot("r"), m.sslot("a")
			op := gen.Sampled([]string{"neg", "square", "invert", "set", "condneg", "newfrom"}).Draw(t, "op")
			ctrl := gen.Ctrl(t, "ctrl")
			m.log("scalar %s r%d a%d ctrl=%x", op, r, a, ctrl)
			if r == a {
				m.aliased++
			}
			var w *big.Int
			switch op {
			case "neg":
				w = ref.NegM(m.ms[a], ref.N)
				m.scs[r].Negate(m.scs[a])
			case "square":
				w = ref.MulM(m.ms[a], m.ms[a], ref.N)
				m.scs[r].Square(m.scs[a])
			case "invert":
				w = ref.Inv0(m.ms[a], ref.N)
				m.scs[r].Invert(m.scs[a])
			case "set":
				w = m.ms[a]
				m.scs[r].Set(m.scs[a])
			case "newfrom":
				w = m.ms[a]
				m.scs[r] = secp256k1.NewScalarFrom(m.scs[a])
			default:
				w = m.ms[a]
				if ctrl != 0 {
					w = ref.NegM(w, ref.N)
				}
				m.scs[r].ConditionalNegate(m.scs[a], ctrl)
			}
			m.ms[r] = new(big.Int).Set(w)
		},
		"scalar-condsel": func(t *rapid.T) {
			r, a, b := m.sslot("r"), m.sslot("a"), m.sslot("b")
			ctrl := gen.Ctrl(t, "ctrl")
			m.log("scalar condsel r%d a%d b%d ctrl=%x", r, a, b, ctrl)
			if r == a || r == b || a == b {
				m.aliased++
			}
			w := m.ms[a]
			if ctrl != 0 {
				w = m.ms[b]
			}
			m.scs[r].ConditionalSelect(m.scs[a], m.scs[b], ctrl)
			m.ms[r] = new(big.Int).Set(w)
		},
		"scalar-sumprod": func(t *rapid.T) {
			r := m.sslot("r")
			idx, ss, vs := m.scalarVec("vec")
			prod := rapid.Bool().Draw(t, "product")
			m.log("scalar sum/product(%v) r%d vec%v", prod, r, idx)
			for _, i := range idx {
				if i == r {
					m.aliased++
				}
			}
			w := new(big.Int)
			if prod {
				w.SetInt64(1)
			}
			for _, v := range vs {
				if prod {
					w = ref.MulM(w, v, ref.N)
				} else {
					w = ref.AddM(w, v, ref.N)
				}
			}
			if prod {
				m.scs[r].Product(ss...)
			} else {
				m.scs[r].Sum(ss...)
			}
			m.ms[r] = w
		},
		"scalar-decode": func(t *rapid.T) {
			r := m.sslot("r")
			src := gen.Bytes32Any(t, ref.N, "src")
			v := ref.Int(src)
			canonical := rapid.Bool().Draw(t, "canonical")
			m.log("scalar decode(canonical=%v) r%d %x", canonical, r, src)
			inRange := v.Cmp(ref.N) < 0
			if canonical {
				before := append([]byte(nil), m.scs[r].Bytes()...)
				got, err := m.scs[r].SetCanonicalBytes((*[32]byte)(src))
				if inRange {
					if err != nil || got != m.scs[r] {
						m.fatalf("SetCanonicalBytes(%x) rejected a canonical value", src)
					}
					m.ms[r] = v
				} else {
					if err == nil || got != nil {
						m.fatalf("SetCanonicalBytes(%x) accepted an out-of-range value", src)
					}
					if !bytes.Equal(m.scs[r].Bytes(), before) {
						m.fatalf("SetCanonicalBytes(%x) failed but changed its receiver", src)
					}
					if n, err := secp256k1.NewScalarFromCanonicalBytes((*[32]byte)(src)); n != nil || err == nil {
						m.fatalf("NewScalarFromCanonicalBytes(%x) returned an object for an out-of-range value", src)
					}
					m.failedLive++
				}
			} else {
				_, flag := m.scs[r].SetBytes((*[32]byte)(src))
				if (flag != 0) == inRange {
					m.fatalf("SetBytes(%x): reduction flag %d", src, flag)
				}
				m.ms[r] = ref.Mod(v, ref.N)
			}
			scramble(src)
		},
		// ---------------- keys ----------------
		"newpriv-bytes": func(t *rapid.T) {
			kind := gen.Sampled([]string{"valid", "valid", "valid", "zero", "n", "n+1", "max", "short", "long"}).Draw(t, "kind")
			d := gen.NonZero256(t, ref.N, "d")
			var raw []byte
			switch kind {
			case "valid":
				raw = ref.B32(d)
			case "zero":
				raw = make([]byte, 32)
			case "n":
				raw = ref.B32(ref.N)
			case "n+1":
				raw = ref.B32(new(big.Int).Add(ref.N, big.NewInt(1)))
			case "max":
				raw = bytes.Repeat([]byte{0xff}, 32)
			case "short":
				raw = ref.B32(d)[1:]
			default:
				raw = append(ref.B32(d), 0)
			}
			schnorr := rapid.Bool().Draw(t, "schnorr")
			m.log("newpriv-bytes(schnorr=%v) %s %x", schnorr, kind, raw)
			if schnorr {
				k, err := bitcoin.NewSchnorrPrivateKey(raw)
				if (kind == "valid") != (err == nil) || (err != nil && k != nil) {
					m.fatalf("NewSchnorrPrivateKey(%x): err=%v", raw, err)
				}
				scramble(raw)
				m.mutations++
				if err == nil {
					m.addSPriv(k, d)
				}
				return
			}
			k, err := secec.NewPrivateKey(raw)
			if (kind == "valid") != (err == nil) || (err != nil && k != nil) {
				m.fatalf("NewPrivateKey(%x): err=%v", raw, err)
			}
			scramble(raw)
			m.mutations++
			if err == nil {
				m.addPriv(k, d)
			}
		},
		"newpriv-scalar": func(t *rapid.T) {
			s := m.sslot("s")
			m.log("newpriv-scalar s%d (=%x)", s, m.ms[s])
			k, err := secec.NewPrivateKeyFromScalar(m.scs[s])
			if (m.ms[s].Sign() != 0) != (err == nil) || (err != nil && k != nil) {
				m.fatalf("NewPrivateKeyFromScalar(%x): err=%v", m.ms[s], err)
			}
			if err == nil {
				m.addPriv(k, m.ms[s])
				// the caller keeps using (and changing) its scalar
				m.scs[s].Add(m.scs[s], m.scs[1])
				m.ms[s] = ref.AddM(m.ms[s], m.ms[1], ref.N)
				if s == 1 {
					m.aliased++
				}
				m.mutations++
			}
		},
		"priv-out": func(t *rapid.T) {
			if len(m.privs) == 0 {
				t.Skip("no private key yet")
			}
			i := rapid.IntRange(0, len(m.privs)-1).Draw(t, "key")
			e := m.privs[i]
			r, pr := m.sslot("r"), m.pslot("pr")
			m.log("priv-out key%d -> scalar r%d, point r%d", i, r, pr)
			m.scs[r], m.ms[r] = e.k.Scalar(), new(big.Int).Set(e.d)
			m.pts[pr], m.pinit[pr], m.mp[pr] = e.k.PublicKey().Point(), true, e.q
			if pk, ok := e.k.Public().(*secec.PublicKey); !ok || !pk.Equal(e.k.PublicKey()) {
				m.fatalf("Public() does not return the public key")
			}
			m.mutations++
		},
		"schnorr-from-ecdsa": func(t *rapid.T) {
			if len(m.privs) == 0 {
				t.Skip("no private key yet")
			}
			i := rapid.IntRange(0, len(m.privs)-1).Draw(t, "key")
			m.log("schnorr-from-ecdsa key%d", i)
			e := m.privs[i]
			m.addSPriv(bitcoin.NewSchnorrPrivateKeyFromECDSA(e.k), e.d)
			m.addSPub(bitcoin.NewSchnorrPublicKeyFromECDSA(e.k.PublicKey()), e.q.X)
		},
		"schnorr-out": func(t *rapid.T) {
			if len(m.sprv) == 0 {
				t.Skip("no schnorr key yet")
			}
			i := rapid.IntRange(0, len(m.sprv)-1).Draw(t, "key")
			e := m.sprv[i]
			r, pr := m.sslot("r"), m.pslot("pr")
			m.log("schnorr-out key%d -> scalar r%d, point r%d", i, r, pr)
			m.scs[r] = e.k.Scalar()
			m.ms[r] = lib.ScInt(m.scs[r]) // +-d' (checked by the key's fingerprint)
			if m.ms[r].Cmp(e.d) != 0 && m.ms[r].Cmp(ref.NegM(e.d, ref.N)) != 0 {
				m.fatalf("Schnorr Scalar() = %x is not a private scalar of the key pair (d'=%x)", m.ms[r], e.d)
			}
			even, _ := ref.LiftXEven(e.q.X)
			m.pts[pr], m.pinit[pr], m.mp[pr] = e.k.PublicKey().Point(), true, even
			m.mutations++
		},
		"newpub-point": func(t *rapid.T) {
			a := m.pslot("a")
			schnorr := rapid.Bool().Draw(t, "schnorr")
			m.log("newpub-point(schnorr=%v) a%d", schnorr, a)
			if !m.pinit[a] {
				m.uninitOps++
				var f func()
				if schnorr {
					f = func() { _, _ = bitcoin.NewSchnorrPublicKeyFromPoint(m.pts[a]) }
				} else {
					f = func() { _, _ = secec.NewPublicKeyFromPoint(m.pts[a]) }
				}
				if lib.Catch(f) == nil {
					m.fatalf("public key constructor accepted an uninitialised point")
				}
				return
			}
			if schnorr {
				k, err := bitcoin.NewSchnorrPublicKeyFromPoint(m.pts[a])
				if m.mp[a].Inf != (err != nil) || (err != nil && k != nil) {
					m.fatalf("NewSchnorrPublicKeyFromPoint(%v): err=%v", m.mp[a], err)
				}
				if err == nil {
					m.addSPub(k, m.mp[a].X)
				}
			} else {
				k, err := secec.NewPublicKeyFromPoint(m.pts[a])
				if m.mp[a].Inf != (err != nil) || (err != nil && k != nil) {
					m.fatalf("NewPublicKeyFromPoint(%v): err=%v", m.mp[a], err)
				}
				if err == nil {
					m.addPub(k, m.mp[a])
				}
			}
			if !m.mp[a].Inf {
				// the caller keeps using (and changing) its point
				m.pts[a].Double(m.pts[a])
				m.mp[a] = m.mp[a].Double()
				m.aliased++
				m.mutations++
			}
		},
		"newpub-bytes": func(t *rapid.T) {
			p := gen.NonIdentityPoint(t, "P").P
			how := gen.Sampled([]string{"compressed", "uncompressed", "spki", "schnorr-x", "invalid", "identity", "schnorr-invalid"}).Draw(t, "how")
			m.log("newpub-bytes %s %v", how, p)
			var src []byte
			switch how {
			case "compressed", "uncompressed":
				src = p.Compressed()
				if how == "uncompressed" {
					src = p.Uncompressed()
				}
				k, err := secec.NewPublicKey(src)
				if err != nil {
					m.fatalf("NewPublicKey(%x): %v", src, err)
				}
				m.addPub(k, p)
			case "spki":
				src = ref.EncodeSPKI(p)
				k, err := secec.ParseASN1PublicKey(src)
				if err != nil {
					m.fatalf("ParseASN1PublicKey(%x): %v", src, err)
				}
				m.addPub(k, p)
			case "schnorr-x":
				src = ref.B32(p.X)
				k, err := bitcoin.NewSchnorrPublicKey(src)
				if err != nil {
					m.fatalf("NewSchnorrPublicKey(%x): %v", src, err)
				}
				m.addSPub(k, p.X)
			case "invalid":
				src, _ = badEncoding(t, p)
				if k, err := secec.NewPublicKey(src); k != nil || err == nil {
					m.fatalf("NewPublicKey(%x) accepted an invalid encoding", src)
				}
			case "identity":
				src = []byte{0}
				if k, err := secec.NewPublicKey(src); k != nil || err == nil {
					m.fatalf("NewPublicKey(identity) returned a key")
				}
			default:
				bad, _ := badEncoding(t, p)
				src = bad
				if len(bad) == 33 && (bad[0] == 2 || bad[0] == 3) {
					src = bad[1:] // off-curve or out-of-range abscissa
				}
				x := ref.Int(src)
				_, onCurve := ref.LiftXEven(x)
				valid := len(src) == 32 && x.Cmp(ref.P) < 0 && onCurve
				k, err := bitcoin.NewSchnorrPublicKey(src)
				if valid != (err == nil) || (err != nil && k != nil) {
					m.fatalf("NewSchnorrPublicKey(%x): err=%v, model valid=%v", src, err, valid)
				}
				if err == nil {
					m.addSPub(k, x)
				}
			}
			scramble(src)
			m.mutations++
		},
		"recover-key": func(t *rapid.T) {
			// keys also come out of signature recovery; the degenerate relation s*R = e*G (Q = O) must not yield a key
			k := gen.NonZero256(t, ref.N, "k")
			R := ref.BaseMul(k)
			r := ref.Mod(R.X, ref.N)
			si := m.sslot("s")
			sv := m.ms[si]
			digest := gen.Bytes(t, 32, 32, "digest")
			degenerate := rapid.IntRange(0, 2).Draw(t, "degenerate") == 0
			if degenerate {
				digest = ref.B32(ref.MulM(sv, k, ref.N))
			}
			v := byte(R.Y.Bit(0))
			if R.X.Cmp(ref.N) >= 0 {
				v |= 2
			}
			if rapid.IntRange(0, 5).Draw(t, "other-id") == 0 {
				v = byte(rapid.IntRange(0, 5).Draw(t, "v"))
			}
			m.log("recover-key s%d (=%x) k=%x degenerate=%v v=%d", si, sv, k, degenerate, v)
			want, ok := ref.ECDSARecover(digest, r, sv, int(v))
			if v > 3 {
				ok = false
			}
			var key *secec.PublicKey
			var err error
			if p := lib.Catch(func() { key, err = secec.RecoverPublicKey(digest, lib.Sc(r), m.scs[si], v) }); p != nil {
				m.fatalf("RecoverPublicKey panicked: %v", p)
			}
			if ok != (err == nil) || (err != nil && key != nil) {
				m.fatalf("RecoverPublicKey(digest=%x, r=%x, s=%x, v=%d): err=%v key=%v, model: ok=%v %v", digest, r, sv, v, err, key != nil, ok, want)
			}
			if err == nil {
				m.addPub(key, want)
			}
		},
		"ecdh": func(t *rapid.T) {
			if len(m.privs) == 0 || len(m.pubs) == 0 {
				t.Skip("need a private and a public key")
			}
			i := rapid.IntRange(0, len(m.privs)-1).Draw(t, "priv")
			j := rapid.IntRange(0, len(m.pubs)-1).Draw(t, "pub")
			m.log("ecdh priv%d pub%d", i, j)
			sec, err := m.privs[i].k.ECDH(m.pubs[j].k)
			want := ref.B32(m.pubs[j].q.Mul(m.privs[i].d).X)
			if err != nil || !bytes.Equal(sec, want) {
				m.fatalf("ECDH(%x, %v) = %x (%v), model %x", m.privs[i].d, m.pubs[j].q, sec, err, want)
			}
			m.hold("ECDH shared secret", sec)
		},
		"sign-verify": func(t *rapid.T) {
			if len(m.privs) == 0 {
				t.Skip("no private key yet")
			}
			i := rapid.IntRange(0, len(m.privs)-1).Draw(t, "priv")
			digest := gen.Bytes(t, 32, 32, "digest")
			ent := gen.Bytes(t, 32, 32, "entropy")
			enc := gen.Sampled([]secec.SignatureEncoding{secec.EncodingASN1, secec.EncodingCompact, secec.EncodingCompactRecoverable}).Draw(t, "enc")
			m.log("sign-verify priv%d enc%d", i, enc)
			e := m.privs[i]
			opts := &secec.ECDSAOptions{Hash: crypto.SHA256, Encoding: enc, SelfVerify: rapid.Bool().Draw(t, "selfverify")}
			keep := append([]byte(nil), digest...)
			sig, err := e.k.Sign(bytes.NewReader(ent), digest, opts)
			if err != nil {
				m.fatalf("Sign: %v", err)
			}
			scramble(digest) // caller reuses its buffers
			scramble(ent)
			if !e.k.PublicKey().Verify(keep, sig, opts) {
				m.fatalf("signature by key %x does not verify", e.d)
			}
			var r, s *big.Int
			var ok bool
			switch enc {
			case secec.EncodingASN1:
				r, s, ok = ref.ParseDERSigStrict(sig)
			case secec.EncodingCompact:
				r, s, ok = ref.ParseCompactStrict(sig)
			default:
				r, s, _, ok = ref.ParseCompactRecoverableStrict(sig)
			}
			if !ok || !ref.ECDSAVerify(e.q, keep, r, s) {
				m.fatalf("signature by key %x is not valid for the model key: %x", e.d, sig)
			}
			m.hold(fmt.Sprintf("signature (encoding %d)", enc), sig)
		},
		"": func(t *rapid.T) { m.invariant() },
	}
	t.Repeat(actions)
	m.finalCheck()
	nontrivial := m.aliased > 0 || m.failedLive > 0 || m.uninitOps > 0 || m.keyUseAfterMutation > 0
	classes := []string{fmt.Sprintf("steps>=%d", m.steps/10*10)}
	for name, n := range map[string]int{"aliased-call": m.aliased, "failed-call-on-live-receiver": m.failedLive, "uninitialised-operand": m.uninitOps,
		"caller-mutation": m.mutations, "key-use-after-mutation": m.keyUseAfterMutation} {
		if n > 0 {
			classes = append(classes, name)
		}
	}
	stat.Case("api-machine", classes, nontrivial, []byte(fmt.Sprint(m.trace)), func() any {
		return map[string]any{"steps": m.steps, "aliased": m.aliased, "failed_on_live_receiver": m.failedLive, "uninitialised_operand_calls": m.uninitOps,
			"caller_mutations": m.mutations, "key_uses_after_mutation": m.keyUseAfterMutation, "trace": m.trace}
	})
}

func TestC18_Machine(t *testing.T) { rapid.Check(t, propMachine) }
