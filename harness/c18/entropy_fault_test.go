package c18

import (
	"bytes"
	"errors"
	"fmt"
	"testing"

	"pgregory.net/rapid"

	secp256k1 "gitlab.com/yawning/secp256k1-voi"
	"gitlab.com/yawning/secp256k1-voi/secec"
	"gitlab.com/yawning/secp256k1-voi/verifharness/gen"
	"gitlab.com/yawning/secp256k1-voi/verifharness/lib"
	"gitlab.com/yawning/secp256k1-voi/verifharness/ref"
	"gitlab.com/yawning/secp256k1-voi/verifharness/stat"
)

// propFailingProcessEntropy: no call hands out an invalid object - also not when the process-wide entropy source
// (crypto/rand.Reader) fails in the middle of it.  None of the operations below takes an entropy source, so today
// none of them reads one; an implementation that starts to (coordinate blinding, say) may treat a dead source as
// fatal - panic, or return an error where the signature allows one - but it may not go on and return something
// that is not the result: a point that is not on the curve, a "valid" (0,0,0), a key whose halves disagree.  Every
// call is made under recover while the source fails after a drawn number of bytes; accepted outcomes are a panic,
// an error, or exactly the reference's result (a valid object).
func propFailingProcessEntropy(t *rapid.T) {
	s := gen.Int256(t, ref.N, "s")
	s2 := gen.Int256(t, ref.N, "s2")
	P := gen.Point(t, "P").P
	after := gen.Sampled([]int{0, 0, 1, 8, 16, 31, 32, 33, 48, 64}).Draw(t, "fails-after")
	content, _ := gen.EntropyContent(t, 80, "content")
	src := &gen.ScriptedReader{Data: content, FailAfter: after}
	src.Err = gen.Sampled([]error{gen.ErrScripted, errors.New("getrandom: resource temporarily unavailable"), nil}).Draw(t, "err")
	op := gen.Sampled([]string{"ScalarMult", "ScalarBaseMult", "MultiScalarMult-1", "MultiScalarMult-2", "MultiScalarMultVartime-2", "DoubleScalarMultBasepointVartime",
		"Add", "Double", "ECDH", "NewPrivateKey", "NewPublicKeyFromPoint", "SetUniformBytes"}).Draw(t, "op")
	stat.Case("failing-process-entropy", []string{"op:" + op, fmt.Sprintf("fails-after:%d", after)}, true, []byte(fmt.Sprintf("%s|%x|%x|%v|%d", op, s, s2, P, after)), func() any {
		return map[string]any{"op": op, "s": s.Text(16), "P": P.String(), "source_fails_after": after}
	})
	ls, ls2, lp := lib.Sc(s), lib.Sc(s2), lib.Pt(P)
	var got *secp256k1.Point
	var gotBytes, wantBytes []byte
	var want ref.Pt
	var callErr error
	havePoint := true
	panicked := lib.Catch(func() {
		gen.WithProcessEntropy(src, func() {
			switch op {
			case "ScalarMult":
				got, want = secp256k1.NewIdentityPoint().ScalarMult(ls, lp), P.Mul(s)
			case "ScalarBaseMult":
				got, want = secp256k1.NewIdentityPoint().ScalarBaseMult(ls), ref.BaseMul(s)
			case "MultiScalarMult-1":
				got, want = secp256k1.NewIdentityPoint().MultiScalarMult([]*secp256k1.Scalar{ls}, []*secp256k1.Point{lp}), P.Mul(s)
			case "MultiScalarMult-2":
				got = secp256k1.NewIdentityPoint().MultiScalarMult([]*secp256k1.Scalar{ls, ls2}, []*secp256k1.Point{lp, secp256k1.NewGeneratorPoint()})
				want = P.Mul(s).Add(ref.BaseMul(s2))
			case "MultiScalarMultVartime-2":
				got = secp256k1.NewIdentityPoint().MultiScalarMultVartime([]*secp256k1.Scalar{ls, ls2}, []*secp256k1.Point{lp, secp256k1.NewGeneratorPoint()})
				want = P.Mul(s).Add(ref.BaseMul(s2))
			case "DoubleScalarMultBasepointVartime":
				got, want = secp256k1.NewIdentityPoint().DoubleScalarMultBasepointVartime(ls, ls2, lp), ref.BaseMul(s).Add(P.Mul(s2))
			case "Add":
				got, want = secp256k1.NewIdentityPoint().Add(lp, secp256k1.NewGeneratorPoint()), P.Add(ref.G())
			case "Double":
				got, want = secp256k1.NewIdentityPoint().Double(lp), P.Double()
			case "SetUniformBytes":
				havePoint = false
				a := secp256k1.NewIdentityPoint().SetUniformBytes(content[:48])
				var b *secp256k1.Point
				gen.WithProcessEntropy(bytes.NewReader(content), func() { b = secp256k1.NewIdentityPoint().SetUniformBytes(content[:48]) })
				gotBytes, wantBytes = a.UncompressedBytes(), b.UncompressedBytes()
			case "ECDH", "NewPrivateKey", "NewPublicKeyFromPoint":
				havePoint = false
				d := s
				if d.Sign() == 0 {
					d = s2
				}
				if d.Sign() == 0 || P.Inf {
					return
				}
				switch op {
				case "ECDH":
					var k *secec.PrivateKey
					if k, callErr = secec.NewPrivateKey(ref.B32(d)); callErr == nil {
						gotBytes, callErr = k.ECDH(lib.PubKey(P))
						wantBytes = ref.B32(P.Mul(d).X)
					}
				case "NewPrivateKey":
					var k *secec.PrivateKey
					if k, callErr = secec.NewPrivateKey(ref.B32(d)); callErr == nil {
						gotBytes, wantBytes = append(k.Bytes(), k.PublicKey().Bytes()...), append(ref.B32(d), ref.BaseMul(d).Uncompressed()...)
					}
				default:
					var k *secec.PublicKey
					if k, callErr = secec.NewPublicKeyFromPoint(lp); callErr == nil {
						gotBytes, wantBytes = append(k.Bytes(), k.Point().UncompressedBytes()...), append(P.Uncompressed(), P.Uncompressed()...)
					}
				}
			}
		})
	})
	if panicked != nil || callErr != nil {
		return // a dead entropy source may be fatal to the call
	}
	if havePoint {
		if got == nil {
			t.Fatalf("%s returned nil while the process-wide entropy source was failing (after %d bytes)", op, after)
		}
		// the object is used like any other afterwards: encoded, compared, added
		enc := got.UncompressedBytes()
		if !bytes.Equal(enc, want.Uncompressed()) || got.Equal(lib.Pt(want)) != 1 || got.Equal(lib.Pt(want.Add(ref.G()))) != 0 {
			t.Fatalf("%s(s=%x, P=%v) returned neither an error nor the result while the process-wide entropy source was failing (after %d bytes): encoding %x, want %v; Equal(result)=%d Equal(result+G)=%d",
				op, s, P, after, enc, want, got.Equal(lib.Pt(want)), got.Equal(lib.Pt(want.Add(ref.G()))))
		}
		if sum := secp256k1.NewIdentityPoint().Add(got, secp256k1.NewGeneratorPoint()); !bytes.Equal(sum.UncompressedBytes(), want.Add(ref.G()).Uncompressed()) {
			t.Fatalf("%s: the point returned while the entropy source was failing does not behave like the result when used as an operand", op)
		}
		return
	}
	if !bytes.Equal(gotBytes, wantBytes) {
		t.Fatalf("%s returned %x while the process-wide entropy source was failing (after %d bytes), neither an error nor the result %x", op, gotBytes, after, wantBytes)
	}
}

func TestC18_FailingProcessEntropy(t *testing.T) { rapid.Check(t, propFailingProcessEntropy) }
