// Package c13: BIP-340 verification accepts exactly what the BIP-340
// algorithm accepts.
package c13

import (
	"bytes"
	"encoding/hex"
	"fmt"
	"math/big"
	"os"
	"path/filepath"
	"strings"
	"testing"

	"pgregory.net/rapid"

	"gitlab.com/yawning/secp256k1-voi/secec/bitcoin"
	"gitlab.com/yawning/secp256k1-voi/verifharness/gen"
	"gitlab.com/yawning/secp256k1-voi/verifharness/lib"
	"gitlab.com/yawning/secp256k1-voi/verifharness/ref"
	"gitlab.com/yawning/secp256k1-voi/verifharness/stat"
)

func TestMain(m *testing.M) { stat.Main(m) }

func evenD(dPrime *big.Int) *big.Int {
	if ref.BaseMul(dPrime).Y.Bit(0) == 1 {
		return new(big.Int).Sub(ref.N, dPrime)
	}
	return new(big.Int).Set(dPrime)
}

func propVerify(t *rapid.T) {
	dPrime := gen.NonZero256(t, ref.N, "d")
	pk := ref.B32(ref.BaseMul(dPrime).X)
	msg := gen.Message(t, "msg")
	how := gen.Sampled([]string{"signed", "signed", "signed", "odd-R", "R=O", "chosen-nonce", "random"}).Draw(t, "how")
	var sig []byte
	switch how {
	case "signed":
		aux := gen.Bytes(t, 32, 32, "aux")
		var ok bool
		sig, ok = ref.BIP340Sign(dPrime, aux, msg)
		if !ok {
			t.Skip("k' = 0")
		}
	case "odd-R":
		// use the nonce whose R has odd y, without negating it
		k := gen.NonZero256(t, ref.N, "k")
		if ref.BaseMul(k).Y.Bit(0) == 0 {
			k = ref.NegM(k, ref.N)
		}
		sig = ref.BIP340SignWithNonce(dPrime, k, msg, false)
	case "chosen-nonce":
		k := gen.NonZero256(t, ref.N, "k")
		sig = ref.BIP340SignWithNonce(dPrime, k, msg, true)
	case "R=O":
		// s = e*d makes R = s*G - e*P the identity for any claimed r
		rb := ref.B32(gen.Int256(t, ref.P, "r"))
		e := ref.Mod(ref.Int(ref.TaggedHash("BIP0340/challenge", rb, pk, msg)), ref.N)
		sig = append(rb, ref.B32(ref.MulM(e, evenD(dPrime), ref.N))...)
	default:
		sig = gen.Bytes(t, 64, 64, "sig")
	}
	edit := gen.Sampled([]string{"none", "none", "none", "none", "none", "none", "none", "none", "none", "r+1", "r-1", "s+1", "s-1", "s-negated", "msg-bit", "msg-extend", "msg-truncate", "other-key",
		"r=p-1", "r=p", "r=2^256-1", "r+p", "s=0", "s=n-1", "s=n", "s+n", "s=2^256-1", "truncate", "extend", "empty", "len-any"}).Draw(t, "edit")
	pk2, msg2 := pk, append([]byte(nil), msg...)
	sig = append([]byte(nil), sig...)
	setR := func(v *big.Int) { copy(sig[:32], ref.B32(ref.Mod(v, ref.Two256))) }
	setS := func(v *big.Int) { copy(sig[32:], ref.B32(ref.Mod(v, ref.Two256))) }
	r, s := ref.Int(sig[:32]), ref.Int(sig[32:])
	switch edit {
	case "r+1":
		setR(new(big.Int).Add(r, big.NewInt(1)))
	case "r-1":
		setR(new(big.Int).Add(new(big.Int).Sub(r, big.NewInt(1)), ref.Two256))
	case "s+1":
		setS(new(big.Int).Add(s, big.NewInt(1)))
	case "s-1":
		setS(new(big.Int).Add(new(big.Int).Sub(s, big.NewInt(1)), ref.Two256))
	case "s-negated":
		setS(ref.NegM(s, ref.N))
	case "msg-bit":
		if len(msg2) == 0 {
			msg2 = []byte{0}
		} else {
			bit := rapid.IntRange(0, len(msg2)*8-1).Draw(t, "mbit")
			msg2[bit/8] ^= 1 << (bit % 8)
		}
	case "msg-extend":
		msg2 = append(msg2, 0)
	case "msg-truncate":
		if len(msg2) > 0 {
			msg2 = msg2[:len(msg2)-1]
		} else {
			edit = "none"
		}
	case "other-key":
		d2 := ref.Mod(new(big.Int).Add(dPrime, big.NewInt(1)), ref.N)
		if d2.Sign() == 0 {
			d2 = big.NewInt(1)
		}
		pk2 = ref.B32(ref.BaseMul(d2).X)
	case "r=p-1":
		setR(new(big.Int).Sub(ref.P, big.NewInt(1)))
	case "r=p":
		setR(ref.P)
	case "r=2^256-1":
		setR(new(big.Int).Sub(ref.Two256, big.NewInt(1)))
	case "r+p":
		if v := new(big.Int).Add(r, ref.P); v.BitLen() <= 256 {
			setR(v)
		} else {
			setR(new(big.Int).Add(ref.P, gen.Small(t, "ro")))
		}
	case "s=0":
		setS(big.NewInt(0))
	case "s=n-1":
		setS(new(big.Int).Sub(ref.N, big.NewInt(1)))
	case "s=n":
		setS(ref.N)
	case "s+n":
		if v := new(big.Int).Add(s, ref.N); v.BitLen() <= 256 {
			setS(v)
		} else {
			setS(new(big.Int).Add(ref.N, gen.Small(t, "so")))
		}
	case "s=2^256-1":
		setS(new(big.Int).Sub(ref.Two256, big.NewInt(1)))
	case "truncate":
		sig = sig[:64-rapid.IntRange(1, 64).Draw(t, "cut")]
	case "extend":
		sig = append(sig, gen.Bytes(t, 1, 66, "ext")...)
	case "empty":
		sig = nil
	case "len-any":
		n := rapid.IntRange(0, 130).Draw(t, "anylen")
		sig = gen.Bytes(t, n, n, "anysig")
	}
	want := ref.BIP340Verify(pk2, msg2, sig)
	acc := "reject"
	if want {
		acc = "accept"
	}
	cl := []string{"how:" + how, "edit:" + edit, acc}
	if len(msg2) != 32 {
		cl = append(cl, "msglen!=32")
	}
	stat.Case("verify", cl, true, []byte(fmt.Sprintf("%x|%x|%x", pk2, msg2, sig)), func() any {
		return map[string]any{"pk": stat.Hex(pk2), "msg": stat.Hex(msg2), "sig": stat.Hex(sig), "built": how, "edit": edit, "expect": acc}
	})
	key, err := bitcoin.NewSchnorrPublicKey(pk2)
	if err != nil {
		t.Fatalf("NewSchnorrPublicKey(%x) rejected a valid x-only key: %v", pk2, err)
	}
	var got bool
	adj, unchanged := gen.Adjacent(msg2, sig) // arguments sliced out of one caller buffer
	before := ""
	if rapid.IntRange(0, 3).Draw(t, "faulted-signing-before") == 0 {
		// the process also signs, and a signing call just failed on its entropy source: verification is a
		// function of (key, message, signature) whatever happened before
		before = " after " + lib.FaultedSigning(t, "fs")
	}
	if p := lib.Catch(func() { got = key.Verify(adj[0], adj[1]) }); p != nil {
		t.Fatalf("Verify panicked%s: %v", before, p)
	}
	if got != want && before != "" {
		t.Fatalf("Verify(pk=%x, msg=%x, sig=%x) = %v%s, BIP-340 says %v", pk2, msg2, sig, got, before, want)
	}
	if !unchanged() {
		t.Fatalf("Verify modified its caller's buffer (msg %x, sig %x)", msg2, sig)
	}
	if got != want {
		t.Fatalf("Verify(pk=%x, msg=%x, sig=%x) = %v, BIP-340 says %v [%s/%s]", pk2, msg2, sig, got, want, how, edit)
	}
	// follow-up calls on the same key object: a related message, then the original again
	if rapid.Bool().Draw(t, "follow-up") {
		alt := append(append([]byte(nil), msg2...), 0x80)
		if g2, w2 := key.Verify(alt, sig), ref.BIP340Verify(pk2, alt, sig); g2 != w2 {
			t.Fatalf("Verify(pk=%x, msg=%x, sig=%x) = %v right after verifying msg %x, BIP-340 says %v", pk2, alt, sig, g2, msg2, w2)
		}
		if g3 := key.Verify(msg2, sig); g3 != want {
			t.Fatalf("Verify(pk=%x, msg=%x, sig=%x) = %v on the second identical call, %v on the first", pk2, msg2, sig, g3, got)
		}
	}
	// the same verdict through the public half of a private key object that is gone
	if bytes.Equal(pk2, pk) && rapid.IntRange(0, 3).Draw(t, "dropped-private") == 0 {
		key3, err := publicHalfOfDroppedKey(dPrime)
		if err != nil {
			t.Fatalf("NewSchnorrPrivateKey(%x): %v", dPrime, err)
		}
		if !bytes.Equal(key3.Bytes(), pk) || key3.Verify(msg2, sig) != want {
			t.Fatalf("the public key taken from a private key object changed once that object was collected: Bytes() = %x (want %x), Verify = %v (BIP-340 says %v)", key3.Bytes(), pk, key3.Verify(msg2, sig), want)
		}
	}
	// the same verdict through a key built from the point
	key2, err := bitcoin.NewSchnorrPublicKeyFromPoint(lib.Pt(ref.Pt{X: ref.Int(pk2), Y: liftY(ref.Int(pk2), rapid.Bool().Draw(t, "frompoint-odd"))}))
	if err != nil || key2.Verify(msg2, sig) != want {
		t.Fatalf("Verify through NewSchnorrPublicKeyFromPoint disagrees (%v)", err)
	}
}

// publicHalfOfDroppedKey returns the public key object handed out by a
// private key object that nothing references any more, after a garbage
// collection (with time for finalizers) has run: the public half must be a
// value of its own, not a view into an object with a shorter life.
func publicHalfOfDroppedKey(dPrime *big.Int) (*bitcoin.SchnorrPublicKey, error) {
	pub, err := func() (*bitcoin.SchnorrPublicKey, error) {
		sk, err := bitcoin.NewSchnorrPrivateKey(ref.B32(dPrime))
		if err != nil {
			return nil, err
		}
		return sk.PublicKey(), nil
	}()
	gen.CollectNow()
	return pub, err
}

func liftY(x *big.Int, odd bool) *big.Int {
	p, ok := ref.LiftX(x, odd)
	if !ok {
		panic("liftY: not on curve")
	}
	return p.Y
}

func TestC13_Verify(t *testing.T) { rapid.Check(t, propVerify) }

func propKeyImport(t *rapid.T) {
	kind := gen.Sampled([]string{"on-curve", "on-curve", "off-curve", "x>=p", "x+p", "zero", "badlen", "raw", "with-prefix"}).Draw(t, "kind")
	var raw []byte
	switch kind {
	case "on-curve":
		raw = ref.B32(gen.NonIdentityPoint(t, "pt").P.X)
	case "off-curve":
		x := gen.Int256(t, ref.P, "x")
		for ref.IsSquareP(ref.RHS(x)) {
			x = ref.AddM(x, big.NewInt(1), ref.P)
		}
		raw = ref.B32(x)
	case "x>=p":
		raw = gen.Bytes32Any(t, ref.P, "x")
	case "x+p":
		raw = ref.B32(new(big.Int).Add(gen.SmallXPoint(t, "sx").P.X, ref.P))
	case "zero":
		raw = make([]byte, 32)
	case "badlen":
		n := gen.Sampled([]int{0, 1, 31, 33, 64, 65}).Draw(t, "len")
		raw = gen.Bytes(t, n, n, "raw")
		if n == 33 && rapid.Bool().Draw(t, "valid33") {
			raw = gen.NonIdentityPoint(t, "pt").P.Compressed()
		}
	case "with-prefix":
		raw = gen.NonIdentityPoint(t, "pt").P.Compressed()
	default:
		raw = gen.Bytes(t, 32, 32, "raw")
	}
	orig := append([]byte(nil), raw...)
	x := ref.Int(raw)
	pt, onCurve := ref.LiftXEven(x)
	ok := len(raw) == 32 && onCurve
	acc := "reject"
	if ok {
		acc = "accept"
	}
	stat.Case("keyimport", []string{"kind:" + kind, acc}, true, append([]byte("k|"), raw...), func() any {
		return map[string]any{"bytes": stat.Hex(raw), "kind": kind, "expect": acc}
	})
	k, err := bitcoin.NewSchnorrPublicKey(raw)
	if !ok {
		if err == nil || k != nil {
			t.Fatalf("NewSchnorrPublicKey(%x) accepted [%s]", raw, kind)
		}
		return
	}
	if err != nil {
		t.Fatalf("NewSchnorrPublicKey(%x) rejected a valid key: %v", raw, err)
	}
	raw[0] ^= 0xff
	if !bytes.Equal(k.Bytes(), orig) {
		t.Fatal("Bytes() != input (or the input buffer is retained)")
	}
	if !bytes.Equal(k.Point().UncompressedBytes(), pt.Uncompressed()) {
		t.Fatalf("Point() is not lift_x(%x)", x)
	}
}

func TestC13_KeyImport(t *testing.T) { rapid.Check(t, propKeyImport) }

// TestC13_StructuredChallengeCorpus replays (key, nonce, message) triples
// whose BIP-340 challenge hash e = H(R.x || P.x || m) has a rare shape (zero /
// all-ones 32-bit half word, 64-bit words that share no set bit or cover all
// bits, nearly equal words; found once by brute force with cmd/structsearch --
// the challenge comes out of SHA-256 and cannot be steered).  The valid
// signature must be accepted and its neighbours rejected there too.
func TestC13_StructuredChallengeCorpus(t *testing.T) {
	raw, err := os.ReadFile(filepath.Join(os.Getenv("VERIF_ROOT"), "harness", "c13", "testdata", "structured_challenges.txt"))
	if err != nil {
		raw, err = os.ReadFile(filepath.Join("testdata", "structured_challenges.txt"))
	}
	if err != nil {
		t.Fatalf("HARNESS-INCONCLUSIVE: corpus missing: %v", err)
	}
	n := 0
	classes := map[string]bool{}
	for _, line := range strings.Split(string(raw), "\n") {
		f := strings.Fields(line)
		if len(f) != 6 || f[0] != "bip340-challenge" {
			continue
		}
		dB, _ := hex.DecodeString(f[2])
		kB, _ := hex.DecodeString(f[3])
		msg, _ := hex.DecodeString(f[4])
		hB, _ := hex.DecodeString(f[5])
		d, k := ref.Int(dB), ref.Int(kB)
		pk := ref.B32(ref.BaseMul(d).X)
		sig := ref.BIP340SignWithNonce(d, k, msg, true)
		if got := ref.TaggedHash("BIP0340/challenge", sig[:32], pk, msg); !bytes.Equal(got, hB) {
			t.Fatalf("HARNESS-INCONCLUSIVE: corpus line %q does not match the reference challenge hash %x", line, got)
		}
		if !ref.BIP340Verify(pk, msg, sig) {
			t.Fatalf("HARNESS-INCONCLUSIVE: reference rejects the corpus signature %q", line)
		}
		key, err := bitcoin.NewSchnorrPublicKey(pk)
		if err != nil {
			t.Fatalf("NewSchnorrPublicKey(%x): %v", pk, err)
		}
		if !key.Verify(msg, sig) {
			t.Fatalf("Verify rejects a valid BIP-340 signature whose challenge hash is %x [shape %s]: pk=%x msg=%x sig=%x", hB, f[1], pk, msg, sig)
		}
		for _, pos := range []int{63, 32, 31, 0} {
			bad := append([]byte(nil), sig...)
			bad[pos] ^= 1
			if key.Verify(msg, bad) != ref.BIP340Verify(pk, msg, bad) {
				t.Fatalf("Verify disagrees with BIP-340 on a neighbour (byte %d flipped) of the signature with challenge shape %s: pk=%x msg=%x sig=%x", pos, f[1], pk, msg, bad)
			}
		}
		n++
		classes[f[1]] = true
		stat.Case("structured-challenge-corpus", []string{"shape:" + f[1]}, true, []byte(line), func() any {
			return map[string]any{"shape": f[1], "d": f[2], "k": f[3], "msg": f[4], "challenge_hash": f[5]}
		})
	}
	if n < 12 || len(classes) < 12 {
		t.Fatalf("HARNESS-INCONCLUSIVE: corpus has only %d usable lines in %d shape classes", n, len(classes))
	}
}

// propOverlapping: verdicts of verifications that overlap in time.  A handful of (key, message, signature) tuples -
// valid ones and their one-edit neighbours, messages of different lengths so that the hash states differ in shape -
// verified from several goroutines at once, through shared and through separate key objects; every verdict must be
// the reference's.
func propOverlapping(t *rapid.T) {
	n := rapid.IntRange(3, 8).Draw(t, "tuples")
	var calls []func() string
	var want []string
	var key bytes.Buffer
	shared := map[string]*bitcoin.SchnorrPublicKey{}
	for i := 0; i < n; i++ {
		d := gen.NonZero256(t, ref.N, fmt.Sprintf("d%d", i))
		if i > 0 && rapid.Bool().Draw(t, fmt.Sprintf("samekey%d", i)) {
			d = big.NewInt(int64(7 + i%2))
		}
		pk := ref.B32(ref.BaseMul(d).X)
		msg := gen.Message(t, fmt.Sprintf("msg%d", i))
		sig, ok := ref.BIP340Sign(d, gen.Bytes(t, 32, 32, fmt.Sprintf("aux%d", i)), msg)
		if !ok {
			t.Skip("k' = 0")
		}
		switch gen.Sampled([]string{"none", "none", "none", "s+1", "r+1", "msg-extend"}).Draw(t, fmt.Sprintf("edit%d", i)) {
		case "s+1":
			sig[63] ^= 1
		case "r+1":
			sig[31] ^= 1
		case "msg-extend":
			msg = append(msg, 0)
		}
		w := fmt.Sprint(ref.BIP340Verify(pk, msg, sig))
		k, err := bitcoin.NewSchnorrPublicKey(pk)
		if err != nil {
			t.Fatalf("NewSchnorrPublicKey(%x): %v", pk, err)
		}
		if prev, ok := shared[string(pk)]; ok && rapid.Bool().Draw(t, fmt.Sprintf("sharedobj%d", i)) {
			k = prev
		}
		shared[string(pk)] = k
		calls = append(calls, func() string { return fmt.Sprint(k.Verify(msg, sig)) })
		want = append(want, w)
		fmt.Fprintf(&key, "%x|%x|%x;", pk, msg, sig)
	}
	g := gen.Sampled([]int{2, 3, 4, 8}).Draw(t, "goroutines")
	stat.Case("overlapping", []string{fmt.Sprintf("goroutines:%d", g), fmt.Sprintf("tuples:%d", n)}, true, key.Bytes(), func() any {
		return map[string]any{"tuples": n, "goroutines": g, "expected_verdicts": want}
	})
	if msg := lib.Overlap(calls, want, g, 3); msg != "" {
		t.Fatalf("Verify: %s", msg)
	}
}

func TestC13_Overlapping(t *testing.T) { rapid.Check(t, propOverlapping) }
