//go:build verif

package c05

import (
	"fmt"
	"testing"

	secp256k1 "gitlab.com/yawning/secp256k1-voi"
	"gitlab.com/yawning/secp256k1-voi/verifharness/lib"
	"gitlab.com/yawning/secp256k1-voi/verifharness/stat"
)

var baseEntries = []string{"ScalarBaseMult", "DoubleScalarMultBasepointVartime(s,0,G)", "DoubleScalarMultBasepointVartime(s,1,O)",
	"PrivateKey.PublicKey", "scalarBaseMultVartime"}

func hookBaseEntry(entry string, rcv *secp256k1.Point, s *secp256k1.Scalar) *secp256k1.Point {
	return rcv.VerifScalarBaseMultVartime(s)
}

// TestC05_TableEntries reads all 32x255 huge-table and 32x15 odd-table
// entries directly and compares them with the reference multiples.
func TestC05_TableEntries(t *testing.T) {
	m := refMultiples()
	for i := 0; i < 32; i++ {
		for j := 0; j < 255; j++ {
			x, y := secp256k1.VerifGeneratorHugeTableEntry(i, j)
			w := m[i][j]
			stat.Case("table-entries", []string{"huge"}, true, []byte(fmt.Sprintf("h%d/%d", i, j)), func() any {
				return map[string]any{"table": "huge", "i": i, "j": j, "x": lib.FeInt(x).Text(16)}
			})
			if lib.FeInt(x).Cmp(w.X) != 0 || lib.FeInt(y).Cmp(w.Y) != 0 {
				t.Fatalf("huge table [%d][%d] is not %d*256^%d*G", i, j, j+1, i)
			}
		}
		for j := 0; j < 15; j++ {
			x, y := secp256k1.VerifGeneratorOddTableEntry(i, j)
			w := m[i][16*(j+1)-1] // (j+1)*16*256^i*G
			stat.Case("table-entries", []string{"odd"}, true, []byte(fmt.Sprintf("o%d/%d", i, j)), func() any {
				return map[string]any{"table": "odd", "i": i, "j": j, "x": lib.FeInt(x).Text(16)}
			})
			if lib.FeInt(x).Cmp(w.X) != 0 || lib.FeInt(y).Cmp(w.Y) != 0 {
				t.Fatalf("odd table [%d][%d] is not %d*16*256^%d*G", i, j, j+1, i)
			}
		}
	}
	stat.Exhaustive("table-entries")
}
