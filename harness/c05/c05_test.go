// Package c05: fixed-base multiplication and the embedded generator tables
// are exact.
package c05

import (
	"bytes"
	"crypto/sha256"
	"fmt"
	"math/big"
	"sync"
	"testing"

	"pgregory.net/rapid"

	secp256k1 "gitlab.com/yawning/secp256k1-voi"
	"gitlab.com/yawning/secp256k1-voi/secec"
	"gitlab.com/yawning/secp256k1-voi/verifharness/gen"
	"gitlab.com/yawning/secp256k1-voi/verifharness/lib"
	"gitlab.com/yawning/secp256k1-voi/verifharness/ref"
	"gitlab.com/yawning/secp256k1-voi/verifharness/stat"
)

func TestMain(m *testing.M) { stat.Main(m) }

var (
	multOnce sync.Once
	// multiples[i][j] = (j+1) * 256^i * G, computed incrementally with the
	// affine textbook law (independent of ref.Mul).
	multiples [32][255]ref.Pt
)

func refMultiples() *[32][255]ref.Pt {
	multOnce.Do(func() {
		base := ref.G()
		for i := 0; i < 32; i++ {
			acc := base
			for j := 0; j < 255; j++ {
				multiples[i][j] = acc
				acc = acc.Add(base)
			}
			base = acc // 256 * previous base
		}
	})
	return &multiples
}

// TestC05_SingleByteScalars: every scalar b*256^i (32 positions x 255 values)
// through both fixed-base paths; the variable-time path reads every one of
// the 8160 huge-table entries exactly this way.
func TestC05_SingleByteScalars(t *testing.T) {
	m := refMultiples()
	zero := secp256k1.NewScalar()
	g := secp256k1.NewGeneratorPoint()
	for i := 0; i < 32; i++ {
		for b := 1; b <= 255; b++ {
			s := new(big.Int).Lsh(big.NewInt(int64(b)), uint(8*i))
			want := m[i][b-1].Uncompressed()
			ls := lib.Sc(s)
			stat.Case("single-byte", []string{"pos:" + fmt.Sprint(i)}, true, s.Bytes(), func() any {
				return map[string]any{"s": s.Text(16), "byte_position": i, "byte": b}
			})
			if got := secp256k1.NewIdentityPoint().ScalarBaseMult(ls).UncompressedBytes(); !bytes.Equal(got, want) {
				t.Fatalf("ScalarBaseMult(%x): got %x want %x", s, got, want)
			}
			if got := secp256k1.NewIdentityPoint().DoubleScalarMultBasepointVartime(ls, zero, g).UncompressedBytes(); !bytes.Equal(got, want) {
				t.Fatalf("DoubleScalarMultBasepointVartime(%x,0,G): got %x want %x (huge table entry [%d][%d])", s, got, want, i, b-1)
			}
		}
	}
	// the one scalar with no non-zero byte: the identity, as a group element
	for _, entry := range baseEntries {
		if entry == "PrivateKey.PublicKey" {
			continue
		}
		var got *secp256k1.Point
		rcv := lib.Pt(ref.BaseMul(big.NewInt(7)))
		switch entry {
		case "ScalarBaseMult":
			got = rcv.ScalarBaseMult(zero)
		case "DoubleScalarMultBasepointVartime(s,0,G)":
			got = rcv.DoubleScalarMultBasepointVartime(zero, zero, g)
		case "DoubleScalarMultBasepointVartime(s,1,O)":
			got = rcv.DoubleScalarMultBasepointVartime(zero, secp256k1.NewScalarFromUint64(1), secp256k1.NewIdentityPoint())
		default:
			got = hookBaseEntry(entry, rcv, zero)
		}
		if !bytes.Equal(got.UncompressedBytes(), []byte{0}) {
			t.Fatalf("%s(0): got %x want the identity", entry, got.UncompressedBytes())
		}
		if !bytes.Equal(rcv.UncompressedBytes(), []byte{0}) {
			t.Fatalf("%s(0): the receiver holds %x after the call, want the identity (callers read the receiver)", entry, rcv.UncompressedBytes())
		}
		useAsGroupElement(t, entry, got, new(big.Int))
		stat.Case("single-byte", []string{"zero-scalar"}, true, []byte("zero|"+entry), func() any {
			return map[string]any{"s": "0", "entry": entry}
		})
	}
	stat.Exhaustive("single-byte")
}

func zeroWindowScalar(t *rapid.T) (*big.Int, string) {
	kind := gen.Sampled([]string{"general", "zero-nibbles", "zero-bytes", "zero-run", "single-nibble", "all-f-but-one"}).Draw(t, "skind")
	b := ref.B32(gen.Int256(t, ref.N, "s"))
	switch kind {
	case "zero-nibbles":
		for k := rapid.IntRange(1, 8).Draw(t, "cnt"); k > 0; k-- {
			pos := rapid.IntRange(0, 63).Draw(t, "nib")
			if pos%2 == 0 {
				b[pos/2] &= 0x0f
			} else {
				b[pos/2] &= 0xf0
			}
		}
	case "zero-bytes":
		for k := rapid.IntRange(1, 6).Draw(t, "cnt"); k > 0; k-- {
			b[rapid.IntRange(0, 31).Draw(t, "byte")] = 0
		}
	case "zero-run":
		lo := rapid.IntRange(0, 31).Draw(t, "lo")
		hi := rapid.IntRange(lo, 31).Draw(t, "hi")
		for i := lo; i <= hi; i++ {
			b[i] = 0
		}
	case "single-nibble":
		for i := range b {
			b[i] = 0
		}
		pos := rapid.IntRange(0, 63).Draw(t, "nib")
		d := byte(rapid.IntRange(1, 15).Draw(t, "dig"))
		if pos%2 == 0 {
			b[pos/2] = d << 4
		} else {
			b[pos/2] = d
		}
	case "all-f-but-one":
		for i := range b {
			b[i] = 0xff
		}
		b[rapid.IntRange(0, 31).Draw(t, "byte")] = rapid.Byte().Draw(t, "val")
	}
	return ref.Mod(ref.Int(b), ref.N), kind
}

func propBaseMult(t *rapid.T) {
	s, kind := zeroWindowScalar(t)
	entry := gen.Sampled(baseEntries).Draw(t, "entry")
	zeroNibbles := 0
	for _, by := range ref.B32(s) {
		if by>>4 == 0 {
			zeroNibbles++
		}
		if by&0xf == 0 {
			zeroNibbles++
		}
	}
	cl := []string{"scalar:" + kind, "entry:" + entry}
	if zeroNibbles > 0 {
		cl = append(cl, "has-zero-nibble")
	}
	stat.Case("basemult", cl, zeroNibbles > 0 || kind != "general", []byte(fmt.Sprintf("%s|%x", entry, s)), func() any {
		return map[string]any{"entry": entry, "s": s.Text(16), "scalar_kind": kind, "zero_nibbles": zeroNibbles}
	})
	want := ref.BaseMul(s)
	ls := lib.Sc(s)
	var got *secp256k1.Point
	rcv := lib.Pt(ref.BaseMul(big.NewInt(99))) // a live receiver must be fully overwritten
	switch entry {
	case "ScalarBaseMult":
		got = rcv.ScalarBaseMult(ls)
	case "DoubleScalarMultBasepointVartime(s,0,G)":
		got = rcv.DoubleScalarMultBasepointVartime(ls, secp256k1.NewScalar(), secp256k1.NewGeneratorPoint())
	case "DoubleScalarMultBasepointVartime(s,1,O)":
		got = rcv.DoubleScalarMultBasepointVartime(ls, secp256k1.NewScalarFromUint64(1), secp256k1.NewIdentityPoint())
	case "PrivateKey.PublicKey":
		if s.Sign() == 0 {
			if _, err := secec.NewPrivateKeyFromScalar(ls); err == nil {
				t.Fatal("zero private scalar accepted")
			}
			return
		}
		k, err := secec.NewPrivateKeyFromScalar(ls)
		if err != nil {
			t.Fatalf("NewPrivateKeyFromScalar(%x): %v", s, err)
		}
		if !bytes.Equal(k.PublicKey().Bytes(), want.Uncompressed()) {
			t.Fatalf("public key of d=%x is %x, want %v", s, k.PublicKey().Bytes(), want)
		}
		// the caller goes on using its scalar: the key must keep mapping d to d*G
		keep := secp256k1.NewScalarFrom(ls)
		ls.Add(ls, ls)
		if !bytes.Equal(k.Bytes(), ref.B32(s)) || !bytes.Equal(k.Scalar().Bytes(), ref.B32(s)) {
			t.Fatalf("private key built from scalar %x holds %x after the caller changed its scalar", s, k.Bytes())
		}
		if pub := secp256k1.NewIdentityPoint().ScalarBaseMult(k.Scalar()); !bytes.Equal(pub.UncompressedBytes(), k.PublicKey().Bytes()) {
			t.Fatalf("key's private scalar %x no longer maps to its public key", k.Bytes())
		}
		ls.Set(keep)
		k2, err := secec.NewPrivateKey(ref.B32(s))
		if err != nil || !bytes.Equal(k2.PublicKey().Bytes(), want.Uncompressed()) {
			t.Fatalf("NewPrivateKey(%x): wrong public key", s)
		}
		got = k.PublicKey().Point()
	default:
		got = hookBaseEntry(entry, rcv, ls)
	}
	if !bytes.Equal(got.UncompressedBytes(), want.Uncompressed()) {
		t.Fatalf("%s(%x): got %x want %v", entry, s, got.UncompressedBytes(), want)
	}
	if entry != "PrivateKey.PublicKey" && !bytes.Equal(rcv.UncompressedBytes(), want.Uncompressed()) {
		// the methods return their receiver; the library's own callers (verification) read the receiver
		t.Fatalf("%s(%x): the receiver holds %x after the call, want %v", entry, s, rcv.UncompressedBytes(), want)
	}
	if lib.ScInt(ls).Cmp(s) != 0 {
		t.Fatal("scalar argument modified")
	}
	useAsGroupElement(t, entry, got, s)
}

type fataler interface {
	Fatalf(format string, args ...any)
}

// useAsGroupElement: "returns exactly s*G" is a statement about the group
// element the returned object stands for, not only about its encoding: an
// object that encodes like s*G but is not a projective representative of it
// (say the triple (0,0,0) for s = 0, which every encoder still writes as the
// identity) is absorbed or mangled by the next addition.  The returned object
// is compared with an independently built s*G and used as an operand.
func useAsGroupElement(t fataler, entry string, got *secp256k1.Point, s *big.Int) {
	want := ref.BaseMul(s)
	if got.Equal(lib.Pt(want)) != 1 {
		t.Fatalf("%s(%x): result is not Equal to the point decoded from the reference's encoding of s*G", entry, s)
	}
	isID := uint64(0)
	if want.Inf {
		isID = 1
	}
	if got.IsIdentity() != isID {
		t.Fatalf("%s(%x): IsIdentity()=%d", entry, s, got.IsIdentity())
	}
	g := secp256k1.NewGeneratorPoint()
	if sum := secp256k1.NewIdentityPoint().Add(got, g); !bytes.Equal(sum.UncompressedBytes(), want.Add(ref.G()).Uncompressed()) {
		t.Fatalf("%s(%x) + G: got %x want %v (the result does not behave as s*G when used as an operand)", entry, s, sum.UncompressedBytes(), want.Add(ref.G()))
	}
	if sum := secp256k1.NewIdentityPoint().Add(g, got); !bytes.Equal(sum.UncompressedBytes(), want.Add(ref.G()).Uncompressed()) {
		t.Fatalf("G + %s(%x): got %x want %v", entry, s, sum.UncompressedBytes(), want.Add(ref.G()))
	}
	if dbl := secp256k1.NewIdentityPoint().Double(got); !bytes.Equal(dbl.UncompressedBytes(), want.Add(want).Uncompressed()) {
		t.Fatalf("2 * %s(%x): got %x want %v", entry, s, dbl.UncompressedBytes(), want.Add(want))
	}
	if neg := secp256k1.NewIdentityPoint().Subtract(g, got); !bytes.Equal(neg.UncompressedBytes(), ref.G().Add(want.Neg()).Uncompressed()) {
		t.Fatalf("G - %s(%x): got %x", entry, s, neg.UncompressedBytes())
	}
}

func TestC05_BaseMult(t *testing.T) { rapid.Check(t, propBaseMult) }

// propDifferentialVolume is the high-volume tier: a defect confined to a
// ~2^-20..2^-25 fraction of scalars (e.g. a lost carry in one step of the
// mixed-addition formula for particular intermediate limbs) cannot be steered
// to from the scalar, and the math/big reference (1.6 ms per product) is too
// slow to reach it by volume.  Here every drawn 32-byte seed is expanded
// (SHA-256 in counter mode, so the case is still a pure function of the rapid
// draw) into a batch of scalars and three independent library code paths are
// compared per scalar: the constant-time fixed-base comb (affine tables, mixed
// additions), the variable-time fixed-base path (huge table) and the generic
// GLV variable-base multiplication of G (projective tables, complete
// additions).  The generic path is itself checked against the reference in
// C04; the first scalar of every batch is also checked against the reference
// here.
func propDifferentialVolume(t *rapid.T) {
	seed := gen.Bytes(t, 32, 32, "seed")
	const batch = 64
	g := secp256k1.NewGeneratorPoint()
	zero := secp256k1.NewScalar()
	zeroNib := 0
	for i := 0; i < batch; i++ {
		h := sha256.Sum256(append(append([]byte("verif/c05/volume"), seed...), byte(i)))
		if i%8 == 7 { // sparse variant: keep only some bytes, many zero windows
			for j := range h {
				if h[(j+1)%32]&3 != 0 {
					h[j] = 0
				}
			}
		}
		s := ref.Mod(ref.Int(h[:]), ref.N)
		ls := lib.Sc(s)
		a := secp256k1.NewIdentityPoint().ScalarBaseMult(ls).UncompressedBytes()
		b := secp256k1.NewIdentityPoint().ScalarMult(ls, g).UncompressedBytes()
		c := secp256k1.NewIdentityPoint().DoubleScalarMultBasepointVartime(ls, zero, g).UncompressedBytes()
		if !bytes.Equal(a, b) || !bytes.Equal(c, b) {
			want := ref.BaseMul(s).Uncompressed()
			t.Fatalf("s=%x: ScalarBaseMult=%x ScalarMult(s,G)=%x DoubleScalarMultBasepointVartime(s,0,G)=%x reference=%x", s, a, b, c, want)
		}
		if i == 0 {
			if want := ref.BaseMul(s).Uncompressed(); !bytes.Equal(a, want) {
				t.Fatalf("s=%x: all three library paths agree on %x but the reference says %x", s, a, want)
			}
		}
		for _, by := range h {
			if by>>4 == 0 || by&15 == 0 {
				zeroNib++
				break
			}
		}
	}
	stat.Case("differential-volume", []string{fmt.Sprintf("batch:%d", batch)}, zeroNib > 0, seed, func() any {
		return map[string]any{"seed": stat.Hex(seed), "scalars_in_batch": batch, "scalars_with_a_zero_nibble": zeroNib}
	})
	stat.Note("differential-volume", fmt.Sprintf("each evaluation is a batch of %d scalars expanded from the drawn seed", batch))
}

func TestC05_DifferentialVolume(t *testing.T) { rapid.Check(t, propDifferentialVolume) }

// TestC05_ExceptionalWindows enumerates the scalars for which, at some step
// of a windowed fixed-base walk (4- or 8-bit windows, most significant window
// first), the accumulated point A*G and the next table entry w*G are related
// without being equal: A = +-lambda^e * w (mod n), e in {1, 2}, i.e. the two
// points share their y-coordinate (or its negation) but not x.  Complete
// addition formulas do not care; an incomplete formula with a mis-guarded
// exceptional case (same x / same y) does, and such scalars look entirely
// random.  A must be a multiple of the window's weight times 2^w for the
// relation to arise inside a walk, which leaves a handful of scalars; every
// one goes through all fixed-base entry points and is compared with the
// reference.
func TestC05_ExceptionalWindows(t *testing.T) {
	var cands []*big.Int
	seen := map[string]bool{}
	for _, w := range []uint{4, 8} {
		for pos := uint(0); pos*w < 256 && pos < 4; pos++ {
			weight := new(big.Int).Lsh(big.NewInt(1), pos*w)
			above := new(big.Int).Lsh(big.NewInt(1), (pos+1)*w)
			for d := int64(1); d < 1<<w; d++ {
				wv := new(big.Int).Mul(big.NewInt(d), weight)
				for e := 1; e <= 2; e++ {
					l := ref.ExpM(ref.Lambda, big.NewInt(int64(e)), ref.N)
					for _, sign := range []int{1, -1} {
						a := ref.MulM(l, wv, ref.N)
						if sign < 0 {
							a = ref.NegM(a, ref.N)
						}
						if new(big.Int).Mod(a, above).Sign() != 0 {
							continue // cannot be a partial sum of the more significant windows
						}
						s := new(big.Int).Add(a, wv)
						if s.Cmp(ref.N) >= 0 || seen[s.Text(16)] {
							continue
						}
						seen[s.Text(16)] = true
						cands = append(cands, s)
					}
				}
			}
		}
	}
	if len(cands) == 0 {
		t.Fatalf("HARNESS-INCONCLUSIVE: no exceptional-window scalars found")
	}
	g := secp256k1.NewGeneratorPoint()
	one := secp256k1.NewScalarFromUint64(1)
	for _, s := range cands {
		want := ref.BaseMul(s).Uncompressed()
		ls := lib.Sc(s)
		got := map[string]*secp256k1.Point{
			"ScalarBaseMult": secp256k1.NewIdentityPoint().ScalarBaseMult(ls),
			"DoubleScalarMultBasepointVartime(s,0,G)": secp256k1.NewIdentityPoint().DoubleScalarMultBasepointVartime(ls, secp256k1.NewScalar(), g),
			"DoubleScalarMultBasepointVartime(s,1,O)": secp256k1.NewIdentityPoint().DoubleScalarMultBasepointVartime(ls, one, secp256k1.NewIdentityPoint()),
			"ScalarMult(s,G)":                         secp256k1.NewIdentityPoint().ScalarMult(ls, g),
		}
		for name, p := range got {
			if !bytes.Equal(p.UncompressedBytes(), want) {
				t.Fatalf("%s(%x): got %x want %x (a window's partial sum and its table entry are endomorphism images of each other)", name, s, p.UncompressedBytes(), want)
			}
		}
		if k, err := secec.NewPrivateKey(ref.B32(s)); err != nil || !bytes.Equal(k.PublicKey().Bytes(), want) {
			t.Fatalf("public key of d=%x wrong", s)
		}
		stat.Case("exceptional-windows", nil, true, s.Bytes(), func() any { return map[string]any{"s": s.Text(16)} })
	}
	stat.Exhaustive("exceptional-windows")
	stat.Note("exceptional-windows", fmt.Sprintf("%d scalars", len(cands)))
}
