//go:build !verif

package c05

import secp256k1 "gitlab.com/yawning/secp256k1-voi"

var baseEntries = []string{"ScalarBaseMult", "DoubleScalarMultBasepointVartime(s,0,G)", "DoubleScalarMultBasepointVartime(s,1,O)", "PrivateKey.PublicKey"}

func hookBaseEntry(string, *secp256k1.Point, *secp256k1.Scalar) *secp256k1.Point { panic("no hooks") }
