//go:build verif

package c04

import (
	"fmt"
	"math/big"
	"testing"

	"pgregory.net/rapid"

	secp256k1 "gitlab.com/yawning/secp256k1-voi"
	"gitlab.com/yawning/secp256k1-voi/verifharness/gen"
	"gitlab.com/yawning/secp256k1-voi/verifharness/lib"
	"gitlab.com/yawning/secp256k1-voi/verifharness/ref"
	"gitlab.com/yawning/secp256k1-voi/verifharness/stat"
)

var entries = []string{"ScalarMult", "ScalarMult", "DoubleScalarMultBasepointVartime(0,s,P)", "MultiScalarMult([s],[P])",
	"MultiScalarMultVartime([s],[P])", "scalarMultVartimeGLV"}

func represent(t *rapid.T, p ref.Pt, label string) (*secp256k1.Point, string) {
	switch rapid.IntRange(0, 2).Draw(t, label+"_kind") {
	case 0:
		return lib.Pt(p), "affine"
	case 1:
		v := secp256k1.NewIdentityPoint().Add(lib.Pt(p), secp256k1.NewGeneratorPoint())
		return v.Subtract(v, secp256k1.NewGeneratorPoint()), "derived"
	default:
		return lib.Representative(p, gen.Scale(t, label+"_scale")), "scaled"
	}
}

func sibling(p ref.Pt, second bool) (*secp256k1.Point, ref.Pt, bool) {
	return lib.SiblingRepresentative(p, second)
}

func hookEntry(entry string, rcv *secp256k1.Point, s *secp256k1.Scalar, p *secp256k1.Point) *secp256k1.Point {
	return rcv.VerifScalarMultVartimeGLV(s, p)
}

func checkCoords(t *rapid.T, what string, p *secp256k1.Point) {
	if !lib.CoordsOK(p) {
		t.Fatalf("%s: result coordinates off the curve", what)
	}
}

var two128 = new(big.Int).Lsh(big.NewInt(1), 128)

// propSplit checks the split invariants for steered scalars (no point
// arithmetic, so it is cheap and runs at high volume).
func propSplit(t *rapid.T) {
	s, kind := gen.GLVScalar(t, "s")
	cl, nt := splitClasses(s)
	cl = append(cl, "scalar:"+kind)
	stat.Case("split", cl, nt || kind != gen.GLVGeneral, []byte(fmt.Sprintf("split|%x", s)), func() any {
		return map[string]any{"s": s.Text(16), "scalar_kind": kind}
	})
	ls := lib.Sc(s)
	k1s, k2s := ls.VerifSplitGLV()
	if lib.ScInt(ls).Cmp(s) != 0 {
		t.Fatal("splitGLV modified its receiver")
	}
	k1, k2 := lib.ScInt(k1s), lib.ScInt(k2s)
	if ref.AddM(k1, ref.MulM(k2, ref.Lambda, ref.N), ref.N).Cmp(s) != 0 {
		t.Fatalf("split(%x) = (%x,%x) does not recombine", s, k1, k2)
	}
	if ref.AbsN(k1).Cmp(two128) >= 0 || ref.AbsN(k2).Cmp(two128) >= 0 {
		t.Fatalf("split(%x): a half does not fit 128 bits: |k1|=%x |k2|=%x", s, ref.AbsN(k1), ref.AbsN(k2))
	}
}

func TestC04_Split(t *testing.T) { rapid.Check(t, propSplit) }

// propMulShift checks mulGFlooredDiv on arbitrary operands.
func propMulShift(t *rapid.T) {
	var k, g *big.Int
	mode := gen.Sampled([]string{"steered", "limbs", "general"}).Draw(t, "mode")
	switch mode {
	case "steered":
		k, _ = gen.GLVScalar(t, "k")
		g = gen.Sampled([]*big.Int{ref.GLVg1, ref.GLVg2}).Draw(t, "g")
	case "limbs":
		k = ref.Mod(gen.LimbPattern(t, "k"), ref.N)
		g = ref.Mod(gen.LimbPattern(t, "g"), ref.N)
	default:
		k, g = gen.Int256(t, ref.N, "k"), gen.Int256(t, ref.N, "g")
	}
	pr := new(big.Int).Mul(k, g)
	want := ref.MulShift384Round(k, g)
	cl := []string{"mode:" + mode}
	nt := mode != "general"
	if pr.Bit(383) == 1 {
		cl = append(cl, "round-up")
		low := new(big.Int).Rsh(pr, 384)
		low.And(low, new(big.Int).SetUint64(^uint64(0)))
		if low.Uint64() == ^uint64(0) {
			cl, nt = append(cl, "carry-across-limb"), true
		}
	}
	stat.Case("mulshift", cl, nt, []byte(fmt.Sprintf("ms|%x|%x", k, g)), func() any {
		return map[string]any{"k": k.Text(16), "g": g.Text(16), "mode": mode}
	})
	alias := rapid.IntRange(0, 2).Draw(t, "alias")
	lk, lg := lib.Sc(k), lib.Sc(g)
	rcv := secp256k1.NewScalar()
	switch alias {
	case 1:
		rcv = lk
	case 2:
		rcv = lg
	}
	rcv.VerifMulGFlooredDiv(lk, lg)
	if got := lib.ScInt(rcv); got.Cmp(want) != 0 {
		t.Fatalf("mulGFlooredDiv(%x,%x) = %x want %x", k, g, got, want)
	}
}

func TestC04_MulShift(t *testing.T) { rapid.Check(t, propMulShift) }

// TestC04_Constants checks the endomorphism constants through the library.
func TestC04_Constants(t *testing.T) {
	g := secp256k1.NewGeneratorPoint()
	lg := secp256k1.NewIdentityPoint().ScalarMult(lib.Sc(ref.Lambda), g)
	mb := secp256k1.NewIdentityPoint().VerifMulBeta(g)
	stat.Case("constants", nil, true, []byte("lambdaG"), func() any { return "lambda*G == mulBeta(G)" })
	stat.Case("constants", nil, true, []byte("betaX"), func() any { return "beta*x(G) == x(lambda*G)" })
	if lg.Equal(mb) != 1 {
		t.Fatal("lambda*G != (beta*x, y)")
	}
	want := ref.G().Mul(ref.Lambda)
	if got, _ := lib.PtRef(mb); !got.Eq(want) {
		t.Fatal("mulBeta(G) disagrees with the reference")
	}
}
