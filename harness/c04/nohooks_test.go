//go:build !verif

package c04

import (
	"pgregory.net/rapid"

	secp256k1 "gitlab.com/yawning/secp256k1-voi"
	"gitlab.com/yawning/secp256k1-voi/verifharness/lib"
	"gitlab.com/yawning/secp256k1-voi/verifharness/ref"
)

var entries = []string{"ScalarMult", "ScalarMult", "DoubleScalarMultBasepointVartime(0,s,P)", "MultiScalarMult([s],[P])", "MultiScalarMultVartime([s],[P])"}

func represent(t *rapid.T, p ref.Pt, label string) (*secp256k1.Point, string) {
	if rapid.Bool().Draw(t, label+"_derived") {
		v := secp256k1.NewIdentityPoint().Add(lib.Pt(p), secp256k1.NewGeneratorPoint())
		return v.Subtract(v, secp256k1.NewGeneratorPoint()), "derived"
	}
	return lib.Pt(p), "affine"
}

func sibling(ref.Pt, bool) (*secp256k1.Point, ref.Pt, bool) { return nil, ref.Pt{}, false }

func hookEntry(string, *secp256k1.Point, *secp256k1.Scalar, *secp256k1.Point) *secp256k1.Point {
	panic("no hooks")
}

func checkCoords(*rapid.T, string, *secp256k1.Point) {}
