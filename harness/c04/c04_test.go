// Package c04: variable-base scalar multiplication returns s*P for every
// scalar and point; the GLV split always fits the 128-bit window.
package c04

import (
	"bytes"
	"crypto/sha256"
	"fmt"
	"math/big"
	"testing"

	"pgregory.net/rapid"

	secp256k1 "gitlab.com/yawning/secp256k1-voi"
	"gitlab.com/yawning/secp256k1-voi/verifharness/gen"
	"gitlab.com/yawning/secp256k1-voi/verifharness/lib"
	"gitlab.com/yawning/secp256k1-voi/verifharness/ref"
	"gitlab.com/yawning/secp256k1-voi/verifharness/stat"
)

func TestMain(m *testing.M) { stat.Main(m) }

var two127 = new(big.Int).Lsh(big.NewInt(1), 127)

// splitClasses classifies s by the reference split (model side).
func splitClasses(s *big.Int) (cl []string, nontrivial bool) {
	k1, k2 := ref.SplitGLV(s)
	a1, a2 := ref.AbsN(k1), ref.AbsN(k2)
	if a1.Cmp(two127) >= 0 || a2.Cmp(two127) >= 0 {
		cl, nontrivial = append(cl, "half-bit127"), true
	}
	if a1.Cmp(k1) != 0 {
		cl = append(cl, "k1<0")
	}
	if a2.Cmp(k2) != 0 {
		cl = append(cl, "k2<0")
	}
	for _, g := range []*big.Int{ref.GLVg1, ref.GLVg2} {
		pr := new(big.Int).Mul(s, g)
		if pr.Bit(383) == 1 {
			low := new(big.Int).Rsh(pr, 384)
			low.And(low, new(big.Int).SetUint64(^uint64(0)))
			if low.IsUint64() && low.Uint64() == ^uint64(0) {
				cl, nontrivial = append(cl, "rounding-carry-across-limb"), true
			}
		}
	}
	return
}

func propScalarMult(t *rapid.T) {
	s, kind := gen.GLVScalar(t, "s")
	pc := gen.Point(t, "P")
	entry := gen.Sampled(entries).Draw(t, "entry")
	alias := rapid.Bool().Draw(t, "alias") // receiver aliases P
	lp, rep := represent(t, pc.P, "rep")
	ls := lib.Sc(s)
	rcv, rk := lib.Receiver(rapid.IntRange(0, lib.ReceiverKinds-1).Draw(t, "rcv"))
	if alias {
		rcv, rk = lp, "aliases-P"
	}
	cl, nt := splitClasses(s)
	cl = append(cl, "scalar:"+kind, "point:"+pc.Desc, "entry:"+entry, "rep:"+rep, "receiver:"+rk)
	if alias {
		cl = append(cl, "alias")
	}
	want := pc.P.Mul(s)
	if want.Inf {
		cl = append(cl, "result=O")
	}
	nt = nt || kind != gen.GLVGeneral || pc.P.Inf || alias || rep != "affine"
	stat.Case("scalarmult", cl, nt, []byte(fmt.Sprintf("%s|%x|%x|%v|%s", entry, s, pc.P.Uncompressed(), alias, rep)), func() any {
		return map[string]any{"entry": entry, "s": s.Text(16), "scalar_kind": kind, "P": pc.P.String(), "alias": alias, "rep": rep}
	})
	var ret *secp256k1.Point
	switch entry {
	case "ScalarMult":
		ret = rcv.ScalarMult(ls, lp)
	case "DoubleScalarMultBasepointVartime(0,s,P)":
		ret = rcv.DoubleScalarMultBasepointVartime(secp256k1.NewScalar(), ls, lp)
	case "MultiScalarMult([s],[P])":
		ret = rcv.MultiScalarMult([]*secp256k1.Scalar{ls}, []*secp256k1.Point{lp})
	case "MultiScalarMultVartime([s],[P])":
		ret = rcv.MultiScalarMultVartime([]*secp256k1.Scalar{ls}, []*secp256k1.Point{lp})
	default:
		ret = hookEntry(entry, rcv, ls, lp)
	}
	if ret != rcv {
		t.Fatalf("%s: returned pointer is not the receiver", entry)
	}
	if got := rcv.UncompressedBytes(); !bytes.Equal(got, want.Uncompressed()) {
		t.Fatalf("%s(s=%x [%s], P=%v [%s], alias=%v): got %x want %v", entry, s, kind, pc.P, rep, alias, got, want)
	}
	checkCoords(t, entry, rcv)
	if lib.ScInt(ls).Cmp(s) != 0 {
		t.Fatalf("%s modified its scalar argument", entry)
	}
	if !alias && !bytes.Equal(lp.UncompressedBytes(), pc.P.Uncompressed()) {
		t.Fatalf("%s modified its point argument", entry)
	}
}

func TestC04_ScalarMult(t *testing.T) { rapid.Check(t, propScalarMult) }

// TestC04_SingleNibble enumerates every scalar whose split has exactly one
// non-zero nibble in one half: (+-d*16^i) and (+-d*16^i)*lambda, i<32, d in 1..15.
func TestC04_SingleNibble(t *testing.T) {
	g := ref.BaseMul(big.NewInt(0xbeef))
	lg := lib.Pt(g)
	cnt := 0
	for second := 0; second < 2; second++ {
		for i := 0; i < 32; i++ {
			for d := 1; d <= 15; d++ {
				for neg := 0; neg < 2; neg++ {
					h := new(big.Int).Lsh(big.NewInt(int64(d)), uint(4*i))
					if neg == 1 {
						h.Neg(h)
					}
					if second == 1 {
						h.Mul(h, ref.Lambda)
					}
					s := ref.Mod(h, ref.N)
					want := g.Mul(s)
					got := secp256k1.NewIdentityPoint().ScalarMult(lib.Sc(s), lg)
					gotV := secp256k1.NewIdentityPoint().DoubleScalarMultBasepointVartime(secp256k1.NewScalar(), lib.Sc(s), lg)
					stat.Case("single-nibble", []string{fmt.Sprintf("half:%d", second+1)}, true, s.Bytes(), func() any {
						return map[string]any{"s": s.Text(16), "half": second + 1, "nibble": i, "digit": d, "negated": neg == 1}
					})
					if !bytes.Equal(got.UncompressedBytes(), want.Uncompressed()) || !bytes.Equal(gotV.UncompressedBytes(), want.Uncompressed()) {
						t.Fatalf("single-nibble scalar %x (half %d, nibble %d, digit %d, neg %d): wrong product", s, second+1, i, d, neg)
					}
					cnt++
				}
			}
		}
	}
	stat.Exhaustive("single-nibble")
	if cnt != 2*32*15*2 {
		t.Fatalf("enumeration incomplete: %d", cnt)
	}
}

// TestC04_PowersOfTwo enumerates s = 2^k + d for every k in 0..256 and d in
// {-1, 0, 1} (reduced mod n) through every public single-scalar entry point:
// the exact limb / half-width boundaries (2^64, 2^128, 2^192, ...) are where
// short-scalar fast paths and width checks go wrong, and random or
// boundary-"biased" draws hit an exact 2^k only occasionally.
func TestC04_PowersOfTwo(t *testing.T) {
	g := ref.BaseMul(big.NewInt(0xfeed))
	lg := lib.Pt(g)
	zero := secp256k1.NewScalar()
	cnt := 0
	for k := 0; k <= 256; k++ {
		for d := -1; d <= 1; d++ {
			s := new(big.Int).Lsh(big.NewInt(1), uint(k))
			s.Add(s, big.NewInt(int64(d)))
			s = ref.Mod(s, ref.N)
			want := g.Mul(s).Uncompressed()
			ls := lib.Sc(s)
			got := map[string]*secp256k1.Point{
				"ScalarMult":                       secp256k1.NewIdentityPoint().ScalarMult(ls, lg),
				"DoubleScalarMultBasepointVartime": secp256k1.NewIdentityPoint().DoubleScalarMultBasepointVartime(zero, ls, lg),
				"MultiScalarMult":                  secp256k1.NewIdentityPoint().MultiScalarMult([]*secp256k1.Scalar{ls}, []*secp256k1.Point{lg}),
				"MultiScalarMultVartime":           secp256k1.NewIdentityPoint().MultiScalarMultVartime([]*secp256k1.Scalar{ls}, []*secp256k1.Point{lg}),
				"MultiScalarMultVartime(2 terms)":  secp256k1.NewIdentityPoint().MultiScalarMultVartime([]*secp256k1.Scalar{ls, zero}, []*secp256k1.Point{lg, lg}),
			}
			for name, p := range got {
				if !bytes.Equal(p.UncompressedBytes(), want) {
					t.Fatalf("%s(s = 2^%d%+d = %x, P): got %x want %x", name, k, d, s, p.UncompressedBytes(), want)
				}
			}
			stat.Case("powers-of-two", []string{fmt.Sprintf("d=%+d", d)}, true, s.Bytes(), func() any {
				return map[string]any{"s": s.Text(16), "k": k, "d": d}
			})
			cnt++
		}
	}
	stat.Exhaustive("powers-of-two")
	if cnt != 257*3 {
		t.Fatalf("enumeration incomplete: %d", cnt)
	}
}

// propDifferentialVolume: the volume tier for variable-base multiplication
// (same idea as C05's).  Each drawn seed is expanded into a batch of scalars
// and a base point, and four library code paths that share little code are
// compared per scalar: constant-time GLV (ScalarMult), variable-time GLV
// (DoubleScalarMultBasepointVartime with u1 = 0), and the two multi-scalar
// routines with a second, zero term, which do NOT use the GLV split (full
// 256-bit windowed walk).  The first scalar of every batch is also compared
// with the reference.
func propDifferentialVolume(t *rapid.T) {
	seed := gen.Bytes(t, 32, 32, "seed")
	const batch = 32
	hp := sha256.Sum256(append([]byte("verif/c04/volume/point"), seed...))
	pScalar := ref.Mod(ref.Int(hp[:]), ref.N)
	if pScalar.Sign() == 0 {
		pScalar.SetInt64(1)
	}
	p := secp256k1.NewIdentityPoint().ScalarBaseMult(lib.Sc(pScalar))
	if seed[0]&3 == 0 { // a non-affine representative
		p.Add(p, secp256k1.NewGeneratorPoint())
		pScalar = ref.Mod(new(big.Int).Add(pScalar, big.NewInt(1)), ref.N)
	}
	g := secp256k1.NewGeneratorPoint()
	zero := secp256k1.NewScalar()
	for i := 0; i < batch; i++ {
		h := sha256.Sum256(append(append([]byte("verif/c04/volume"), seed...), byte(i)))
		if i%8 == 7 {
			for j := range h {
				if h[(j+1)%32]&3 != 0 {
					h[j] = 0
				}
			}
		}
		s := ref.Mod(ref.Int(h[:]), ref.N)
		ls := lib.Sc(s)
		a := secp256k1.NewIdentityPoint().ScalarMult(ls, p).UncompressedBytes()
		b := secp256k1.NewIdentityPoint().DoubleScalarMultBasepointVartime(zero, ls, p).UncompressedBytes()
		c := secp256k1.NewIdentityPoint().MultiScalarMult([]*secp256k1.Scalar{ls, zero}, []*secp256k1.Point{p, g}).UncompressedBytes()
		d := secp256k1.NewIdentityPoint().MultiScalarMultVartime([]*secp256k1.Scalar{zero, ls}, []*secp256k1.Point{g, p}).UncompressedBytes()
		if !bytes.Equal(a, b) || !bytes.Equal(a, c) || !bytes.Equal(a, d) {
			t.Fatalf("s=%x P=%x: ScalarMult=%x vartime-GLV=%x MultiScalarMult=%x MultiScalarMultVartime=%x", s, p.UncompressedBytes(), a, b, c, d)
		}
		if i == 0 {
			if want := ref.BaseMul(ref.MulM(s, pScalar, ref.N)).Uncompressed(); !bytes.Equal(a, want) {
				t.Fatalf("s=%x P=%x: all library paths agree on %x but the reference says %x", s, p.UncompressedBytes(), a, want)
			}
		}
	}
	stat.Case("differential-volume", []string{fmt.Sprintf("batch:%d", batch)}, true, seed, func() any {
		return map[string]any{"seed": stat.Hex(seed), "scalars_in_batch": batch}
	})
	stat.Note("differential-volume", fmt.Sprintf("each evaluation is a batch of %d scalars and one base point expanded from the drawn seed", batch))
}

func TestC04_DifferentialVolume(t *testing.T) { rapid.Check(t, propDifferentialVolume) }

// propSequence: several multiplications in a row on *related* points (the
// same point again, its images under the endomorphism, which share y; its
// negation, which shares x; its double) through drawn entry points.  Any
// state carried from one call to the next -- a memoised table, a reused
// scratch buffer -- shows up as a wrong product on the second or third call
// even though every call is correct in isolation.
func propSequence(t *rapid.T) {
	cur := gen.NonIdentityPoint(t, "P").P
	n := rapid.IntRange(2, 5).Draw(t, "calls")
	var trace []string
	rels := map[string]int{}
	affinePrev := false
	reuseScalar := rapid.Bool().Draw(t, "one-scalar-object")
	var sObj *secp256k1.Scalar
	for i := 0; i < n; i++ {
		rel := gen.Sampled([]string{"same", "lambda", "lambda", "lambda^2", "neg", "neg-lambda", "double", "plus-G", "fresh", "sibling-rep", "sibling-rep"}).Draw(t, fmt.Sprintf("rel%d", i))
		if i == 0 {
			rel = "first"
		}
		pt := cur
		var given *secp256k1.Point
		switch rel {
		case "sibling-rep":
			// hooks only: another group element whose raw X and Y equal the previous point's affine x and y
			// (the previous call got the affine object), so anything keyed on part of the representation
			// takes one for the other
			if g, q, ok := sibling(cur, rapid.Bool().Draw(t, fmt.Sprintf("sib%d", i))); ok && affinePrev {
				given, pt = g, q
			} else {
				rel = "same"
			}
		case "lambda":
			pt = ref.Pt{X: ref.MulM(cur.X, ref.Beta, ref.P), Y: new(big.Int).Set(cur.Y)}
		case "lambda^2":
			pt = ref.Pt{X: ref.MulM(ref.MulM(cur.X, ref.Beta, ref.P), ref.Beta, ref.P), Y: new(big.Int).Set(cur.Y)}
		case "neg":
			pt = cur.Neg()
		case "neg-lambda":
			pt = ref.Pt{X: ref.MulM(cur.X, ref.Beta, ref.P), Y: ref.NegM(cur.Y, ref.P)}
		case "double":
			pt = cur.Double()
		case "plus-G":
			pt = cur.Add(ref.G())
		case "fresh":
			pt = gen.NonIdentityPoint(t, fmt.Sprintf("P%d", i)).P
		}
		if pt.Inf {
			pt = ref.G()
		}
		rels[rel]++
		s, kind := gen.GLVScalar(t, fmt.Sprintf("s%d", i))
		entry := gen.Sampled(publicEntries).Draw(t, fmt.Sprintf("entry%d", i))
		lp, ls := lib.Pt(pt), lib.Sc(s)
		if given != nil {
			lp = given
		}
		// Half of the sequences keep ONE scalar object and bring it to the next value in place, through a
		// drawn mutator (callers update accumulators and blinded exponents in place): whatever a scalar
		// object remembers about an earlier multiplication must not outlive its value.
		if reuseScalar {
			if sObj == nil {
				sObj = secp256k1.NewScalarFrom(ls)
			} else {
				how := gen.Sampled([]string{"Set", "ConditionalSelect", "ConditionalNegate", "Negate", "Add", "Multiply", "SetCanonicalBytes", "Subtract"}).Draw(t, fmt.Sprintf("scalar-update%d", i))
				old := lib.ScInt(sObj)
				switch how {
				case "Set":
					sObj.Set(ls)
				case "ConditionalSelect":
					sObj.ConditionalSelect(sObj, ls, 1)
				case "ConditionalNegate":
					sObj.ConditionalNegate(lib.Sc(ref.NegM(s, ref.N)), 1)
				case "Negate":
					sObj.Negate(lib.Sc(ref.NegM(s, ref.N)))
				case "Add":
					sObj.Add(sObj, lib.Sc(ref.SubM(s, old, ref.N)))
				case "Subtract":
					sObj.Subtract(sObj, lib.Sc(ref.SubM(old, s, ref.N)))
				case "Multiply":
					if old.Sign() != 0 {
						sObj.Multiply(sObj, lib.Sc(ref.MulM(s, ref.Inv0(old, ref.N), ref.N)))
					} else {
						sObj.Set(ls)
					}
				default:
					if _, err := sObj.SetCanonicalBytes((*[32]byte)(ref.B32(s))); err != nil {
						t.Fatalf("SetCanonicalBytes(%x): %v", s, err)
					}
				}
				rels["scalar-object-updated-in-place:"+how]++
			}
			if got := lib.ScInt(sObj); got.Cmp(s) != 0 {
				t.Fatalf("harness: scalar object holds %x, want %x", got, s)
			}
			ls = sObj
		}
		affinePrev = true
		if rapid.IntRange(0, 3).Draw(t, fmt.Sprintf("faulted-before%d", i)) == 0 {
			// a call that cannot complete (recovered by the caller) comes first: whatever scratch state it
			// left half-used must not reach the call that follows
			trace = append(trace, lib.FaultedMultiplication(t, fmt.Sprintf("f%d", i), ls, lp))
			rels["after-faulted-call"]++
		}
		rcv := secp256k1.NewIdentityPoint()
		switch entry {
		case "ScalarMult":
			rcv.ScalarMult(ls, lp)
		case "DoubleScalarMultBasepointVartime(0,s,P)":
			rcv.DoubleScalarMultBasepointVartime(secp256k1.NewScalar(), ls, lp)
		case "MultiScalarMult([s],[P])":
			rcv.MultiScalarMult([]*secp256k1.Scalar{ls}, []*secp256k1.Point{lp})
		default:
			rcv.MultiScalarMultVartime([]*secp256k1.Scalar{ls}, []*secp256k1.Point{lp})
		}
		trace = append(trace, fmt.Sprintf("%s(%s point, %s scalar)", entry, rel, kind))
		if want := pt.Mul(s); !bytes.Equal(rcv.UncompressedBytes(), want.Uncompressed()) {
			t.Fatalf("call %d of the sequence %v: %s(s=%x, P=%v) = %x, want %v", i+1, trace, entry, s, pt, rcv.UncompressedBytes(), want)
		}
		cur = pt
	}
	cl := []string{fmt.Sprintf("calls:%d", n)}
	for r := range rels {
		cl = append(cl, "rel:"+r)
	}
	stat.Case("sequence", cl, rels["lambda"]+rels["lambda^2"]+rels["neg"]+rels["neg-lambda"]+rels["same"]+rels["sibling-rep"]+rels["after-faulted-call"] > 0, []byte(fmt.Sprintf("%v|%x", trace, cur.Uncompressed())), func() any {
		return map[string]any{"calls": trace}
	})
}

var publicEntries = []string{"ScalarMult", "DoubleScalarMultBasepointVartime(0,s,P)", "MultiScalarMult([s],[P])", "MultiScalarMultVartime([s],[P])"}

func TestC04_Sequence(t *testing.T) { rapid.Check(t, propSequence) }
