// Command structsearch builds the "structured hash output" corpora.
//
// Several secret or public intermediates of the library come straight out of
// a hash (the BIP-340 nonce hash and challenge hash, the RFC 6979 HMAC
// candidates).  They cannot be steered by the generators the way operands
// can, so code that mishandles an output with a particular *shape* -- many
// leading zero bits, a zero 32-bit half word, two 64-bit words that share no
// set bit (an AND written where an OR was meant), two words that are nearly
// equal -- survives any amount of random signing: the shapes have
// probability 2^-26 .. 2^-32 each.  This program finds inputs whose hash has
// such a shape, by brute force over a counter in the message, once; the hits
// are kept under testdata and replayed by the C09/C13/C14 corpus tests
// against the big-integer reference signers.
//
//	structsearch -mode bip340-nonce     -> lines "bip340-nonce <class> <d'> <aux> <msg>"
//	structsearch -mode bip340-challenge -> lines "bip340-challenge <class> <d'> <k'> <msg>"
//	structsearch -mode rfc6979 [-cheap] -> lines "rfc6979 <class> <d> <digest>"
//
// The shape classes are listed in shapes(); the search stops when every
// class has -per hits or after -max trials.
package main

import (
	"crypto/sha256"
	"encoding"
	"encoding/binary"
	"flag"
	"fmt"
	"hash"
	"math/big"
	"math/bits"
	"os"
	"sort"
	"sync"
	"sync/atomic"

	"gitlab.com/yawning/secp256k1-voi/verifharness/ref"
)

// shapes returns the rare-shape classes a 32-byte big-endian value belongs to.
// cheap restricts to the ~2^-27 classes.
func shapes(h *[32]byte, cheap bool, out []string) []string {
	out = out[:0]
	var w [4]uint64
	for i := range w {
		w[i] = binary.BigEndian.Uint64(h[8*i:])
	}
	for i := 0; i < 4; i++ {
		for j := i + 1; j < 4; j++ {
			if w[i]&w[j] == 0 {
				out = append(out, fmt.Sprintf("and0:%d,%d", i, j))
			}
			if w[i]|w[j] == ^uint64(0) {
				out = append(out, fmt.Sprintf("or1:%d,%d", i, j))
			}
		}
	}
	if cheap {
		if bits.LeadingZeros64(w[0]) >= 26 {
			out = append(out, "lz26")
		}
		return out
	}
	for i := 0; i < 4; i++ {
		hi, lo := uint32(w[i]>>32), uint32(w[i])
		if hi == 0 {
			out = append(out, fmt.Sprintf("hi32zero:%d", i))
		}
		if lo == 0 {
			out = append(out, fmt.Sprintf("lo32zero:%d", i))
		}
		if hi == ^uint32(0) {
			out = append(out, fmt.Sprintf("hi32ones:%d", i))
		}
		if lo == ^uint32(0) {
			out = append(out, fmt.Sprintf("lo32ones:%d", i))
		}
		if hi == lo {
			out = append(out, fmt.Sprintf("eqhalf:%d", i))
		}
		if i < 3 && (w[i]^w[i+1])>>32 == 0 {
			out = append(out, fmt.Sprintf("near-equal:%d,%d", i, i+1))
		}
	}
	return out
}

func allClasses(cheap bool) []string {
	var cls []string
	for i := 0; i < 4; i++ {
		for j := i + 1; j < 4; j++ {
			cls = append(cls, fmt.Sprintf("and0:%d,%d", i, j), fmt.Sprintf("or1:%d,%d", i, j))
		}
	}
	if cheap {
		return append(cls, "lz26")
	}
	for i := 0; i < 4; i++ {
		for _, n := range []string{"hi32zero", "lo32zero", "hi32ones", "lo32ones", "eqhalf"} {
			cls = append(cls, fmt.Sprintf("%s:%d", n, i))
		}
		if i < 3 {
			cls = append(cls, fmt.Sprintf("near-equal:%d,%d", i, i+1))
		}
	}
	return cls
}

type midstate struct {
	h     hash.Hash
	state []byte
}

func newMid(prefix ...[]byte) *midstate {
	h := sha256.New()
	for _, p := range prefix {
		h.Write(p)
	}
	st, err := h.(encoding.BinaryMarshaler).MarshalBinary()
	if err != nil {
		panic(err)
	}
	return &midstate{sha256.New(), st}
}

func (m *midstate) clone() *midstate { return &midstate{sha256.New(), m.state} }

func (m *midstate) sum(out *[32]byte, parts ...[]byte) {
	if err := m.h.(encoding.BinaryUnmarshaler).UnmarshalBinary(m.state); err != nil {
		panic(err)
	}
	for _, p := range parts {
		m.h.Write(p)
	}
	m.h.Sum(out[:0])
}

func tagPrefix(tag string) []byte {
	t := sha256.Sum256([]byte(tag))
	return append(append([]byte(nil), t[:]...), t[:]...)
}

func main() {
	mode := flag.String("mode", "bip340-nonce", "bip340-nonce | bip340-challenge | rfc6979")
	workers := flag.Int("workers", 16, "")
	max := flag.Uint64("max", 1<<36, "give up after this many trials")
	per := flag.Int("per", 1, "hits wanted per class")
	cheap := flag.Bool("cheap", false, "only the ~2^-27 classes")
	flag.Parse()

	want := map[string]int{}
	for _, c := range allClasses(*cheap) {
		want[c] = *per
	}
	var mu sync.Mutex
	remaining := len(want)
	var done atomic.Bool
	emit := func(cls []string, line func(string) string) {
		mu.Lock()
		defer mu.Unlock()
		for _, c := range cls {
			if want[c] > 0 {
				want[c]--
				fmt.Println(line(c))
				if want[c] == 0 {
					remaining--
				}
			}
		}
		if remaining == 0 {
			done.Store(true)
		}
	}

	// fixed key material (two keys: one with even-y and one with odd-y public key are found below)
	keyA := ref.Mod(ref.Int(sum256([]byte("verif/structsearch/key/A"))), ref.N)
	keyB := ref.Mod(ref.Int(sum256([]byte("verif/structsearch/key/B"))), ref.N)
	keys := []*big.Int{keyA, keyB, big.NewInt(1), new(big.Int).Sub(ref.N, big.NewInt(1))}
	aux := sum256([]byte("verif/structsearch/aux"))
	kFixed := ref.Mod(ref.Int(sum256([]byte("verif/structsearch/nonce"))), ref.N)

	var ctr atomic.Uint64
	var wg sync.WaitGroup
	for w := 0; w < *workers; w++ {
		wg.Add(1)
		go func() {
			defer wg.Done()
			var out [32]byte
			var cls []string
			msg := append([]byte("verif/structsearch/msg:"), make([]byte, 9)...) // 32 bytes: 23 + key index + counter
			// per-key precomputation
			type pre struct {
				d    *big.Int
				mid  *midstate
				desc [2][]byte
			}
			var pres []pre
			for _, d := range keys {
				P := ref.BaseMul(d)
				dd := new(big.Int).Set(d)
				if P.Y.Bit(0) == 1 {
					dd.Sub(ref.N, dd)
				}
				px := ref.B32(P.X)
				switch *mode {
				case "bip340-nonce":
					t := ref.B32(dd)
					ha := ref.TaggedHash("BIP0340/aux", aux)
					for i := range t {
						t[i] ^= ha[i]
					}
					pres = append(pres, pre{d: dd, mid: newMid(tagPrefix("BIP0340/nonce"), t, px), desc: [2][]byte{ref.B32(dd), aux}})
				case "bip340-challenge":
					// fixed nonce k' -> R; the signer negates k for odd y(R), R.x is what is hashed
					R := ref.BaseMul(kFixed)
					pres = append(pres, pre{d: dd, mid: newMid(tagPrefix("BIP0340/challenge"), ref.B32(R.X), px), desc: [2][]byte{ref.B32(dd), ref.B32(kFixed)}})
				case "rfc6979":
					pres = append(pres, pre{d: d})
				}
			}
			for !done.Load() {
				base := ctr.Add(1 << 16)
				if base > *max {
					return
				}
				for i := base - 1<<16; i < base; i++ {
					ki := int(i % uint64(len(pres)))
					p := &pres[ki]
					msg[23] = byte(ki)
					binary.BigEndian.PutUint64(msg[24:], i)
					switch *mode {
					case "rfc6979":
						digest := sha256.Sum256(msg)
						out = fastFirstCandidate(p.d, digest[:])
						if cls = shapes(&out, *cheap, cls); len(cls) > 0 {
							if k := ref.NewRFC6979(p.d, digest[:]).Next(); string(k) != string(out[:]) {
								panic("fast path disagrees with the reference generator")
							}
							d, dg, k := ref.B32(p.d), digest, out
							emit(cls, func(c string) string { return fmt.Sprintf("rfc6979 %s %x %x %x", c, d, dg, k) })
						}
					default:
						p.mid.sum(&out, msg)
						if cls = shapes(&out, *cheap, cls); len(cls) > 0 {
							m, h := append([]byte(nil), msg...), out
							emit(cls, func(c string) string {
								return fmt.Sprintf("%s %s %x %x %x %x", *mode, c, p.desc[0], p.desc[1], m, h)
							})
						}
					}
				}
			}
		}()
	}
	wg.Wait()
	var missing []string
	for c, n := range want {
		if n > 0 {
			missing = append(missing, c)
		}
	}
	sort.Strings(missing)
	fmt.Fprintf(os.Stderr, "trials: %d, classes without a hit: %v\n", ctr.Load(), missing)
}

func sum256(b []byte) []byte { h := sha256.Sum256(b); return h[:] }

// hmacSHA256 with a 32-byte key.
func hmac32(key *[32]byte, parts ...[]byte) [32]byte {
	var ipad, opad [64]byte
	for i := 0; i < 32; i++ {
		ipad[i], opad[i] = key[i]^0x36, key[i]^0x5c
	}
	for i := 32; i < 64; i++ {
		ipad[i], opad[i] = 0x36, 0x5c
	}
	h := sha256.New()
	h.Write(ipad[:])
	for _, p := range parts {
		h.Write(p)
	}
	var inner [32]byte
	h.Sum(inner[:0])
	h.Reset()
	h.Write(opad[:])
	h.Write(inner[:])
	var out [32]byte
	h.Sum(out[:0])
	return out
}

func fastFirstCandidate(d *big.Int, digest []byte) [32]byte {
	x := ref.B32(d)
	h1 := ref.B32(ref.Mod(ref.Int(digest), ref.N)) // bits2octets
	var k, v [32]byte
	for i := range v {
		v[i] = 1
	}
	k = hmac32(&k, v[:], []byte{0}, x, h1)
	v = hmac32(&k, v[:])
	k = hmac32(&k, v[:], []byte{1}, x, h1)
	v = hmac32(&k, v[:])
	return hmac32(&k, v[:])
}
