//go:build opcover && !optrace

package main

import (
	"bytes"
	"crypto/sha256"
	"encoding/hex"
	"os"
	"path/filepath"
	"runtime/coverage"
)

func buildInfo() string { return "cover " + tagsInfo() }

// bracket runs f between ClearCounters and WriteCounters and returns a hash of
// the counters of exactly that call.
func bracket(f func(), dumpDir string) string {
	if err := coverage.ClearCounters(); err != nil {
		return "coverr:" + hex.EncodeToString([]byte(err.Error()))
	}
	f()
	var buf bytes.Buffer
	if err := coverage.WriteCounters(&buf); err != nil {
		return "coverr:" + hex.EncodeToString([]byte(err.Error()))
	}
	if dumpDir != "" {
		_ = os.MkdirAll(dumpDir, 0o755)
		_ = coverage.WriteMetaDir(dumpDir)
		// the counter file name must match covcounters.<metahash>.<pid>.<nanotime>
		mh := hex.EncodeToString(buf.Bytes()[8:24])
		_ = os.WriteFile(filepath.Join(dumpDir, "covcounters."+mh+".1.1"), buf.Bytes(), 0o644)
	}
	if h, ok := canonicalCounters(buf.Bytes()); ok {
		return h
	}
	s := sha256.Sum256(buf.Bytes())
	return "raw" + hex.EncodeToString(s[:8])
}
