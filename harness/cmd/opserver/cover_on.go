//go:build opcover && !optrace

package main

import (
	"bytes"
	"crypto/sha256"
	"encoding/hex"
	"math/big"
	"os"
	"path/filepath"
	"runtime/coverage"
)

func buildInfo() string { return "cover " + tagsInfo() }

// bracket runs f between ClearCounters and WriteCounters and returns a hash of
// the counters of exactly that call.
var calibrated bool

//go:noinline
func emptyProbe() int { return len(os.Args) }

//go:noinline
func bigProbe() int {
	a := new(big.Int).SetBytes([]byte{3, 1, 4, 1, 5, 9, 2, 6, 5, 3, 5, 8, 9, 7, 9, 3, 2, 3})
	m := new(big.Int).Lsh(big.NewInt(1), 127)
	m.Sub(m, big.NewInt(1))
	a.Exp(a, big.NewInt(65537), m)
	a.ModInverse(a, m)
	return len(a.FillBytes(make([]byte, 16))) + a.BitLen()
}

// calibrateExt finds the coverage package ids of the instrumented standard
// packages: those that count when only math/big code runs, minus those that
// count for an empty probe (this main package).
func calibrateExt() {
	calibrated = true
	probe := func(f func() int) map[uint32]bool {
		if coverage.ClearCounters() != nil {
			return nil
		}
		sink += byte(f())
		var buf bytes.Buffer
		if coverage.WriteCounters(&buf) != nil {
			return nil
		}
		return counterPackages(buf.Bytes())
	}
	base, withBig := probe(emptyProbe), probe(bigProbe)
	extPk = map[uint32]bool{}
	for pk := range withBig {
		if !base[pk] {
			extPk[pk] = true
		}
	}
}

func bracket(f func(), dumpDir string) string {
	if !calibrated {
		calibrateExt()
	}
	if err := coverage.ClearCounters(); err != nil {
		return "coverr:" + hex.EncodeToString([]byte(err.Error()))
	}
	f()
	var buf bytes.Buffer
	if err := coverage.WriteCounters(&buf); err != nil {
		return "coverr:" + hex.EncodeToString([]byte(err.Error()))
	}
	if dumpDir != "" {
		_ = os.MkdirAll(dumpDir, 0o755)
		_ = coverage.WriteMetaDir(dumpDir)
		// the counter file name must match covcounters.<metahash>.<pid>.<nanotime>
		mh := hex.EncodeToString(buf.Bytes()[8:24])
		_ = os.WriteFile(filepath.Join(dumpDir, "covcounters."+mh+".1.1"), buf.Bytes(), 0o644)
	}
	if h, ok := canonicalCounters(buf.Bytes()); ok {
		return h
	}
	s := sha256.Sum256(buf.Bytes())
	return "raw" + hex.EncodeToString(s[:8])
}
