// Command opserver executes library operations requested over a line
// protocol on stdin/stdout.  It exists so that the same generated cases can
// be run against differently built copies of the library (amd64 assembly vs
// purego: C19) and so that, in a -cover build, the per-basic-block execution
// counters of exactly one library call can be observed (C17).
//
// request:  <op> <hexarg> <hexarg> ...        ("-" encodes an empty argument)
// reply:    ok <covhash|-> <hexresult> ...   |  panic <message>  |  err <message>
package main

import (
	"bufio"
	"bytes"
	"crypto/sha256"
	"encoding/hex"
	"fmt"
	"os"
	"strings"
)

// an op decodes its arguments and returns the closure that performs the
// library call (run inside the coverage bracket) and returns a function that
// renders the result (run outside the bracket).
type opFunc func(args [][]byte) (run func() func() [][]byte, err error)

var ops = map[string]opFunc{}

func register(name string, f opFunc) { ops[name] = f }

func main() {
	in := bufio.NewReaderSize(os.Stdin, 1<<20)
	out := bufio.NewWriter(os.Stdout)
	defer out.Flush()
	for {
		line, err := in.ReadString('\n')
		if len(line) == 0 && err != nil {
			return
		}
		line = strings.TrimSpace(line)
		if line == "" {
			if err != nil {
				return
			}
			continue
		}
		fmt.Fprintln(out, handle(line))
		out.Flush()
		if err != nil {
			return
		}
	}
}

func handle(line string) (reply string) {
	fields := strings.Fields(line)
	name := fields[0]
	switch name {
	case "ping":
		return "ok - " + hex.EncodeToString([]byte(buildInfo()))
	case "ops":
		var names []string
		for n := range ops {
			names = append(names, n)
		}
		return "ok - " + hex.EncodeToString([]byte(strings.Join(names, ",")))
	case "dumpcov":
		// dumpcov <dir-hex> <op> args...: run op once and write meta + counters of that call to dir
		dir, _ := hex.DecodeString(fields[1])
		return runOp(fields[2], fields[3:], string(dir))
	}
	return runOp(name, fields[1:], "")
}

func runOp(name string, hexArgs []string, dumpDir string) (reply string) {
	rcvMode = 0
	if base, mode, found := strings.Cut(name, "@"); found {
		name = base
		if _, err := fmt.Sscanf(mode, "%d", &rcvMode); err != nil {
			return "err bad-receiver-mode"
		}
	}
	f, ok := ops[name]
	if !ok {
		return "err unknown-op:" + name
	}
	args := make([][]byte, len(hexArgs))
	for i, h := range hexArgs {
		if h == "-" {
			args[i] = []byte{}
			continue
		}
		b, err := hex.DecodeString(h)
		if err != nil {
			return "err bad-hex"
		}
		args[i] = b
	}
	var run func() func() [][]byte
	var derr error
	func() {
		defer func() {
			if r := recover(); r != nil {
				derr = fmt.Errorf("decode panic: %v", r)
			}
		}()
		run, derr = f(args)
	}()
	if derr != nil {
		return "err " + strings.ReplaceAll(derr.Error(), "\n", " ")
	}
	var (
		render   func() [][]byte
		panicked any
		cov      string
	)
	maybeStressed(func() {
		cov = bracket(func() {
			defer func() { panicked = recover() }()
			render = run()
		}, dumpDir)
	})
	if panicked != nil {
		return "panic " + strings.ReplaceAll(fmt.Sprint(panicked), "\n", " ")
	}
	var sb strings.Builder
	sb.WriteString("ok ")
	sb.WriteString(cov)
	var res [][]byte
	func() {
		defer func() {
			if r := recover(); r != nil {
				panicked = r
			}
		}()
		res = render()
	}()
	if panicked != nil {
		return "panic (render) " + strings.ReplaceAll(fmt.Sprint(panicked), "\n", " ")
	}
	for _, r := range res {
		sb.WriteByte(' ')
		if len(r) == 0 {
			sb.WriteByte('-')
		} else {
			sb.WriteString(hex.EncodeToString(r))
		}
	}
	return sb.String()
}

// canonicalCounters parses a counter file written by runtime/coverage
// (32-byte file header, 16-byte segment header, string table, args, padding to
// 4 bytes, then per function ULEB128 nCtrs, pkgIdx, funcIdx, counters..., then a
// 16-byte footer) and returns a hash over the functions with at least one
// non-zero counter.  ok=false if the layout is not understood.
// extPk holds the coverage package ids of the standard-library packages the
// cover build instruments in addition to the library (math/big); set by
// calibrateExt in the cover build.  Their counters are hashed separately: an
// operation may legitimately run them on public outputs (DER encoding of r, s),
// so they are compared only where that cannot be the explanation.
var extPk map[uint32]bool

// counterPackages returns the package ids with at least one non-zero counter.
func counterPackages(b []byte) map[uint32]bool {
	out := map[uint32]bool{}
	walkCounters(b, func(pk, fi uint32, counts []uint32) {
		for _, c := range counts {
			if c != 0 {
				out[pk] = true
				return
			}
		}
	})
	return out
}

func canonicalCounters(b []byte) (string, bool) {
	lib, ext := sha256.New(), sha256.New()
	extAny := false
	ok := walkCounters(b, func(pk, fi uint32, counts []uint32) {
		nz := false
		rec := []byte(fmt.Sprintf("%d/%d:", pk, fi))
		for _, c := range counts {
			if c != 0 {
				nz = true
			}
			rec = append(rec, []byte(fmt.Sprintf("%d,", c))...)
		}
		if !nz {
			return
		}
		h := lib
		if extPk[pk] {
			h, extAny = ext, true
		}
		h.Write(rec)
		h.Write([]byte{'\n'})
	})
	if !ok {
		return "", false
	}
	e := "0"
	if extAny {
		e = hex.EncodeToString(ext.Sum(nil)[:8])
	}
	return hex.EncodeToString(lib.Sum(nil)[:16]) + "/" + e, true
}

func walkCounters(b []byte, visit func(pk, fi uint32, counts []uint32)) bool {
	_, ok := walkCountersImpl(b, visit)
	return ok
}

func walkCountersImpl(b []byte, visit func(pk, fi uint32, counts []uint32)) (string, bool) {
	if len(b) < 32+16+16 || !bytes.Equal(b[:4], []byte{0x00, 0x63, 0x77, 0x6d}) {
		return "", false
	}
	flavor := b[24]
	seg := b[32:]
	le32 := func(p []byte) uint32 { return uint32(p[0]) | uint32(p[1])<<8 | uint32(p[2])<<16 | uint32(p[3])<<24 }
	fcn := uint64(le32(seg[0:4])) | uint64(le32(seg[4:8]))<<32
	strLen, argLen := le32(seg[8:12]), le32(seg[12:16])
	off := 32 + 16 + int(strLen) + int(argLen)
	off = (off + 3) &^ 3
	end := len(b) - 16
	if off > end {
		return "", false
	}
	p := b[off:end]
	next := func() (uint32, bool) {
		if flavor == 1 { // raw
			if len(p) < 4 {
				return 0, false
			}
			v := le32(p)
			p = p[4:]
			return v, true
		}
		var v uint32
		var shift uint
		for {
			if len(p) == 0 {
				return 0, false
			}
			c := p[0]
			p = p[1:]
			v |= uint32(c&0x7f) << shift
			if c&0x80 == 0 {
				return v, true
			}
			shift += 7
		}
	}
	var counts []uint32
	for i := uint64(0); i < fcn; i++ {
		n, ok1 := next()
		pk, ok2 := next()
		fi, ok3 := next()
		if !ok1 || !ok2 || !ok3 {
			return "", false
		}
		counts = counts[:0]
		for j := uint32(0); j < n; j++ {
			c, ok := next()
			if !ok {
				return "", false
			}
			counts = append(counts, c)
		}
		visit(pk, fi, counts)
	}
	if len(p) != 0 {
		return "", false
	}
	return "", true
}
