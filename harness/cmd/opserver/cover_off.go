//go:build !opcover && !optrace

package main

func buildInfo() string { return "plain " + tagsInfo() }

func bracket(f func(), _ string) string {
	f()
	return "-"
}
