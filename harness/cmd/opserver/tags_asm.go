//go:build amd64 && !purego

package main

func tagsInfo() string { return "asm" }
