package main

import (
	"bytes"
	"crypto/sha256"
	"encoding/binary"
	"errors"
	"fmt"

	secp256k1 "gitlab.com/yawning/secp256k1-voi"
	"gitlab.com/yawning/secp256k1-voi/internal/field"
	"gitlab.com/yawning/secp256k1-voi/secec"
	"gitlab.com/yawning/secp256k1-voi/secec/bitcoin"
	"gitlab.com/yawning/secp256k1-voi/secec/h2c"
)

func need(args [][]byte, n int) error {
	if len(args) != n {
		return fmt.Errorf("want %d args, got %d", n, len(args))
	}
	return nil
}

func sc(b []byte) (*secp256k1.Scalar, error) {
	if len(b) != 32 {
		return nil, errors.New("scalar must be 32 bytes")
	}
	return secp256k1.NewScalarFromCanonicalBytes((*[32]byte)(b))
}

func fe(b []byte) (*field.Element, error) {
	if len(b) != 32 {
		return nil, errors.New("field element must be 32 bytes")
	}
	return field.NewElementFromCanonicalBytes((*[32]byte)(b))
}

func pt(b []byte) (*secp256k1.Point, error) { return secp256k1.NewPointFromBytes(b) }

func one(b []byte) func() [][]byte { return func() [][]byte { return [][]byte{b} } }

func init() {
	// ---- field / scalar arithmetic (all operands secret) ----
	feBin := func(f func(r, a, b *field.Element)) opFunc {
		return func(args [][]byte) (func() func() [][]byte, error) {
			if err := need(args, 2); err != nil {
				return nil, err
			}
			a, err := fe(args[0])
			if err != nil {
				return nil, err
			}
			b, err := fe(args[1])
			if err != nil {
				return nil, err
			}
			r := field.NewElement()
			return func() func() [][]byte {
				f(r, a, b)
				return func() [][]byte { return [][]byte{r.Bytes()} }
			}, nil
		}
	}
	register("fe.add", feBin(func(r, a, b *field.Element) { r.Add(a, b) }))
	register("fe.sub", feBin(func(r, a, b *field.Element) { r.Subtract(a, b) }))
	register("fe.mul", feBin(func(r, a, b *field.Element) { r.Multiply(a, b) }))
	register("fe.square", feBin(func(r, a, _ *field.Element) { r.Square(a) }))
	register("fe.neg", feBin(func(r, a, _ *field.Element) { r.Negate(a) }))
	register("fe.invert", feBin(func(r, a, _ *field.Element) { r.Invert(a) }))
	register("fe.sqrt", feBin(func(r, a, _ *field.Element) { r.Sqrt(a) }))
	register("fe.sqrtratio", feBin(func(r, a, b *field.Element) { r.SqrtRatio(a, b) }))
	register("fe.equal", feBin(func(r, a, b *field.Element) { r.ConditionalSelect(a, b, a.Equal(b)) }))
	register("fe.condneg", feBin(func(r, a, b *field.Element) { r.ConditionalNegate(a, b.IsOdd()) }))
	register("fe.bytes", feBin(func(r, a, _ *field.Element) { r.MustSetCanonicalBytes((*[32]byte)(a.Bytes())) }))

	scBin := func(f func(r, a, b *secp256k1.Scalar)) opFunc {
		return func(args [][]byte) (func() func() [][]byte, error) {
			if err := need(args, 2); err != nil {
				return nil, err
			}
			a, err := sc(args[0])
			if err != nil {
				return nil, err
			}
			b, err := sc(args[1])
			if err != nil {
				return nil, err
			}
			r := secp256k1.NewScalar()
			return func() func() [][]byte {
				f(r, a, b)
				return func() [][]byte { return [][]byte{r.Bytes()} }
			}, nil
		}
	}
	register("sc.add", scBin(func(r, a, b *secp256k1.Scalar) { r.Add(a, b) }))
	register("sc.sub", scBin(func(r, a, b *secp256k1.Scalar) { r.Subtract(a, b) }))
	register("sc.mul", scBin(func(r, a, b *secp256k1.Scalar) { r.Multiply(a, b) }))
	register("sc.square", scBin(func(r, a, _ *secp256k1.Scalar) { r.Square(a) }))
	register("sc.neg", scBin(func(r, a, _ *secp256k1.Scalar) { r.Negate(a) }))
	register("sc.invert", scBin(func(r, a, _ *secp256k1.Scalar) { r.Invert(a) }))
	register("sc.condneg", scBin(func(r, a, b *secp256k1.Scalar) { r.ConditionalNegate(a, b.IsGreaterThanHalfN()) }))
	register("sc.condsel", scBin(func(r, a, b *secp256k1.Scalar) { r.ConditionalSelect(a, b, a.IsZero()) }))
	register("sc.sumprod", scBin(func(r, a, b *secp256k1.Scalar) { r.Sum(a, b, a).Product(r, b) }))
	register("sc.bytes", scBin(func(r, a, _ *secp256k1.Scalar) {
		_, _ = r.SetCanonicalBytes((*[32]byte)(a.Bytes()))
	}))
	register("sc.frombytes", func(args [][]byte) (func() func() [][]byte, error) { // secret bytes, possibly >= n
		if err := need(args, 1); err != nil {
			return nil, err
		}
		if len(args[0]) != 32 {
			return nil, errors.New("want 32 bytes")
		}
		src := (*[32]byte)(args[0])
		return func() func() [][]byte {
			s, flag := secp256k1.NewScalarFromBytes(src)
			return func() [][]byte { return [][]byte{s.Bytes(), {byte(flag)}} }
		}, nil
	})

	flagBytes := func(fs ...uint64) []byte {
		out := make([]byte, len(fs))
		for i, f := range fs {
			out[i] = byte(f)
		}
		return out
	}
	// predicates on secret values (their results are published, the path taken must not tell more)
	register("fe.preds", func(args [][]byte) (func() func() [][]byte, error) {
		if err := need(args, 2); err != nil {
			return nil, err
		}
		a, err := fe(args[0])
		if err != nil {
			return nil, err
		}
		b, err := fe(args[1])
		if err != nil {
			return nil, err
		}
		return func() func() [][]byte {
			out := flagBytes(a.Equal(b), a.IsZero(), a.IsOdd(), b.IsOdd())
			return one(out)
		}, nil
	})
	register("sc.preds", func(args [][]byte) (func() func() [][]byte, error) {
		if err := need(args, 2); err != nil {
			return nil, err
		}
		a, err := sc(args[0])
		if err != nil {
			return nil, err
		}
		b, err := sc(args[1])
		if err != nil {
			return nil, err
		}
		return func() func() [][]byte {
			out := flagBytes(a.Equal(b), a.IsZero(), a.IsGreaterThanHalfN(), b.IsGreaterThanHalfN())
			return one(out)
		}, nil
	})
	// conditional point operations with a secret control bit (public points)
	register("point.cond", func(args [][]byte) (func() func() [][]byte, error) {
		if err := need(args, 3); err != nil {
			return nil, err
		}
		p, err := pt(args[0])
		if err != nil {
			return nil, err
		}
		q, err := pt(args[1])
		if err != nil {
			return nil, err
		}
		if len(args[2]) != 1 || args[2][0] > 1 {
			return nil, errors.New("control must be one byte, 0 or 1")
		}
		ctrl := uint64(args[2][0])
		r1, r2 := newRcvr(), secp256k1.NewIdentityPoint()
		return func() func() [][]byte {
			r1.ConditionalSelect(p, q, ctrl)
			r2.ConditionalNegate(q, ctrl)
			return func() [][]byte { return [][]byte{r1.UncompressedBytes(), r2.UncompressedBytes()} }
		}, nil
	})
	// comparing and exporting private keys
	register("priv.equal", func(args [][]byte) (func() func() [][]byte, error) {
		if err := need(args, 2); err != nil {
			return nil, err
		}
		k1, err := secec.NewPrivateKey(args[0])
		if err != nil {
			return nil, err
		}
		k2, err := secec.NewPrivateKey(args[1])
		if err != nil {
			return nil, err
		}
		return func() func() [][]byte {
			eq := k1.Equal(k2)
			raw, scl := k1.Bytes(), k1.Scalar()
			return func() [][]byte {
				f := byte(0)
				if eq {
					f = 1
				}
				return [][]byte{{f}, raw, scl.Bytes()}
			}
		}, nil
	})
	register("schnorr.priv.equal", func(args [][]byte) (func() func() [][]byte, error) {
		if err := need(args, 2); err != nil {
			return nil, err
		}
		k1, err := bitcoin.NewSchnorrPrivateKey(args[0])
		if err != nil {
			return nil, err
		}
		k2, err := bitcoin.NewSchnorrPrivateKey(args[1])
		if err != nil {
			return nil, err
		}
		return func() func() [][]byte {
			eq := k1.Equal(k2)
			raw, scl := k1.Bytes(), k1.Scalar()
			return func() [][]byte {
				f := byte(0)
				if eq {
					f = 1
				}
				return [][]byte{{f}, raw, scl.Bytes()}
			}
		}, nil
	})
	// Schnorr key derivation from an existing ECDSA key
	register("schnorr.fromecdsa", func(args [][]byte) (func() func() [][]byte, error) {
		if err := need(args, 1); err != nil {
			return nil, err
		}
		k, err := secec.NewPrivateKey(args[0])
		if err != nil {
			return nil, err
		}
		return func() func() [][]byte {
			sk := bitcoin.NewSchnorrPrivateKeyFromECDSA(k)
			return func() [][]byte { return [][]byte{sk.PublicKey().Bytes()} }
		}, nil
	})

	// ---- point multiplication ----
	register("scalarmult", func(args [][]byte) (func() func() [][]byte, error) {
		if err := need(args, 2); err != nil {
			return nil, err
		}
		s, err := sc(args[0])
		if err != nil {
			return nil, err
		}
		p, err := pt(args[1])
		if err != nil {
			return nil, err
		}
		r := newRcvr()
		return func() func() [][]byte {
			r.ScalarMult(s, p)
			return func() [][]byte { return [][]byte{r.UncompressedBytes()} }
		}, nil
	})
	register("basemult", func(args [][]byte) (func() func() [][]byte, error) {
		if err := need(args, 1); err != nil {
			return nil, err
		}
		s, err := sc(args[0])
		if err != nil {
			return nil, err
		}
		r := newRcvr()
		return func() func() [][]byte {
			r.ScalarBaseMult(s)
			return func() [][]byte { return [][]byte{r.UncompressedBytes()} }
		}, nil
	})
	multi := func(vartime bool) opFunc {
		return func(args [][]byte) (func() func() [][]byte, error) {
			if len(args)%2 != 0 {
				return nil, errors.New("want pairs")
			}
			var ss []*secp256k1.Scalar
			var ps []*secp256k1.Point
			for i := 0; i < len(args); i += 2 {
				s, err := sc(args[i])
				if err != nil {
					return nil, err
				}
				p, err := pt(args[i+1])
				if err != nil {
					return nil, err
				}
				ss, ps = append(ss, s), append(ps, p)
			}
			r := newRcvr()
			return func() func() [][]byte {
				if vartime {
					r.MultiScalarMultVartime(ss, ps)
				} else {
					r.MultiScalarMult(ss, ps)
				}
				return func() [][]byte { return [][]byte{r.UncompressedBytes()} }
			}, nil
		}
	}
	register("multimult", multi(false))
	register("multimult.vartime", multi(true))
	// multimult.chain n k seed rcv vartime: a long list built inside the server -- points (k+i)*G by repeated
	// addition, scalars SHA-256(seed || i) -- so that tens of thousands of terms cost a few bytes on the
	// wire; rcv is the index of the list element used as the receiver (0xffffffff: a fresh point).
	register("multimult.chain", func(args [][]byte) (func() func() [][]byte, error) {
		if err := need(args, 5); err != nil {
			return nil, err
		}
		if len(args[0]) != 4 || len(args[3]) != 4 || len(args[4]) != 1 {
			return nil, fmt.Errorf("bad argument sizes")
		}
		n := int(binary.BigEndian.Uint32(args[0]))
		rcv := binary.BigEndian.Uint32(args[3])
		k, err := sc(args[1])
		if err != nil {
			return nil, err
		}
		if n < 1 || n > 1<<17 {
			return nil, fmt.Errorf("bad length")
		}
		points := make([]*secp256k1.Point, n)
		scalars := make([]*secp256k1.Scalar, n)
		cur := secp256k1.NewIdentityPoint().ScalarBaseMult(k)
		g := secp256k1.NewGeneratorPoint()
		var ctr [4]byte
		for i := 0; i < n; i++ {
			points[i] = secp256k1.NewPointFrom(cur)
			cur.Add(cur, g)
			binary.BigEndian.PutUint32(ctr[:], uint32(i))
			h := sha256.Sum256(append(append([]byte(nil), args[2]...), ctr[:]...))
			scalars[i], _ = secp256k1.NewScalarFromBytes(&h)
		}
		r := newRcvr()
		if rcv != 0xffffffff {
			r = points[int(rcv)%n]
		}
		vartime := args[4][0] != 0
		return func() func() [][]byte {
			if vartime {
				r.MultiScalarMultVartime(scalars, points)
			} else {
				r.MultiScalarMult(scalars, points)
			}
			return func() [][]byte { return [][]byte{r.UncompressedBytes()} }
		}, nil
	})
	register("doublemult.vartime", func(args [][]byte) (func() func() [][]byte, error) {
		if err := need(args, 3); err != nil {
			return nil, err
		}
		u1, err := sc(args[0])
		if err != nil {
			return nil, err
		}
		u2, err := sc(args[1])
		if err != nil {
			return nil, err
		}
		p, err := pt(args[2])
		if err != nil {
			return nil, err
		}
		r := newRcvr()
		return func() func() [][]byte {
			r.DoubleScalarMultBasepointVartime(u1, u2, p)
			return func() [][]byte { return [][]byte{r.UncompressedBytes()} }
		}, nil
	})

	// ---- keys / ECDH ----
	register("newpriv", func(args [][]byte) (func() func() [][]byte, error) {
		if err := need(args, 1); err != nil {
			return nil, err
		}
		raw := args[0]
		return func() func() [][]byte {
			k, err := secec.NewPrivateKey(raw)
			if err != nil {
				return one([]byte("error"))
			}
			return func() [][]byte { return [][]byte{k.PublicKey().Bytes(), k.PublicKey().CompressedBytes()} }
		}, nil
	})
	register("newpriv.scalar", func(args [][]byte) (func() func() [][]byte, error) {
		if err := need(args, 1); err != nil {
			return nil, err
		}
		s, err := sc(args[0])
		if err != nil {
			return nil, err
		}
		return func() func() [][]byte {
			k, err := secec.NewPrivateKeyFromScalar(s)
			if err != nil {
				return one([]byte("error"))
			}
			return func() [][]byte { return [][]byte{k.PublicKey().Bytes()} }
		}, nil
	})
	register("ecdh", func(args [][]byte) (func() func() [][]byte, error) {
		if err := need(args, 2); err != nil {
			return nil, err
		}
		k, err := secec.NewPrivateKey(args[0])
		if err != nil {
			return nil, err
		}
		q, err := secec.NewPublicKey(args[1])
		if err != nil {
			return nil, err
		}
		return func() func() [][]byte {
			sec, err := k.ECDH(q)
			if err != nil {
				return one([]byte("error"))
			}
			return one(sec)
		}, nil
	})

	// ---- ECDSA ----
	register("signraw", func(args [][]byte) (func() func() [][]byte, error) { // d digest entropy
		if err := need(args, 3); err != nil {
			return nil, err
		}
		k, err := secec.NewPrivateKey(args[0])
		if err != nil {
			return nil, err
		}
		digest, ent := args[1], args[2]
		return func() func() [][]byte {
			r, s, v, err := k.SignRaw(bytes.NewReader(ent), digest)
			if err != nil {
				return one([]byte("error"))
			}
			return func() [][]byte { return [][]byte{r.Bytes(), s.Bytes(), {v}} }
		}, nil
	})
	register("sign", func(args [][]byte) (func() func() [][]byte, error) { // d digest entropy encoding selfverify
		if err := need(args, 5); err != nil {
			return nil, err
		}
		k, err := secec.NewPrivateKey(args[0])
		if err != nil {
			return nil, err
		}
		digest, ent := args[1], args[2]
		opts := &secec.ECDSAOptions{Encoding: secec.SignatureEncoding(args[3][0]), SelfVerify: args[4][0] != 0}
		return func() func() [][]byte {
			sig, err := k.Sign(bytes.NewReader(ent), digest, opts)
			if err != nil {
				return one([]byte("error"))
			}
			return one(sig)
		}, nil
	})
	register("signrfc6979", func(args [][]byte) (func() func() [][]byte, error) { // d digest
		if err := need(args, 2); err != nil {
			return nil, err
		}
		k, err := secec.NewPrivateKey(args[0])
		if err != nil {
			return nil, err
		}
		digest := args[1]
		return func() func() [][]byte {
			r, s, v, err := k.SignRaw(secec.RFC6979SHA256(), digest)
			if err != nil {
				return one([]byte("error"))
			}
			return func() [][]byte { return [][]byte{r.Bytes(), s.Bytes(), {v}} }
		}, nil
	})
	register("verify", func(args [][]byte) (func() func() [][]byte, error) { // Q digest r s  (public data: variable time allowed)
		if err := need(args, 4); err != nil {
			return nil, err
		}
		q, err := secec.NewPublicKey(args[0])
		if err != nil {
			return nil, err
		}
		r, err := sc(args[2])
		if err != nil {
			return nil, err
		}
		s, err := sc(args[3])
		if err != nil {
			return nil, err
		}
		digest := args[1]
		return func() func() [][]byte {
			ok := q.VerifyRaw(digest, r, s)
			return func() [][]byte {
				if ok {
					return [][]byte{{1}}
				}
				return [][]byte{{0}}
			}
		}, nil
	})

	// ---- Schnorr ----
	register("schnorr.newpriv", func(args [][]byte) (func() func() [][]byte, error) {
		if err := need(args, 1); err != nil {
			return nil, err
		}
		raw := args[0]
		return func() func() [][]byte {
			k, err := bitcoin.NewSchnorrPrivateKey(raw)
			if err != nil {
				return one([]byte("error"))
			}
			return func() [][]byte { return [][]byte{k.PublicKey().Bytes()} }
		}, nil
	})
	register("schnorr.sign", func(args [][]byte) (func() func() [][]byte, error) { // d aux msg
		if err := need(args, 3); err != nil {
			return nil, err
		}
		k, err := bitcoin.NewSchnorrPrivateKey(args[0])
		if err != nil {
			return nil, err
		}
		aux, msg := args[1], args[2]
		return func() func() [][]byte {
			sig, err := k.Sign(bytes.NewReader(aux), msg, nil)
			if err != nil {
				return one([]byte("error"))
			}
			return one(sig)
		}, nil
	})
	register("schnorr.verify", func(args [][]byte) (func() func() [][]byte, error) { // pk msg sig
		if err := need(args, 3); err != nil {
			return nil, err
		}
		k, err := bitcoin.NewSchnorrPublicKey(args[0])
		if err != nil {
			return nil, err
		}
		msg, sig := args[1], args[2]
		return func() func() [][]byte {
			ok := k.Verify(msg, sig)
			return func() [][]byte {
				if ok {
					return [][]byte{{1}}
				}
				return [][]byte{{0}}
			}
		}, nil
	})

	// faulted kind where s P: a call that cannot complete (a nil or zero-value operand somewhere in its arguments, a
	// nil receiver, lists of different lengths), recovered by the caller, as callers with a top-level recover
	// do.  What is observable afterwards - whether the call panicked, whether the receiver it was given is
	// (still) unusable or holds a point, and what the next, ordinary call returns - is behaviour like any
	// other, and the builds must agree on it.
	//   kind 0/1 MultiScalarMult / ...Vartime, element `where` of the scalar list nil
	//   kind 2/3 the same with element `where` of the point list a zero-value Point
	//   kind 4   ScalarMult with a zero-value point        kind 5 ScalarMult on a nil receiver
	//   kind 6/7 MultiScalarMult / ...Vartime with one scalar too many
	register("faulted", func(args [][]byte) (func() func() [][]byte, error) {
		if err := need(args, 4); err != nil {
			return nil, err
		}
		if len(args[0]) != 1 || len(args[1]) != 1 {
			return nil, fmt.Errorf("bad argument sizes")
		}
		kind, where := int(args[0][0]), int(args[1][0])%3
		s, err := sc(args[2])
		if err != nil {
			return nil, err
		}
		p, err := pt(args[3])
		if err != nil {
			return nil, err
		}
		var r *secp256k1.Point
		switch rcvMode {
		case 0:
			r = new(secp256k1.Point) // never initialised: must still be unusable afterwards
		default:
			r = newRcvr()
		}
		return func() func() [][]byte {
			scalars := []*secp256k1.Scalar{secp256k1.NewScalarFrom(s), secp256k1.NewScalarFrom(s), secp256k1.NewScalarFrom(s)}
			points := []*secp256k1.Point{secp256k1.NewPointFrom(p), secp256k1.NewGeneratorPoint(), secp256k1.NewPointFrom(p)}
			panicked := byte(0)
			func() {
				defer func() {
					if recover() != nil {
						panicked = 1
					}
				}()
				switch kind {
				case 0, 1:
					scalars[where] = nil
				case 2, 3:
					points[where] = new(secp256k1.Point)
				case 6, 7:
					scalars = append(scalars, secp256k1.NewScalarFrom(s))
				}
				switch kind {
				case 0, 2, 6:
					r.MultiScalarMult(scalars, points)
				case 1, 3, 7:
					r.MultiScalarMultVartime(scalars, points)
				case 4:
					r.ScalarMult(s, new(secp256k1.Point))
				default:
					var nilRcvr *secp256k1.Point
					nilRcvr.ScalarMult(s, p)
				}
			}()
			return func() [][]byte {
				after := []byte("unusable")
				func() {
					defer func() { _ = recover() }()
					after = secp256k1.NewIdentityPoint().Add(r, secp256k1.NewGeneratorPoint()).CompressedBytes()
				}()
				// and the next ordinary calls
				next := secp256k1.NewIdentityPoint().ScalarMult(s, p)
				next2 := secp256k1.NewIdentityPoint().MultiScalarMult([]*secp256k1.Scalar{s, s}, []*secp256k1.Point{p, secp256k1.NewGeneratorPoint()})
				next3 := secp256k1.NewIdentityPoint().DoubleScalarMultBasepointVartime(s, s, p)
				return [][]byte{{panicked}, after, next.CompressedBytes(), next2.CompressedBytes(), next3.CompressedBytes()}
			}
		}, nil
	})

	// ---- hash to curve ----
	register("h2c", func(args [][]byte) (func() func() [][]byte, error) { // ro? dst msg
		if err := need(args, 3); err != nil {
			return nil, err
		}
		ro, dst, msg := args[0][0] != 0, args[1], args[2]
		return func() func() [][]byte {
			var p *secp256k1.Point
			var err error
			if ro {
				p, err = h2c.Secp256k1_XMD_SHA256_SSWU_RO(dst, msg)
			} else {
				p, err = h2c.Secp256k1_XMD_SHA256_SSWU_NU(dst, msg)
			}
			if err != nil {
				return one([]byte("error"))
			}
			return func() [][]byte { return [][]byte{p.UncompressedBytes()} }
		}, nil
	})
	register("uniform", func(args [][]byte) (func() func() [][]byte, error) {
		if err := need(args, 1); err != nil {
			return nil, err
		}
		src := args[0]
		r := newRcvr()
		return func() func() [][]byte {
			r.SetUniformBytes(src)
			return func() [][]byte { return [][]byte{r.UncompressedBytes()} }
		}, nil
	})
}

// rcvMode selects what the receiver of the point operations holds before the
// call ("<op>@<mode>" in a request; default 0).  A library call overwrites its
// receiver, so the result must not depend on it -- in any build.
//
//	0 a fresh identity          1 the generator (x != 0, Z = 1)
//	2 2G as the doubling formula leaves it (Z != 1)
//	3 G - G (the identity as the addition formula leaves it)
//	4 the receiver object of the previous point operation, result still in it
var (
	rcvMode  int
	lastRcvr *secp256k1.Point
)

func newRcvr() *secp256k1.Point {
	var r *secp256k1.Point
	g := secp256k1.NewGeneratorPoint()
	switch rcvMode {
	case 1:
		r = g
	case 2:
		r = secp256k1.NewIdentityPoint().Double(g)
	case 3:
		r = secp256k1.NewIdentityPoint().Subtract(g, g)
	case 4:
		r = lastRcvr
	}
	if r == nil {
		r = secp256k1.NewIdentityPoint()
	}
	lastRcvr = r
	return r
}
