//go:build optrace

package main

import (
	"encoding/json"
	"fmt"
	"os"
	"path/filepath"

	"gitlab.com/yawning/secp256k1-voi/internal/vtrace"
)

func buildInfo() string { return "trace " + tagsInfo() }

// bracket runs f with the index/branch trace of the instrumented library
// copy enabled and returns "<hash>.<length>".  With dumpDir set, the
// (site, value) sequence is also written to dumpDir/trace.json.
func bracket(f func(), dumpDir string) string {
	vtrace.Reset(dumpDir != "")
	f()
	h, n := vtrace.Stop()
	if dumpDir != "" {
		_ = os.MkdirAll(dumpDir, 0o755)
		b, _ := json.Marshal(vtrace.Log())
		_ = os.WriteFile(filepath.Join(dumpDir, "trace.json"), b, 0o644)
	}
	return fmt.Sprintf("%016x.%d", h, n)
}
