package main

import (
	"os"
	"runtime"
)

// Stack-move stress (VERIF_OPSERVER_STRESS=stack): every operation runs on a
// fresh goroutine whose stack was first grown to several hundred kilobytes by
// a deep recursion, while another goroutine forces garbage collections back
// to back.  Each collection finds the stack mostly unused and halves it, which
// relocates it -- at the next call boundary inside the running operation.
// Go adjusts every typed pointer into the moved stack; an address kept as a
// uintptr (the classic mistake in glue code that hands stack buffers to
// assembly) goes stale and the routine reads or writes the old location.  No
// input value has anything to do with it, so the cross-build comparison runs
// its generated cases once more against an assembly server in this mode.
var stackStress = os.Getenv("VERIF_OPSERVER_STRESS") == "stack"

func init() {
	if stackStress {
		go func() {
			for {
				runtime.GC()
			}
		}()
	}
}

//go:noinline
func growStack(n int) byte {
	var buf [4096]byte
	buf[n%len(buf)] = byte(n)
	if n == 0 {
		return buf[0]
	}
	return growStack(n-1) + buf[(n*7)%len(buf)]
}

var sink byte

// maybeStressed runs f directly, or on a goroutine with an oversized stack.
func maybeStressed(f func()) {
	if !stackStress {
		f()
		return
	}
	done := make(chan struct{})
	go func() {
		defer close(done)
		sink += growStack(96) // ~400 KiB of frames, all dead again when it returns
		f()
	}()
	<-done
}
