// Command idxinstr produces an instrumented copy of the library in which
// every data-dependent memory index and every branch decision is routed
// through a tracing identity function (C17, observable (b)).
//
// The rewrite is purely syntactic (go/ast, no type information), so it keeps
// working when the library is refactored:
//
//	x[i]            ->  x[vtrace.I(site, i)]         (i not a literal)
//	x[a:b:c]        ->  x[vtrace.I(site, a):...]     (bounds not literals)
//	if c {..}       ->  if vtrace.B(site, c) {..}    (also `for ; c ;`)
//	a && b, a || b  ->  vtrace.B(site, a) && b       (short-circuit decisions)
//	switch t {..}   ->  switch vtrace.I(site, t) {..}; tagless switch: every case expression through B
//	for/range body  ->  vtrace.E(site) as first statement (iteration trace)
//
// vtrace.I / vtrace.B are generic identities that fold (site, value) into a
// running hash while tracing is enabled.  Only function bodies of non-test,
// non-main library files are rewritten; assembly is left alone (its
// input/output relation is C19).
//
// usage: idxinstr -src /repo -dst /scratch/copy
package main

import (
	"bytes"
	"encoding/json"
	"flag"
	"fmt"
	"go/ast"
	"go/format"
	"go/parser"
	"go/token"
	"io"
	"io/fs"
	"os"
	"path/filepath"
	"strings"
)

const modPath = "gitlab.com/yawning/secp256k1-voi"

type siteInfo struct {
	ID   int    `json:"id"`
	Pos  string `json:"pos"`
	Kind string `json:"kind"`
	Expr string `json:"expr"`
}

var (
	sites []siteInfo
	fset  = token.NewFileSet()
)

func main() {
	src := flag.String("src", "/repo", "library source tree")
	dst := flag.String("dst", "", "destination (created)")
	flag.Parse()
	if *dst == "" {
		fatal("need -dst")
	}
	if err := copyTree(*src, *dst); err != nil {
		fatal("copy: %v", err)
	}
	skipDirs := map[string]bool{"internal/asm": true, "internal/gentable": true, "internal/vtrace": true}
	err := filepath.WalkDir(*dst, func(p string, d fs.DirEntry, err error) error {
		if err != nil {
			return err
		}
		rel, _ := filepath.Rel(*dst, p)
		if d.IsDir() {
			if skipDirs[filepath.ToSlash(rel)] || strings.HasPrefix(d.Name(), ".") && rel != "." || d.Name() == "testdata" {
				return filepath.SkipDir
			}
			return nil
		}
		if !strings.HasSuffix(p, ".go") || strings.HasSuffix(p, "_test.go") {
			return nil
		}
		return instrumentFile(p, filepath.ToSlash(rel))
	})
	if err != nil {
		fatal("instrument: %v", err)
	}
	vdir := filepath.Join(*dst, "internal", "vtrace")
	if err := os.MkdirAll(vdir, 0o755); err != nil {
		fatal("%v", err)
	}
	if err := os.WriteFile(filepath.Join(vdir, "vtrace.go"), []byte(vtraceSrc), 0o644); err != nil {
		fatal("%v", err)
	}
	b, _ := json.Marshal(sites)
	if err := os.WriteFile(filepath.Join(*dst, "vtrace_sites.json"), b, 0o644); err != nil {
		fatal("%v", err)
	}
	kinds := map[string]int{}
	for _, s := range sites {
		kinds[s.Kind]++
	}
	fmt.Printf("idxinstr: %d sites %v\n", len(sites), kinds)
}

func fatal(f string, a ...any) {
	fmt.Fprintf(os.Stderr, "idxinstr: "+f+"\n", a...)
	os.Exit(1)
}

func copyTree(src, dst string) error {
	return filepath.WalkDir(src, func(p string, d fs.DirEntry, err error) error {
		if err != nil {
			return err
		}
		rel, _ := filepath.Rel(src, p)
		if d.IsDir() {
			if d.Name() == ".git" {
				return filepath.SkipDir
			}
			return os.MkdirAll(filepath.Join(dst, rel), 0o755)
		}
		if !d.Type().IsRegular() {
			return nil
		}
		in, err := os.Open(p)
		if err != nil {
			return err
		}
		defer in.Close()
		out, err := os.Create(filepath.Join(dst, rel))
		if err != nil {
			return err
		}
		if _, err := io.Copy(out, in); err != nil {
			out.Close()
			return err
		}
		return out.Close()
	})
}

func exprString(e ast.Expr) string {
	var buf bytes.Buffer
	_ = format.Node(&buf, fset, e)
	s := buf.String()
	if len(s) > 60 {
		s = s[:60] + "..."
	}
	return s
}

func newSite(kind string, at ast.Node, rel string, e ast.Expr) ast.Expr {
	id := len(sites) + 1
	pos := fset.Position(at.Pos())
	es := ""
	if e != nil {
		es = exprString(e)
	}
	sites = append(sites, siteInfo{ID: id, Pos: fmt.Sprintf("%s:%d", rel, pos.Line), Kind: kind, Expr: es})
	return &ast.BasicLit{Kind: token.INT, Value: fmt.Sprint(id)}
}

func call(fn string, args ...ast.Expr) *ast.CallExpr {
	return &ast.CallExpr{Fun: &ast.SelectorExpr{X: ast.NewIdent("vtrace"), Sel: ast.NewIdent(fn)}, Args: args}
}

func isLiteral(e ast.Expr) bool {
	switch v := e.(type) {
	case *ast.BasicLit:
		return true
	case *ast.ParenExpr:
		return isLiteral(v.X)
	case *ast.UnaryExpr:
		return isLiteral(v.X)
	}
	return false
}

type rewriter struct {
	rel  string
	used bool
}

func (r *rewriter) idx(at ast.Node, e ast.Expr, kind string) ast.Expr {
	if e == nil || isLiteral(e) {
		return e
	}
	r.used = true
	return call("I", newSite(kind, at, r.rel, e), e)
}

func (r *rewriter) cond(at ast.Node, e ast.Expr, kind string) ast.Expr {
	if e == nil {
		return e
	}
	r.used = true
	return call("B", newSite(kind, at, r.rel, e), e)
}

func (r *rewriter) enter(body *ast.BlockStmt, at ast.Node, kind string) {
	if body == nil {
		return
	}
	r.used = true
	st := &ast.ExprStmt{X: call("E", newSite(kind, at, r.rel, nil))}
	body.List = append([]ast.Stmt{st}, body.List...)
}

// rewrite walks a function body bottom-up.
func (r *rewriter) rewrite(n ast.Node) {
	ast.Inspect(n, func(n ast.Node) bool {
		switch v := n.(type) {
		case *ast.CallExpr:
			// f[T](x): generic instantiation, not an index -- do not touch Fun's index.
			if ix, ok := v.Fun.(*ast.IndexExpr); ok {
				r.rewrite(ix.X)
				for _, a := range v.Args {
					r.rewrite(a)
				}
				return false
			}
		case *ast.IndexExpr:
			r.rewrite(v.X)
			r.rewrite(v.Index)
			v.Index = r.idx(v, v.Index, "index")
			return false
		case *ast.SliceExpr:
			r.rewrite(v.X)
			for _, p := range []*ast.Expr{&v.Low, &v.High, &v.Max} {
				if *p != nil {
					r.rewrite(*p)
					*p = r.idx(v, *p, "slice")
				}
			}
			return false
		case *ast.BinaryExpr:
			if v.Op == token.LAND || v.Op == token.LOR {
				r.rewrite(v.X)
				r.rewrite(v.Y)
				v.X = r.cond(v, v.X, "shortcircuit")
				return false
			}
		case *ast.IfStmt:
			if v.Init != nil {
				r.rewrite(v.Init)
			}
			r.rewrite(v.Cond)
			v.Cond = r.cond(v, v.Cond, "if")
			r.rewrite(v.Body)
			if v.Else != nil {
				r.rewrite(v.Else)
			}
			return false
		case *ast.ForStmt:
			if v.Init != nil {
				r.rewrite(v.Init)
			}
			if v.Cond != nil {
				r.rewrite(v.Cond)
				v.Cond = r.cond(v, v.Cond, "for")
			}
			if v.Post != nil {
				r.rewrite(v.Post)
			}
			r.rewrite(v.Body)
			r.enter(v.Body, v, "loop")
			return false
		case *ast.RangeStmt:
			r.rewrite(v.X)
			r.rewrite(v.Body)
			r.enter(v.Body, v, "loop")
			return false
		case *ast.SwitchStmt:
			if v.Init != nil {
				r.rewrite(v.Init)
			}
			if v.Tag != nil {
				r.rewrite(v.Tag)
				v.Tag = r.idx(v, v.Tag, "switch")
				r.rewrite(v.Body)
			} else {
				for _, c := range v.Body.List {
					cc := c.(*ast.CaseClause)
					for i, e := range cc.List {
						r.rewrite(e)
						cc.List[i] = r.cond(cc, e, "case")
					}
					for _, s := range cc.Body {
						r.rewrite(s)
					}
				}
			}
			return false
		case *ast.CompositeLit:
			// keys of array/slice literals must stay constant expressions
			for _, e := range v.Elts {
				if kv, ok := e.(*ast.KeyValueExpr); ok {
					r.rewrite(kv.Value)
				} else {
					r.rewrite(e)
				}
			}
			return false
		case *ast.ArrayType, *ast.MapType, *ast.ChanType, *ast.StructType, *ast.InterfaceType, *ast.FuncType:
			return false
		}
		return true
	})
}

func instrumentFile(path, rel string) error {
	srcBytes, err := os.ReadFile(path)
	if err != nil {
		return err
	}
	f, err := parser.ParseFile(fset, path, srcBytes, parser.ParseComments)
	if err != nil {
		return err
	}
	if f.Name.Name == "main" {
		return nil
	}
	for _, cg := range f.Comments {
		if cg.Pos() > f.Package {
			break
		}
		for _, c := range cg.List {
			if strings.HasPrefix(c.Text, "//go:build") && strings.Contains(c.Text, "ignore") {
				return nil
			}
		}
	}
	r := &rewriter{rel: rel}
	for _, d := range f.Decls {
		fd, ok := d.(*ast.FuncDecl)
		if !ok || fd.Body == nil {
			continue
		}
		r.rewrite(fd.Body)
	}
	if !r.used {
		return nil
	}
	// add the import
	imp := &ast.ImportSpec{Path: &ast.BasicLit{Kind: token.STRING, Value: fmt.Sprintf("%q", modPath+"/internal/vtrace")}}
	gd := &ast.GenDecl{Tok: token.IMPORT, Specs: []ast.Spec{imp}}
	f.Decls = append([]ast.Decl{gd}, f.Decls...)
	f.Imports = append(f.Imports, imp)
	var buf bytes.Buffer
	if err := format.Node(&buf, fset, f); err != nil {
		return fmt.Errorf("%s: %v", rel, err)
	}
	return os.WriteFile(path, buf.Bytes(), 0o644)
}

const vtraceSrc = `// Package vtrace is added by the verification harness' instrumenter; it is
// not part of the library.
package vtrace

import "reflect"

const (
	offset = 0xcbf29ce484222325
	prime  = 0x100000001b3
	maxLog = 1 << 16
)

var (
	on      bool
	logging bool
	h       uint64
	n       uint64
	log     []uint64
)

// Reset starts a trace.
func Reset(withLog bool) { h, n, on, logging, log = offset, 0, true, withLog, log[:0] }

// Stop ends a trace and returns its hash and length.
func Stop() (uint64, uint64) { on = false; return h, n }

// Log returns the recorded (site, value) pairs of the last trace (flattened).
func Log() []uint64 { return log }

func mix(site uint32, v uint64) {
	h ^= uint64(site)
	h *= prime
	h ^= v
	h *= prime
	n++
	if logging && len(log) < 2*maxLog {
		log = append(log, uint64(site), v)
	}
}

func toU64(v any) uint64 {
	switch x := v.(type) {
	case int:
		return uint64(x)
	case int8:
		return uint64(x)
	case int16:
		return uint64(x)
	case int32:
		return uint64(x)
	case int64:
		return uint64(x)
	case uint:
		return uint64(x)
	case uint8:
		return uint64(x)
	case uint16:
		return uint64(x)
	case uint32:
		return uint64(x)
	case uint64:
		return x
	case uintptr:
		return uint64(x)
	case bool:
		if x {
			return 1
		}
		return 0
	case string:
		var s uint64 = offset
		for i := 0; i < len(x); i++ {
			s ^= uint64(x[i])
			s *= prime
		}
		return s
	}
	rv := reflect.ValueOf(v)
	switch rv.Kind() {
	case reflect.Int, reflect.Int8, reflect.Int16, reflect.Int32, reflect.Int64:
		return uint64(rv.Int())
	case reflect.Uint, reflect.Uint8, reflect.Uint16, reflect.Uint32, reflect.Uint64, reflect.Uintptr:
		return rv.Uint()
	case reflect.Bool:
		if rv.Bool() {
			return 1
		}
	}
	return 0
}

// I records an index / slice bound / switch tag and returns it unchanged.
func I[T any](site uint32, v T) T {
	if on {
		mix(site, toU64(any(v)))
	}
	return v
}

// B records a branch decision and returns it unchanged.
func B(site uint32, c bool) bool {
	if on {
		if c {
			mix(site, 1)
		} else {
			mix(site, 0)
		}
	}
	return c
}

// E records entry into a loop body.
func E(site uint32) {
	if on {
		mix(site, 2)
	}
}
`
