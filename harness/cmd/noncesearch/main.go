// Command noncesearch looks for (private key, digest) pairs whose RFC 6979
// nonce (computed with the harness' reference generator) has many leading zero
// bits.  Such nonces cannot be steered -- they come out of HMAC -- so they are
// found by search, once, and kept as a corpus (c09/testdata/short_nonces.txt)
// that TestC09_ShortNonceCorpus replays: code that treats a "short" nonce
// specially (rejects it, pads it, takes a different path) breaks RFC 6979
// exactness exactly there.
//
// usage: noncesearch -bits 32 -workers 16 -max 6000000000 >> short_nonces.txt
package main

import (
	"crypto/sha256"
	"encoding/binary"
	"flag"
	"fmt"
	"math/big"
	"os"
	"sync"
	"sync/atomic"

	"gitlab.com/yawning/secp256k1-voi/verifharness/ref"
)

func main() {
	bits := flag.Int("bits", 32, "stop after a nonce with this many leading zero bits was found")
	workers := flag.Int("workers", 16, "")
	max := flag.Uint64("max", 1<<34, "give up after this many trials")
	report := flag.Int("report", 20, "print every hit with at least this many leading zero bits")
	flag.Parse()
	keys := []*big.Int{big.NewInt(1), new(big.Int).Sub(ref.N, big.NewInt(2)), ref.Int(sha256sum([]byte("verif/noncesearch/key")))}
	for _, k := range keys {
		k.Mod(k, ref.N)
	}
	var done atomic.Bool
	var ctr atomic.Uint64
	var mu sync.Mutex
	var wg sync.WaitGroup
	for w := 0; w < *workers; w++ {
		wg.Add(1)
		go func() {
			defer wg.Done()
			var buf [8]byte
			for !done.Load() {
				base := ctr.Add(1 << 16)
				if base > *max {
					return
				}
				for i := base - 1<<16; i < base; i++ {
					binary.BigEndian.PutUint64(buf[:], i)
					digest := sha256sum(append([]byte("verif/noncesearch/digest"), buf[:]...))
					d := keys[i%uint64(len(keys))]
					// lean RFC 6979 first candidate (digest < n is not required: bits2octets reduces)
					kb := fastFirstCandidate(d, digest)
					if kb[0] != 0 || kb[1] != 0 {
						continue
					}
					k := ref.NewRFC6979(d, digest).Next() // confirm with the reference generator
					if k[0] != 0 || k[1] != 0 {
						panic("fast path disagrees with the reference generator")
					}
					lz := 0
					for _, b := range k {
						if b == 0 {
							lz += 8
							continue
						}
						for m := byte(0x80); m != 0 && b&m == 0; m >>= 1 {
							lz++
						}
						break
					}
					if lz >= *report {
						mu.Lock()
						fmt.Printf("%d %x %x %x\n", lz, ref.B32(d), digest, k)
						mu.Unlock()
					}
					if lz >= *bits {
						done.Store(true)
						return
					}
				}
			}
		}()
	}
	wg.Wait()
	fmt.Fprintf(os.Stderr, "trials: %d\n", ctr.Load())
}

func sha256sum(b []byte) []byte { h := sha256.Sum256(b); return h[:] }

// hmacSHA256 with a 32-byte key, allocation-free.
func hmac32(key *[32]byte, parts ...[]byte) [32]byte {
	var ipad, opad [64]byte
	for i := 0; i < 32; i++ {
		ipad[i], opad[i] = key[i]^0x36, key[i]^0x5c
	}
	for i := 32; i < 64; i++ {
		ipad[i], opad[i] = 0x36, 0x5c
	}
	h := sha256.New()
	h.Write(ipad[:])
	for _, p := range parts {
		h.Write(p)
	}
	var inner [32]byte
	h.Sum(inner[:0])
	h.Reset()
	h.Write(opad[:])
	h.Write(inner[:])
	var out [32]byte
	h.Sum(out[:0])
	return out
}

func fastFirstCandidate(d *big.Int, digest []byte) [32]byte {
	x := ref.B32(d)
	h1 := ref.B32(ref.Mod(ref.Int(digest), ref.N)) // bits2octets
	var k, v [32]byte
	for i := range v {
		v[i] = 1
	}
	k = hmac32(&k, v[:], []byte{0}, x, h1)
	v = hmac32(&k, v[:])
	k = hmac32(&k, v[:], []byte{1}, x, h1)
	v = hmac32(&k, v[:])
	return hmac32(&k, v[:])
}
