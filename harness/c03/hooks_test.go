//go:build verif

package c03

import (
	"fmt"
	"math/big"
	"testing"

	"pgregory.net/rapid"

	secp256k1 "gitlab.com/yawning/secp256k1-voi"
	"gitlab.com/yawning/secp256k1-voi/verifharness/gen"
	"gitlab.com/yawning/secp256k1-voi/verifharness/lib"
	"gitlab.com/yawning/secp256k1-voi/verifharness/ref"
	"gitlab.com/yawning/secp256k1-voi/verifharness/stat"
)

// represent draws a projective representative of p: affine (Z=1), scaled by
// a drawn factor (any of the p-1 scalings, boundary-biased), or derived by
// library arithmetic.
func represent(t *rapid.T, p ref.Pt, label string) (*secp256k1.Point, string) {
	switch rapid.IntRange(0, 3).Draw(t, label+"_kind") {
	case 0:
		return lib.Pt(p), "affine"
	case 1:
		return derived(t, p, label), "derived"
	default:
		return lib.Representative(p, gen.Scale(t, label+"_scale")), "scaled"
	}
}

func checkCoords(t *rapid.T, what string, p *secp256k1.Point) {
	if !lib.CoordsOK(p) {
		x, y, z, v := lib.Coords(p)
		t.Fatalf("%s: projective coordinates off the curve: (%x,%x,%x) valid=%v", what, x, y, z, v)
	}
}

// propFormulas enters the three raw formulas directly.
func propFormulas(t *rapid.T) {
	p, q, rel := gen.PointPair(t, "pq")
	which := gen.Sampled([]string{"addComplete", "addMixed", "doubleComplete", "rescale"}).Draw(t, "which")
	alias := rapid.IntRange(0, 4).Draw(t, "alias")
	if which == "addMixed" && q.Inf {
		q = ref.G() // the mixed formula documents that the affine addend cannot be the identity
		rel = "Q=G(forced)"
	}
	if alias >= 3 && which != "addMixed" {
		q = p
	}
	lp, repP := represent(t, p, "repP")
	lq, repQ := represent(t, q, "repQ")
	lr := secp256k1.NewIdentityPoint()
	switch alias {
	case 1:
		lr = lp
	case 2:
		if which != "addMixed" {
			lr = lq
		}
	case 3:
		if which != "addMixed" {
			lq = lp
		}
	case 4:
		if which != "addMixed" {
			lq, lr = lp, lp
		}
	}
	var want ref.Pt
	switch which {
	case "addComplete":
		lr.VerifAddComplete(lp, lq)
		want = p.Add(q)
	case "addMixed":
		lr.VerifAddMixed(lp, lib.Fe(q.X), lib.Fe(q.Y))
		want = p.Add(q)
		repQ = "affine-coords"
	case "doubleComplete":
		lr.VerifDoubleComplete(lp)
		want = p.Double()
	case "rescale":
		lr.VerifRescale(lp)
		want = p
		_, _, z, _ := lib.Coords(lr)
		if !p.Inf && z.Cmp(big.NewInt(1)) != 0 {
			// an internal convention, not part of the property: the result only has to be the same point
			stat.Note("formulas", "rescale returned Z != 1")
			_ = z
		}
	}
	cl := []string{"formula:" + which, "rel:" + rel, fmt.Sprintf("alias:%d", alias), "repP:" + repP}
	if want.Inf {
		cl = append(cl, "result=O")
	}
	stat.Case("formulas", cl, rel != gen.RelIndependent || alias != 0 || repP != "affine", []byte(fmt.Sprintf("%s|%x|%x|%d|%s|%s", which, p.Uncompressed(), q.Uncompressed(), alias, repP, repQ)), func() any {
		return map[string]any{"formula": which, "P": p.String(), "Q": q.String(), "relation": rel, "alias": alias, "repP": repP, "repQ": repQ}
	})
	// the raw formulas do not set isValid on a fresh receiver; wrap the coordinates
	x, y, z, _ := lib.Coords(lr)
	res := secp256k1.VerifNewPointProjectiveUnchecked(lib.Fe(x), lib.Fe(y), lib.Fe(z))
	checkPoint(t, fmt.Sprintf("%s(%v [%s], %v [%s]) alias=%d", which, p, repP, q, repQ, alias), res, want)
}

func TestC03_Formulas(t *testing.T) { rapid.Check(t, propFormulas) }
