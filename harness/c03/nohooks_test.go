//go:build !verif

package c03

import (
	"pgregory.net/rapid"

	secp256k1 "gitlab.com/yawning/secp256k1-voi"
	"gitlab.com/yawning/secp256k1-voi/verifharness/lib"
	"gitlab.com/yawning/secp256k1-voi/verifharness/ref"
)

// represent: without hooks non-unit Z can only come from library arithmetic.
func represent(t *rapid.T, p ref.Pt, label string) (*secp256k1.Point, string) {
	if rapid.Bool().Draw(t, label+"_derived") {
		return derived(t, p, label), "derived"
	}
	return lib.Pt(p), "affine"
}

func checkCoords(_ *rapid.T, _ string, _ *secp256k1.Point) {}
