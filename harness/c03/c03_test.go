// Package c03: point addition/doubling/negation implement the group law
// completely and independently of the projective representative.
package c03

import (
	"bytes"
	"fmt"
	"math/big"
	"testing"

	"pgregory.net/rapid"

	secp256k1 "gitlab.com/yawning/secp256k1-voi"
	"gitlab.com/yawning/secp256k1-voi/verifharness/gen"
	"gitlab.com/yawning/secp256k1-voi/verifharness/lib"
	"gitlab.com/yawning/secp256k1-voi/verifharness/ref"
	"gitlab.com/yawning/secp256k1-voi/verifharness/stat"
)

func TestMain(m *testing.M) { stat.Main(m) }

// derived returns a library point equal to p that was produced by library
// arithmetic (so its Z is not 1): (p + q) - q for a drawn q.
func derived(t *rapid.T, p ref.Pt, label string) *secp256k1.Point {
	q := lib.Pt(ref.BaseMul(big.NewInt(int64(rapid.IntRange(2, 1000).Draw(t, label+"_dq")))))
	v := secp256k1.NewIdentityPoint().Add(lib.Pt(p), q)
	return v.Subtract(v, q)
}

// checkPoint compares a library point with the expected abstract point in
// three independent ways.
func checkPoint(t *rapid.T, what string, got *secp256k1.Point, want ref.Pt) {
	// (a) encodings
	if u := got.UncompressedBytes(); !bytes.Equal(u, want.Uncompressed()) {
		t.Fatalf("%s: uncompressed encoding %x, want %v", what, u, want)
	}
	if c := got.CompressedBytes(); !bytes.Equal(c, want.Compressed()) {
		t.Fatalf("%s: compressed encoding %x, want %v", what, c, want)
	}
	// the encodings are the point's, whatever callers did with earlier results
	if msg := lib.EncodingsSurviveCallerWrites(got); msg != "" {
		t.Fatalf("%s: %s", what, msg)
	}
	if u := lib.Pt(want).UncompressedBytes(); !bytes.Equal(u, want.Uncompressed()) {
		t.Fatalf("%s: an independently built equal point encodes as %x after the result's encodings were overwritten, want %v", what, u, want)
	}
	// (b) Equal against independently constructed points
	if got.Equal(lib.Pt(want)) != 1 || lib.Pt(want).Equal(got) != 1 {
		t.Fatalf("%s: Equal(result, expected) != 1", what)
	}
	others := []ref.Pt{want.Add(ref.G())}
	if !want.Inf {
		others = append(others, ref.Infinity())
		if want.Y.Sign() != 0 {
			others = append(others, want.Neg())
		}
	}
	for _, o := range others {
		if got.Equal(lib.Pt(o)) != 0 || lib.Pt(o).Equal(got) != 0 {
			t.Fatalf("%s: Equal(result, %v) != 0 for a different point", what, o)
		}
	}
	// observers
	var wantID uint64
	if want.Inf {
		wantID = 1
	}
	if got.IsIdentity() != wantID {
		t.Fatalf("%s: IsIdentity = %d", what, got.IsIdentity())
	}
	if !want.Inf && got.IsYOdd() != uint64(want.Y.Bit(0)) {
		t.Fatalf("%s: IsYOdd = %d", what, got.IsYOdd())
	}
	xb, err := got.XBytes()
	if want.Inf {
		if err == nil {
			t.Fatalf("%s: XBytes of identity succeeded", what)
		}
	} else if err != nil || !bytes.Equal(xb, ref.B32(want.X)) {
		t.Fatalf("%s: XBytes = %x, %v", what, xb, err)
	}
	// (c) closure
	checkCoords(t, what, got)
	if _, err := secp256k1.NewPointFromBytes(got.UncompressedBytes()); err != nil {
		t.Fatalf("%s: result encoding does not decode: %v", what, err)
	}
}

var opList = []string{"add", "sub", "double", "neg", "condneg", "condsel", "set", "equal", "newfrom"}

func propPairOps(t *rapid.T) {
	p, q, rel := gen.PointPair(t, "pq")
	op := gen.Sampled(opList).Draw(t, "op")
	alias := rapid.IntRange(0, 4).Draw(t, "alias")
	ctrl := gen.Ctrl(t, "ctrl")
	if alias >= 3 {
		q = p
	}
	lp, repP := represent(t, p, "repP")
	lq, repQ := represent(t, q, "repQ")
	junk := gen.Point(t, "junk").P
	lr, _ := represent(t, junk, "repR")
	rcvZero := alias == 0 && rapid.IntRange(0, 4).Draw(t, "zero-rcv") == 0
	if rcvZero {
		lr = &secp256k1.Point{}
	}
	switch alias {
	case 1:
		lr = lp
	case 2:
		lr = lq
	case 3:
		lq = lp
	case 4:
		lq, lr = lp, lp
	}
	pEnc, qEnc := p.Uncompressed(), q.Uncompressed()

	var want ref.Pt
	var ret *secp256k1.Point
	hasPoint := true
	switch op {
	case "add":
		ret, want = lr.Add(lp, lq), p.Add(q)
	case "sub":
		ret, want = lr.Subtract(lp, lq), p.Sub(q)
	case "double":
		ret, want = lr.Double(lp), p.Double()
	case "neg":
		ret, want = lr.Negate(lp), p.Neg()
	case "condneg":
		ret, want = lr.ConditionalNegate(lp, ctrl), p
		if ctrl != 0 {
			want = p.Neg()
		}
	case "condsel":
		ret, want = lr.ConditionalSelect(lp, lq, ctrl), p
		if ctrl != 0 {
			want = q
		}
	case "set":
		ret, want = lr.Set(lp), p
	case "newfrom":
		lr = secp256k1.NewPointFrom(lp)
		ret, want = lr, p
	case "equal":
		hasPoint = false
		var we uint64
		if p.Eq(q) {
			we = 1
		}
		if lp.Equal(lq) != we || lq.Equal(lp) != we {
			t.Fatalf("Equal(%v [%s], %v [%s]) != %d", p, repP, q, repQ, we)
		}
	}
	classes := []string{"op:" + op, "rel:" + rel, fmt.Sprintf("alias:%d", alias), "repP:" + repP, "repQ:" + repQ}
	if hasPoint && want.Inf {
		classes = append(classes, "result=O")
	}
	nontrivial := rel != gen.RelIndependent || alias != 0 || repP != "affine" || repQ != "affine" || p.Inf || q.Inf ||
		(op == "equal" && !p.Eq(q)) || ((op == "condneg" || op == "condsel") && ctrl > 1)
	stat.Case("pairops", classes, nontrivial, []byte(fmt.Sprintf("%s|%x|%x|%d|%d|%s|%s", op, pEnc, qEnc, alias, ctrl, repP, repQ)), func() any {
		return map[string]any{"op": op, "P": p.String(), "Q": q.String(), "relation": rel, "alias": alias, "ctrl": ctrl, "repP": repP, "repQ": repQ}
	})
	if hasPoint {
		if ret != lr {
			t.Fatalf("%s: returned pointer is not the receiver", op)
		}
		checkPoint(t, fmt.Sprintf("%s(%v [%s], %v [%s]) alias=%d ctrl=%d", op, p, repP, q, repQ, alias, ctrl), lr, want)
	}
	// operands that are not the receiver are unchanged (as abstract points)
	if lp != lr && !bytes.Equal(lp.UncompressedBytes(), pEnc) {
		t.Fatalf("%s: operand P changed", op)
	}
	if lq != lr && !bytes.Equal(lq.UncompressedBytes(), qEnc) {
		t.Fatalf("%s: operand Q changed", op)
	}
}

func TestC03_PairOps(t *testing.T) { rapid.Check(t, propPairOps) }

// propRepIndependence: two representatives of the same point are
// indistinguishable through every observer and give Equal results.
func propRepIndependence(t *rapid.T) {
	p, q, rel := gen.PointPair(t, "pq")
	p1, r1 := represent(t, p, "rep1")
	p2, r2 := represent(t, p, "rep2")
	lq, rq := represent(t, q, "repQ")
	stat.Case("repindep", []string{"rel:" + rel, "rep1:" + r1, "rep2:" + r2}, r1 != r2 || r1 != "affine", []byte(fmt.Sprintf("%x|%x|%s|%s|%s", p.Uncompressed(), q.Uncompressed(), r1, r2, rq)), func() any {
		return map[string]any{"P": p.String(), "Q": q.String(), "relation": rel, "rep1": r1, "rep2": r2, "repQ": rq}
	})
	if p1.Equal(p2) != 1 {
		t.Fatalf("two representatives of %v are not Equal", p)
	}
	if !bytes.Equal(p1.UncompressedBytes(), p2.UncompressedBytes()) || !bytes.Equal(p1.CompressedBytes(), p2.CompressedBytes()) {
		t.Fatalf("encodings of %v depend on the representative", p)
	}
	if p1.IsIdentity() != p2.IsIdentity() {
		t.Fatal("IsIdentity depends on the representative")
	}
	if !p.Inf && p1.IsYOdd() != p2.IsYOdd() {
		t.Fatal("IsYOdd depends on the representative")
	}
	if p1.Equal(lq) != p2.Equal(lq) {
		t.Fatal("Equal depends on the representative")
	}
	a := secp256k1.NewIdentityPoint().Add(p1, lq)
	b := secp256k1.NewIdentityPoint().Add(lq, p2)
	if a.Equal(b) != 1 {
		t.Fatalf("Add(%v,%v) depends on the representative / operand order", p, q)
	}
	d1 := secp256k1.NewIdentityPoint().Double(p1)
	d2 := secp256k1.NewIdentityPoint().Add(p2, p1)
	if d1.Equal(d2) != 1 {
		t.Fatalf("Double(P) != Add(P,P) for %v", p)
	}
}

func TestC03_RepIndependence(t *testing.T) { rapid.Check(t, propRepIndependence) }

// propMachine: a pool of points mirrored by affine reference points; every
// result is fed back as an operand of later steps (representation drift).
func propMachine(t *rapid.T) {
	const slots = 6
	var (
		pool  [slots]*secp256k1.Point
		model [slots]ref.Pt
	)
	for i := range pool {
		model[i] = gen.Point(t, fmt.Sprintf("init%d", i)).P
		pool[i], _ = represent(t, model[i], fmt.Sprintf("rep%d", i))
	}
	steps, aliased, rerep := 0, 0, 0
	var trace []string
	slot := func(l string) int { return rapid.IntRange(0, slots-1).Draw(t, l) }
	rec := func(op string, r, a, b int) {
		steps++
		if r == a || r == b || a == b {
			aliased++
		}
		if len(trace) < 40 {
			trace = append(trace, fmt.Sprintf("%s r%d a%d b%d", op, r, a, b))
		}
	}
	t.Repeat(map[string]func(*rapid.T){
		"add": func(t *rapid.T) {
			r, a, b := slot("r"), slot("a"), slot("b")
			rec("add", r, a, b)
			w := model[a].Add(model[b])
			pool[r].Add(pool[a], pool[b])
			model[r] = w
		},
		"sub": func(t *rapid.T) {
			r, a, b := slot("r"), slot("a"), slot("b")
			rec("sub", r, a, b)
			w := model[a].Sub(model[b])
			pool[r].Subtract(pool[a], pool[b])
			model[r] = w
		},
		"double": func(t *rapid.T) {
			r, a := slot("r"), slot("a")
			rec("double", r, a, -1)
			w := model[a].Double()
			pool[r].Double(pool[a])
			model[r] = w
		},
		"neg": func(t *rapid.T) {
			r, a := slot("r"), slot("a")
			rec("neg", r, a, -1)
			w := model[a].Neg()
			pool[r].Negate(pool[a])
			model[r] = w
		},
		"condneg": func(t *rapid.T) {
			r, a := slot("r"), slot("a")
			ctrl := gen.Ctrl(t, "ctrl")
			rec("condneg", r, a, -1)
			w := model[a]
			if ctrl != 0 {
				w = w.Neg()
			}
			pool[r].ConditionalNegate(pool[a], ctrl)
			model[r] = w
		},
		"condsel": func(t *rapid.T) {
			r, a, b := slot("r"), slot("a"), slot("b")
			ctrl := gen.Ctrl(t, "ctrl")
			rec("condsel", r, a, b)
			w := model[a]
			if ctrl != 0 {
				w = model[b]
			}
			pool[r].ConditionalSelect(pool[a], pool[b], ctrl)
			model[r] = w
		},
		"set": func(t *rapid.T) {
			r, a := slot("r"), slot("a")
			rec("set", r, a, -1)
			pool[r].Set(pool[a])
			model[r] = model[a]
		},
		"identity": func(t *rapid.T) {
			r := slot("r")
			rec("identity", r, -1, -2)
			pool[r].Identity()
			model[r] = ref.Infinity()
		},
		"generator": func(t *rapid.T) {
			r := slot("r")
			rec("generator", r, -1, -2)
			pool[r].Generator()
			model[r] = ref.G()
		},
		"rerepresent": func(t *rapid.T) {
			r := slot("r")
			rec("rerepresent", r, -1, -2)
			rerep++
			pool[r], _ = represent(t, model[r], "rerep")
		},
		"reload-related": func(t *rapid.T) { // make slot r the negation / equal / double of slot a, via a fresh decode
			r, a := slot("r"), slot("a")
			rec("reload", r, a, -1)
			switch rapid.IntRange(0, 2).Draw(t, "how") {
			case 0:
				model[r] = model[a].Neg()
			case 1:
				model[r] = model[a]
			default:
				model[r] = model[a].Double()
			}
			pool[r] = lib.Pt(model[r])
		},
		"rejected-decode": func(t *rapid.T) {
			// a point object the group operations work on is also the receiver of decoders: an encoding that
			// is refused must leave it the point it was (the next operations below go on with it)
			r := slot("r")
			rec("rejected-decode", r, -1, -2)
			q := gen.NonIdentityPoint(t, "other").P
			var enc []byte
			switch rapid.IntRange(0, 5).Draw(t, "why") {
			case 0: // canonical x, y >= p
				enc = append(append([]byte{4}, ref.B32(q.X)...), ref.B32(new(big.Int).Add(ref.P, gen.Small(t, "yover")))...)
			case 1: // x >= p
				enc = append(append([]byte{4}, ref.B32(new(big.Int).Add(ref.P, gen.Small(t, "xover")))...), ref.B32(q.Y)...)
			case 2: // off the curve
				enc = q.Uncompressed()
				enc[64] ^= 1
			case 3: // compressed, x^3 + 7 not a square
				x := new(big.Int).Set(q.X)
				for {
					if _, ok := ref.LiftX(x, false); !ok {
						break
					}
					x = ref.AddM(x, big.NewInt(1), ref.P)
				}
				enc = append([]byte{2}, ref.B32(x)...)
			case 4: // hybrid prefix
				enc = q.Uncompressed()
				enc[0] = 6 + enc[64]&1
			default: // truncated
				enc = q.Compressed()[:32]
			}
			if _, err := pool[r].SetBytes(enc); err == nil {
				t.Fatalf("SetBytes accepted %x", enc)
			}
		},
		"decode-into": func(t *rapid.T) {
			// ... and an accepted one (the identity's single byte included) replaces what it held
			r := slot("r")
			rec("decode-into", r, -1, -2)
			q := gen.Point(t, "decoded").P
			enc := q.Uncompressed()
			if !q.Inf && rapid.Bool().Draw(t, "compressed") {
				enc = q.Compressed()
			}
			if _, err := pool[r].SetBytes(enc); err != nil {
				t.Fatalf("SetBytes(%x): %v", enc, err)
			}
			model[r] = q
		},
		"": func(t *rapid.T) {
			for i := range pool {
				if u := pool[i].UncompressedBytes(); !bytes.Equal(u, model[i].Uncompressed()) {
					t.Fatalf("slot %d: %x, want %v (trace %v)", i, u, model[i], trace)
				}
				checkCoords(t, fmt.Sprintf("slot %d", i), pool[i])
				for j := range pool {
					var we uint64
					if model[i].Eq(model[j]) {
						we = 1
					}
					if pool[i].Equal(pool[j]) != we {
						t.Fatalf("Equal(slot %d, slot %d) != %d (trace %v)", i, j, we, trace)
					}
				}
			}
		},
	})
	stat.Case("machine", []string{fmt.Sprintf("steps>=%d", steps/10*10)}, steps >= 5 && (aliased > 0 || rerep > 0), []byte(fmt.Sprint(trace)), func() any {
		return map[string]any{"steps": steps, "aliased_steps": aliased, "rerepresented": rerep, "trace": trace}
	})
}

func TestC03_Machine(t *testing.T) { rapid.Check(t, propMachine) }
