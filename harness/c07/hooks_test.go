//go:build verif

package c07

import (
	"math/big"

	"pgregory.net/rapid"

	"gitlab.com/yawning/secp256k1-voi/secec"
	"gitlab.com/yawning/secp256k1-voi/verifharness/lib"
)

// checkPrivatePath: the SEC 1 4.1.5 alternative verifying operation (used
// by SelfVerify) must give the same verdict as the public-key path.
func checkPrivatePath(t *rapid.T, d *big.Int, digest []byte, r, s *big.Int, want bool) {
	var got bool
	if p := lib.Catch(func() { got = secec.VerifVerifyWithPrivateKey(lib.PrivKey(d), digest, lib.Sc(r), lib.Sc(s)) }); p != nil {
		t.Fatalf("private-key verification path panicked: %v", p)
	}
	if got != want {
		t.Fatalf("private-key verification path (d=%x, digest=%x, r=%x, s=%x) = %v, want %v", d, digest, r, s, got, want)
	}
}
