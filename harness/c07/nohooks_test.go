//go:build !verif

package c07

import (
	"math/big"

	"pgregory.net/rapid"
)

func checkPrivatePath(*rapid.T, *big.Int, []byte, *big.Int, *big.Int, bool) {}
