package c07

import (
	"bytes"
	"crypto"
	"fmt"
	"math/big"
	"testing"

	"pgregory.net/rapid"

	"gitlab.com/yawning/secp256k1-voi/secec"
	"gitlab.com/yawning/secp256k1-voi/secec/bitcoin"
	"gitlab.com/yawning/secp256k1-voi/verifharness/gen"
	"gitlab.com/yawning/secp256k1-voi/verifharness/lib"
	"gitlab.com/yawning/secp256k1-voi/verifharness/ref"
	"gitlab.com/yawning/secp256k1-voi/verifharness/stat"
)

// propOverlapping: verdicts of verifications that overlap in time.  Valid signatures and one-edit neighbours, digests
// of different lengths, checked from several goroutines at once through VerifyRaw, Verify (ASN.1 / compact) and the
// Bitcoin entry point, on shared and on separate key objects; every verdict must be the reference's.
func propOverlapping(t *rapid.T) {
	n := rapid.IntRange(3, 7).Draw(t, "tuples")
	var calls []func() string
	var want []string
	var key bytes.Buffer
	var prevKey *secec.PublicKey
	prevD := gen.NonZero256(t, ref.N, "d")
	for i := 0; i < n; i++ {
		d := prevD
		if rapid.Bool().Draw(t, fmt.Sprintf("newkey%d", i)) {
			d = gen.NonZero256(t, ref.N, fmt.Sprintf("d%d", i))
			prevKey = nil
		}
		prevD = d
		q := ref.BaseMul(d)
		k := gen.NonZero256(t, ref.N, fmt.Sprintf("k%d", i))
		dlen := gen.Sampled([]int{32, 32, 48, 64}).Draw(t, fmt.Sprintf("dlen%d", i))
		digest := gen.Bytes(t, dlen, dlen, fmt.Sprintf("dg%d", i))
		r, s, _, ok := ref.ECDSASignWithNonce(d, k, digest)
		if !ok {
			t.Skip("degenerate nonce")
		}
		s, _ = ref.LowS(s)
		switch gen.Sampled([]string{"none", "none", "none", "s+1", "r+1", "digest-bit"}).Draw(t, fmt.Sprintf("edit%d", i)) {
		case "s+1":
			s = ref.AddM(s, big.NewInt(1), ref.N)
		case "r+1":
			r = ref.AddM(r, big.NewInt(1), ref.N)
		case "digest-bit":
			digest[0] ^= 0x10
		}
		if r.Sign() == 0 || s.Sign() == 0 {
			t.Skip("zero component")
		}
		w := ref.ECDSAVerify(q, digest, r, s)
		pub := prevKey
		if pub == nil || rapid.Bool().Draw(t, fmt.Sprintf("ownobj%d", i)) {
			pub = lib.PubKey(q)
		}
		prevKey = pub
		lr, ls := lib.Sc(r), lib.Sc(s)
		der := ref.EncodeDERSig(r, s)
		compact := append(ref.B32(r), ref.B32(s)...)
		route := gen.Sampled([]string{"raw", "asn1", "compact", "bitcoin"}).Draw(t, fmt.Sprintf("route%d", i))
		wantRoute := w
		switch route {
		case "raw":
			calls = append(calls, func() string { return fmt.Sprint(pub.VerifyRaw(digest, lr, ls)) })
		case "asn1":
			calls = append(calls, func() string { return fmt.Sprint(pub.Verify(digest, der, nil)) })
		case "compact":
			wantRoute = w && len(digest) == crypto.SHA256.Size() // digest-length rule for the selected hash
			calls = append(calls, func() string {
				return fmt.Sprint(pub.Verify(digest, compact, &secec.ECDSAOptions{Hash: crypto.SHA256, Encoding: secec.EncodingCompact}))
			})
		case "bitcoin":
			sig := append(append([]byte(nil), der...), 1)
			wantRoute = w && len(digest) == crypto.SHA256.Size() && func() bool { _, neg := ref.LowS(s); return !neg }()
			calls = append(calls, func() string { return fmt.Sprint(bitcoin.VerifyASN1(pub, digest, sig)) })
		}
		want = append(want, fmt.Sprint(wantRoute))
		fmt.Fprintf(&key, "%s|%x|%x|%x|%x;", route, q.Compressed(), digest, r, s)
	}
	g := gen.Sampled([]int{2, 3, 4, 8}).Draw(t, "goroutines")
	stat.Case("overlapping", []string{fmt.Sprintf("goroutines:%d", g), fmt.Sprintf("tuples:%d", n)}, true, key.Bytes(), func() any {
		return map[string]any{"tuples": n, "goroutines": g, "expected_verdicts": want}
	})
	if msg := lib.Overlap(calls, want, g, 3); msg != "" {
		t.Fatalf("verification: %s", msg)
	}
}

func TestC07_Overlapping(t *testing.T) { rapid.Check(t, propOverlapping) }
