// Package c07: ECDSA verification accepts exactly the signatures SEC 1
// section 4.1.4 accepts (plus the documented option layer).
package c07

import (
	"crypto"
	"fmt"
	"math/big"
	"strings"
	"testing"

	"pgregory.net/rapid"

	"gitlab.com/yawning/secp256k1-voi/secec"
	"gitlab.com/yawning/secp256k1-voi/secec/bitcoin"
	"gitlab.com/yawning/secp256k1-voi/verifharness/gen"
	"gitlab.com/yawning/secp256k1-voi/verifharness/lib"
	"gitlab.com/yawning/secp256k1-voi/verifharness/ref"
	"gitlab.com/yawning/secp256k1-voi/verifharness/stat"
)

func TestMain(m *testing.M) { stat.Main(m) }

// sigCase is one (Q, digest, r, s) tuple with its provenance.
type sigCase struct {
	q      ref.Pt
	d      *big.Int // private scalar when known, else nil
	digest []byte
	r, s   *big.Int // any values in [0, 2^256)
	how    string
	cls    []string
	rPoint ref.Pt // the R the construction used (when meaningful)
	// aliasOfX: r is a near-miss alias of x(R) and nothing else is wrong with the tuple; the recoverable
	// encoding with the overflow bit of the recovery id flipped is then the forgery attempt to try
	aliasOfX bool
}

// construct builds a tuple from one of the accept-side constructions and
// then optionally applies one reject-side edit.
func construct(t *rapid.T, friendly bool) sigCase {
	how := gen.Sampled([]string{"honest", "chosen-R", "chosen-R", "R=O", "random", "exceptional-window"}).Draw(t, "how")
	if friendly && (how == "R=O" || how == "random") {
		how = "chosen-R"
	}
	dlen := 32
	switch rapid.IntRange(0, 9).Draw(t, "longdigest") {
	case 0, 1:
		dlen = rapid.IntRange(33, 64).Draw(t, "dlen")
	case 2:
		// longer than any hash output: the statement puts no upper bound on the digest ("e is the leftmost
		// 256 bits of the digest"), and with no hash selected the library documents none either
		dlen = rapid.IntRange(65, 160).Draw(t, "dlen-over")
	}
	alias := rapid.Bool().Draw(t, "alias-digest")
	var c sigCase
	c.how = how
	switch how {
	case "honest":
		d := gen.NonZero256(t, ref.N, "d")
		k := gen.NonZero256(t, ref.N, "k")
		e := gen.EValue(t, "e")
		var aliased bool
		c.digest, aliased = gen.Digest(t, ref.Mod(e, ref.N), dlen, alias, "dg")
		if !aliased && rapid.Bool().Draw(t, "raw-e") {
			c.digest, _ = gen.Digest(t, e, dlen, false, "dg")
		}
		r, s, _, ok := ref.ECDSASignWithNonce(d, k, c.digest)
		if !ok {
			t.Skip("degenerate nonce")
		}
		c.d, c.q, c.r, c.s = d, ref.BaseMul(d), r, s
		c.rPoint = ref.BaseMul(k)
	case "chosen-R":
		R := gen.NonIdentityPoint(t, "R").P
		if rapid.IntRange(0, 2).Draw(t, "force-x>=n") == 0 { // x(R) in [n,p): r = x - n is tiny
			xr := new(big.Int).Add(ref.N, gen.Small(t, "xoff"))
			for {
				if pt, ok := ref.LiftX(xr, rapid.Bool().Draw(t, "Rodd")); ok {
					R = pt
					break
				}
				xr.Add(xr, big.NewInt(1))
			}
		}
		r := ref.Mod(R.X, ref.N)
		// near-miss aliases of x(R): the whole equation is then built around r' (so the verifier's
		// internal R is exactly this R) and only the final "x(R) mod n == r" comparison decides.
		// They are the hostile inputs for comparisons that wrap mod p or mod 2^256, look at the wrong
		// coordinate, or skip the reduction.  The reference decides the verdict.
		ralias := gen.Sampled([]string{"exact", "exact", "exact", "exact", "x+(p-n)", "x+(2^256-n)", "x+(2^256-p)", "y(R)", "-x", "x+1", "x(2R)", "x-(p-n)", "mont-near", "mont-near", "limb-near"}).Draw(t, "r-alias")
		if friendly || R.X.Cmp(ref.N) >= 0 {
			ralias = "exact" // (x(R) >= n: keep r = x - n exact, that class is about the reduction and the r+n encoding)
		}
		two256 := new(big.Int).Lsh(big.NewInt(1), 256)
		switch ralias {
		case "x+(p-n)":
			r = new(big.Int).Add(R.X, new(big.Int).Sub(ref.P, ref.N))
		case "x-(p-n)":
			r = new(big.Int).Sub(R.X, new(big.Int).Sub(ref.P, ref.N))
		case "x+(2^256-n)":
			r = new(big.Int).Add(R.X, new(big.Int).Sub(two256, ref.N))
		case "x+(2^256-p)":
			r = new(big.Int).Add(R.X, new(big.Int).Sub(two256, ref.P))
		case "y(R)":
			r = new(big.Int).Set(R.Y)
		case "-x":
			r = new(big.Int).Neg(R.X)
		case "x+1":
			r = new(big.Int).Add(R.X, big.NewInt(1))
		case "x(2R)":
			r = new(big.Int).Set(R.Double().X)
		case "mont-near":
			// r' differs from x(R) mod n in a small part of one internal (Montgomery) limb only: what a limb-wise
			// comparison that drops or repeats a limb calls equal
			if v := gen.MontNear(t, ref.N, r, "rmn"); v != nil && v.Sign() != 0 {
				r = v
			} else {
				ralias = "exact"
			}
		case "limb-near":
			// the same for the plain integer: one 64-bit word replaced / one bit flipped
			w := uint(64 * rapid.IntRange(0, 3).Draw(t, "rln-limb"))
			mask := new(big.Int).Lsh(new(big.Int).SetUint64(rapid.Uint64().Draw(t, "rln-mask")|1<<uint(rapid.IntRange(0, 63).Draw(t, "rln-bit"))), w)
			if v := new(big.Int).Xor(r, mask); v.Sign() > 0 && v.Cmp(ref.N) < 0 {
				r = v
			} else {
				ralias = "exact"
			}
		}
		if ralias != "exact" {
			// only keep aliases that are canonical scalars as integers (a verifier never sees anything else)
			if r.Sign() <= 0 || r.Cmp(ref.N) >= 0 {
				r = ref.Mod(r, ref.N)
			}
			c.cls = append(c.cls, "r-alias:"+ralias)
		}
		if r.Sign() == 0 {
			t.Skip("r = 0")
		}
		s := gen.SSpecial(t, "s")
		if rapid.IntRange(0, 3).Draw(t, "glv-u2") == 0 {
			// the verifier multiplies Q by u2 = r/s with the variable-time GLV routine: pick u2 at the
			// decomposition's rare corners (extreme halves, rounding carry across a limb) and solve for s
			if u2, _ := gen.GLVScalar(t, "u2"); u2.Sign() != 0 {
				s = ref.MulM(r, ref.Inv0(u2, ref.N), ref.N)
				c.cls = append(c.cls, "u2-glv-steered")
			}
		}
		e := ref.Mod(gen.EValue(t, "e"), ref.N)
		c.digest, _ = gen.Digest(t, e, dlen, alias, "dg")
		// Q = r^-1 (sR - eG)
		q := R.Mul(s).Sub(ref.BaseMul(e)).Mul(ref.Inv0(r, ref.N))
		if q.Inf {
			t.Skip("Q = O")
		}
		c.q, c.r, c.s, c.rPoint = q, r, s, R
		if R.X.Cmp(ref.N) >= 0 {
			c.cls = append(c.cls, "x(R)>=n")
		}
	case "exceptional-window":
		// verification evaluates u1*G + u2*Q (u1 = e/s, u2 = r/s): with Q = d*G, (u1, u2) are solved so that an
		// accumulator started at u2*Q meets the fixed-base table entry it is about to add (gen.ExceptionalDouble);
		// R = (u1 + u2*d)*G fixes r, then s = r/u2 and e = u1*s.  The signature is valid.
		d, u1, u2, kind := gen.ExceptionalDouble(t, "xw")
		R := ref.BaseMul(ref.Mod(new(big.Int).Add(u1, new(big.Int).Mul(u2, d)), ref.N))
		if R.Inf || u2.Sign() == 0 || ref.Mod(R.X, ref.N).Sign() == 0 {
			t.Skip("degenerate exceptional-window construction")
		}
		r := ref.Mod(R.X, ref.N)
		s := ref.MulM(r, ref.Inv0(u2, ref.N), ref.N)
		c.digest, _ = gen.Digest(t, ref.MulM(u1, s, ref.N), dlen, alias, "dg")
		c.d, c.q, c.r, c.s, c.rPoint = d, ref.BaseMul(d), r, s, R
		c.cls = append(c.cls, kind)
	case "R=O":
		// u1*G + u2*Q = ((e + r*d)/s) G = O  <=>  e = -r*d
		d := gen.NonZero256(t, ref.N, "d")
		r := gen.NonZero256(t, ref.N, "r")
		s := gen.SSpecial(t, "s")
		e := ref.NegM(ref.MulM(r, d, ref.N), ref.N)
		c.digest, _ = gen.Digest(t, e, dlen, alias, "dg")
		c.d, c.q, c.r, c.s = d, ref.BaseMul(d), r, s
		c.cls = append(c.cls, "R=O")
	default:
		c.q = gen.NonIdentityPoint(t, "Q").P
		c.digest = gen.Bytes(t, 32, 64, "dg")
		c.r, c.s = gen.Raw256(t, ref.N, "r"), gen.Raw256(t, ref.N, "s")
	}
	// optional single edit (reject side, or the high-s twin which stays valid)
	edit := gen.Sampled([]string{"none", "none", "none", "high-s-twin", "r+1", "r-1", "s+1", "s-1", "digest-bit", "other-key",
		"-Q", "r=0", "s=0", "r+n", "s+n", "r=n", "s=n", "s=2^256-1", "short-digest", "e+1"}).Draw(t, "edit")
	if friendly && edit != "high-s-twin" {
		edit = "none"
	}
	if len(c.cls) > 0 && strings.HasPrefix(c.cls[len(c.cls)-1], "r-alias:") && rapid.Bool().Draw(t, "alias-unedited") {
		edit, c.aliasOfX = "none", true // keep the alias tuple otherwise intact: only the final comparison decides
	}
	if !friendly && c.r != nil && new(big.Int).Add(c.r, ref.N).BitLen() <= 256 && rapid.Bool().Draw(t, "force-r+n") {
		edit = "r+n" // r is tiny (x(R) in [n,p) or a small abscissa), so the alias r+n still fits the 32-byte field
	}
	switch edit {
	case "high-s-twin":
		c.s = ref.NegM(c.s, ref.N)
	case "r+1":
		c.r = new(big.Int).Add(c.r, big.NewInt(1))
	case "r-1":
		c.r = new(big.Int).Sub(c.r, big.NewInt(1))
	case "s+1":
		c.s = new(big.Int).Add(c.s, big.NewInt(1))
	case "s-1":
		c.s = new(big.Int).Sub(c.s, big.NewInt(1))
	case "digest-bit":
		bit := rapid.IntRange(0, len(c.digest)*8-1).Draw(t, "dbit")
		c.digest = append([]byte(nil), c.digest...)
		c.digest[bit/8] ^= 1 << (7 - bit%8)
		if bit >= 256 {
			edit = "digest-tail-bit" // must NOT change the verdict
		}
	case "other-key":
		c.q, c.d = c.q.Add(ref.G()), nil
		if c.q.Inf {
			c.q = ref.G()
		}
	case "-Q":
		c.q, c.d = c.q.Neg(), nil
	case "r=0":
		c.r = big.NewInt(0)
	case "s=0":
		c.s = big.NewInt(0)
	case "r+n":
		c.r = new(big.Int).Add(c.r, ref.N)
	case "s+n":
		c.s = new(big.Int).Add(c.s, ref.N)
	case "r=n":
		c.r = new(big.Int).Add(ref.N, big.NewInt(int64(rapid.IntRange(0, 1).Draw(t, "np1"))))
	case "s=n":
		c.s = new(big.Int).Add(ref.N, big.NewInt(int64(rapid.IntRange(0, 1).Draw(t, "np1"))))
	case "s=2^256-1":
		c.s = new(big.Int).Sub(ref.Two256, big.NewInt(1))
	case "short-digest":
		c.digest = c.digest[:rapid.IntRange(0, 31).Draw(t, "short")]
	case "e+1":
		e := new(big.Int).Add(ref.Int(c.digest[:32]), big.NewInt(1))
		if e.BitLen() <= 256 {
			c.digest = append(ref.B32(e), c.digest[32:]...)
		}
	}
	for _, v := range []*big.Int{c.r, c.s} {
		if v.Sign() < 0 {
			v.Add(v, ref.Two256)
		}
		if v.BitLen() > 256 {
			v.Mod(v, ref.Two256)
		}
	}
	c.cls = append(c.cls, "how:"+how, "edit:"+edit)
	if len(c.digest) >= 32 {
		e := ref.Int(c.digest[:32])
		if e.Cmp(ref.N) >= 0 {
			c.cls = append(c.cls, "e>=n")
		}
		if ref.Mod(e, ref.N).Sign() == 0 {
			c.cls = append(c.cls, "e=0")
		}
	}
	if len(c.digest) != 32 {
		c.cls = append(c.cls, "digest-len!=32")
	}
	if c.s.Cmp(ref.HalfN) == 0 || new(big.Int).Sub(c.s, ref.HalfN).Cmp(big.NewInt(1)) == 0 {
		c.cls = append(c.cls, "s-at-half-order")
	}
	return c
}

func inScalarRange(v *big.Int) bool { return v.Cmp(ref.N) < 0 }

func propVerifyRaw(t *rapid.T) {
	c := construct(t, rapid.IntRange(0, 3).Draw(t, "friendly") == 0)
	// VerifyRaw takes Scalars, which can only hold [0,n): reduce like a caller would have to
	r, s := ref.Mod(c.r, ref.N), ref.Mod(c.s, ref.N)
	want := ref.ECDSAVerify(c.q, c.digest, r, s)
	acc := "reject"
	if want {
		acc = "accept"
	}
	stat.Case("verifyraw", append(c.cls, acc), true, []byte(fmt.Sprintf("%x|%x|%x|%x", c.q.Compressed(), c.digest, r, s)), func() any {
		return map[string]any{"Q": c.q.String(), "digest": stat.Hex(c.digest), "r": r.Text(16), "s": s.Text(16), "built": c.how, "expect": acc}
	})
	pk := lib.PubKey(c.q)
	// the verifier's key object may have been used by other parts of the API before (keys are immutable)
	if use, msg := lib.UsePublicKeyElsewhere(t, pk, c.q, "pk"); msg != "" {
		t.Fatalf("public key %v, use %s: %s", c.q, use, msg)
	}
	lr, ls := lib.Sc(r), lib.Sc(s)
	var got bool
	if rapid.IntRange(0, 4).Draw(t, "faulted-signing-before") == 0 {
		// the process also signs, and a signing call just failed on its entropy source
		lib.FaultedSigning(t, "fs")
	}
	adj, unchanged := gen.Adjacent(c.digest)
	defer func() {
		if !unchanged() {
			t.Fatalf("VerifyRaw modified its caller's buffer (digest %x)", c.digest)
		}
	}()
	if p := lib.Catch(func() { got = pk.VerifyRaw(adj[0], lr, ls) }); p != nil {
		t.Fatalf("VerifyRaw panicked: %v", p)
	}
	if got != want {
		t.Fatalf("VerifyRaw(Q=%v, digest=%x, r=%x, s=%x) = %v, SEC 1 4.1.4 says %v [%v]", c.q, c.digest, r, s, got, want, c.cls)
	}
	if lib.ScInt(lr).Cmp(r) != 0 || lib.ScInt(ls).Cmp(s) != 0 {
		t.Fatal("VerifyRaw modified r or s")
	}
	// follow-up calls on the same key object: a related query (one digest bit flipped, or the
	// negated key), then the original again -- a verdict or a table memoised across calls must not leak
	if len(c.digest) >= 32 && rapid.Bool().Draw(t, "follow-up") {
		alt := append([]byte(nil), c.digest...)
		alt[rapid.IntRange(0, 31).Draw(t, "fbyte")] ^= 1 << uint(rapid.IntRange(0, 7).Draw(t, "fbit"))
		if g2, w2 := pk.VerifyRaw(alt, lr, ls), ref.ECDSAVerify(c.q, alt, r, s); g2 != w2 {
			t.Fatalf("VerifyRaw(Q=%v, digest=%x, r=%x, s=%x) = %v right after verifying digest %x, SEC 1 says %v", c.q, alt, r, s, g2, c.digest, w2)
		}
		if g3 := lib.PubKey(c.q.Neg()).VerifyRaw(c.digest, lr, ls); g3 != ref.ECDSAVerify(c.q.Neg(), c.digest, r, s) {
			t.Fatalf("VerifyRaw under -Q right after verifying under Q: %v", g3)
		}
		if g4 := pk.VerifyRaw(c.digest, lr, ls); g4 != want {
			t.Fatalf("VerifyRaw(Q=%v, digest=%x, r=%x, s=%x) = %v on the second identical call, %v on the first", c.q, c.digest, r, s, g4, got)
		}
	}
	if c.d != nil {
		checkPrivatePath(t, c.d, c.digest, r, s, want)
	}
	// "for every public key Q": also the key object that recovery hands out for this very signature - and which
	// the caller keeps while other verifications and recoveries run - is a key for Q
	if want && rapid.IntRange(0, 2).Draw(t, "via-recovered-key") == 0 {
		for id := 0; id < 4; id++ {
			rec, ok := ref.ECDSARecover(c.digest, r, s, id)
			if !ok || !rec.Eq(c.q) {
				continue
			}
			rq, err := secec.RecoverPublicKey(c.digest, lr, ls, byte(id))
			if err != nil {
				break // recovery is C11's subject
			}
			_ = pk.VerifyRaw(c.digest, lr, ls)
			_, _ = secec.RecoverPublicKey(c.digest, lr, ls, byte(id^1))
			if g5 := rq.VerifyRaw(c.digest, lr, ls); !g5 {
				t.Fatalf("VerifyRaw(digest=%x, r=%x, s=%x) = false under the key object recovered from this signature (Q=%v, id %d) once another verification and recovery had run; under an imported key for Q it is true", c.digest, r, s, c.q, id)
			}
			break
		}
	}
}

func TestC07_VerifyRaw(t *testing.T) { rapid.Check(t, propVerifyRaw) }

// encodeSig renders (r,s[,v]) in the chosen byte format, allowing
// out-of-range values (so the parser's range checks are exercised).
func encodeSig(enc secec.SignatureEncoding, r, s *big.Int, v byte) []byte {
	switch enc {
	case secec.EncodingCompact:
		return append(ref.B32(r), ref.B32(s)...)
	case secec.EncodingCompactRecoverable:
		return append(append(ref.B32(r), ref.B32(s)...), v)
	default:
		return ref.EncodeDERSig(r, s)
	}
}

// model is the documented option layer on top of SEC 1 4.1.4.
func model(q ref.Pt, digest, sig []byte, opts *secec.ECDSAOptions) bool {
	enc := secec.EncodingASN1
	rejectMalleable := false
	if opts != nil {
		if len(digest) != gen.HashSize(opts.Hash) {
			return false
		}
		enc, rejectMalleable = opts.Encoding, opts.RejectMalleable
	}
	var (
		r, s *big.Int
		v    byte
		ok   bool
	)
	switch enc {
	case secec.EncodingASN1:
		r, s, ok = ref.ParseDERSigStrict(sig)
	case secec.EncodingCompact:
		r, s, ok = ref.ParseCompactStrict(sig)
	case secec.EncodingCompactRecoverable:
		r, s, v, ok = ref.ParseCompactRecoverableStrict(sig)
	}
	if !ok {
		return false
	}
	if rejectMalleable && s.Cmp(ref.HalfN) > 0 {
		return false
	}
	if enc == secec.EncodingCompactRecoverable {
		if v > 3 {
			return false
		}
		rec, ok := ref.ECDSARecover(digest, r, s, int(v))
		return ok && rec.Eq(q)
	}
	return ref.ECDSAVerify(q, digest, r, s)
}

func propVerifyOpts(t *rapid.T) {
	friendly := rapid.Bool().Draw(t, "friendly")
	c := construct(t, friendly)
	var opts *secec.ECDSAOptions
	optDesc := "nil"
	if rapid.IntRange(0, 4).Draw(t, "nilopts") != 0 {
		opts = &secec.ECDSAOptions{
			Hash:            gen.Sampled(gen.HashChoices).Draw(t, "hash"),
			Encoding:        secec.SignatureEncoding(gen.Sampled([]int{0, 0, 1, 1, 2, 2, 3, -1, 100}).Draw(t, "enc")),
			RejectMalleable: rapid.Bool().Draw(t, "rm"),
			SelfVerify:      rapid.Bool().Draw(t, "sv"),
		}
		if c.aliasOfX && rapid.Bool().Draw(t, "alias-recoverable") {
			opts.Encoding = secec.EncodingCompactRecoverable
		}
		if friendly {
			opts.Encoding = secec.SignatureEncoding(rapid.IntRange(0, 2).Draw(t, "fenc"))
			opts.Hash = gen.Sampled(gen.WideHashChoices).Draw(t, "fhash")
			if want := gen.HashSize(opts.Hash); len(c.digest) > want {
				c.digest = c.digest[:want]
			} else if len(c.digest) < want {
				c.digest = append(c.digest, gen.Bytes(t, want-len(c.digest), want-len(c.digest), "fpad")...)
			}
		}
		// usually make the digest length admissible for the chosen hash
		if want := gen.HashSize(opts.Hash); len(c.digest) != want && want >= 32 && len(c.digest) >= 32 && rapid.IntRange(0, 3).Draw(t, "fixlen") != 0 {
			if want > len(c.digest) {
				c.digest = append(c.digest, gen.Bytes(t, want-len(c.digest), want-len(c.digest), "pad")...)
			} else {
				c.digest = c.digest[:want]
			}
		}
		optDesc = fmt.Sprintf("hash=%d enc=%d rm=%v", opts.Hash, opts.Encoding, opts.RejectMalleable)
	}
	enc := secec.EncodingASN1
	if opts != nil {
		enc = opts.Encoding
	}
	// recovery byte: the right one, a wrong one, or out of range
	var v byte
	vKind := "n/a"
	if enc == secec.EncodingCompactRecoverable {
		vKind = gen.Sampled([]string{"right", "right", "wrong", "+4", "any", "overflow-bit-flipped"}).Draw(t, "vkind")
		if c.aliasOfX && rapid.Bool().Draw(t, "alias-ovf") {
			vKind = "overflow-bit-flipped"
		}
		if friendly && rapid.IntRange(0, 3).Draw(t, "fv") != 0 {
			vKind = "right"
		}
		right := byte(0)
		if !c.rPoint.Inf && c.rPoint.X != nil {
			right = byte(c.rPoint.Y.Bit(0))
			if c.rPoint.X.Cmp(ref.N) >= 0 {
				right |= 2
			}
		}
		// the id that recovers Q is the one matching the R that satisfies the equation; for the high-s twin it flips parity.
		for id := 0; id < 4; id++ {
			if rec, ok := ref.ECDSARecover(c.digest, ref.Mod(c.r, ref.N), ref.Mod(c.s, ref.N), id); ok && rec.Eq(c.q) {
				right = byte(id)
				break
			}
		}
		switch vKind {
		case "right":
			v = right
		case "overflow-bit-flipped": // claims x(R) = r + n (or denies it): with an r that is an alias of x(R) this is the forgery attempt
			v = right ^ 2
		case "wrong":
			v = right ^ byte(rapid.IntRange(1, 3).Draw(t, "vx"))
		case "+4":
			v = right + 4*byte(rapid.IntRange(1, 63).Draw(t, "v4"))
		default:
			v = rapid.Byte().Draw(t, "v")
		}
	}
	sig := encodeSig(enc, c.r, c.s, v)
	if m := gen.Sampled([]string{"none", "none", "none", "none", "trail", "truncate", "der-pad", "empty"}).Draw(t, "sigmut"); m != "none" && !friendly {
		switch m {
		case "trail":
			sig = append(sig, 0)
		case "truncate":
			sig = sig[:len(sig)-1]
		case "der-pad":
			if enc == secec.EncodingASN1 && len(sig) > 4 && int(sig[3]) < 33 { // extra leading zero on r
				lr := int(sig[3])
				out := append([]byte{0x30, sig[1] + 1, 0x02, byte(lr + 1), 0x00}, sig[4:]...)
				sig = out
			}
		case "empty":
			sig = nil
		}
		c.cls = append(c.cls, "sigmut:"+m)
	}
	want := model(c.q, c.digest, sig, opts)
	acc := "reject"
	if want {
		acc = "accept"
	}
	cl := append(c.cls, acc, fmt.Sprintf("enc:%d", enc), "v:"+vKind)
	if opts == nil {
		cl = append(cl, "opts:nil")
	} else {
		cl = append(cl, fmt.Sprintf("hash:%d", opts.Hash), fmt.Sprintf("rm:%v", opts.RejectMalleable))
	}
	stat.Case("verifyopts", cl, true, []byte(fmt.Sprintf("%x|%x|%x|%s", c.q.Compressed(), c.digest, sig, optDesc)), func() any {
		return map[string]any{"Q": c.q.String(), "digest": stat.Hex(c.digest), "sig": stat.Hex(sig), "opts": optDesc, "built": c.how, "expect": acc}
	})
	pk := lib.PubKey(c.q)
	if use, msg := lib.UsePublicKeyElsewhere(t, pk, c.q, "pk"); msg != "" {
		t.Fatalf("public key %v, use %s: %s", c.q, use, msg)
	}
	var got bool
	adj, unchanged := gen.Adjacent(c.digest, sig) // arguments sliced out of one caller buffer
	if p := lib.Catch(func() { got = pk.Verify(adj[0], adj[1], opts) }); p != nil {
		t.Fatalf("Verify panicked: %v (opts %s)", p, optDesc)
	}
	if !unchanged() {
		t.Fatalf("Verify modified its caller's buffer (digest %x, sig %x, opts %s)", c.digest, sig, optDesc)
	}
	if got != want {
		t.Fatalf("Verify(Q=%v, digest=%x, sig=%x, opts={%s}) = %v, model says %v [%v]", c.q, c.digest, sig, optDesc, got, want, cl)
	}
}

func TestC07_VerifyOpts(t *testing.T) { rapid.Check(t, propVerifyOpts) }

func propBitcoin(t *rapid.T) {
	friendly := rapid.Bool().Draw(t, "friendly")
	c := construct(t, friendly)
	if friendly && len(c.digest) > 32 {
		c.digest = c.digest[:32]
	}
	low, _ := ref.LowS(ref.Mod(c.s, ref.N))
	if rapid.IntRange(0, 2).Draw(t, "lows") != 0 && low.Sign() != 0 {
		c.s = low
	}
	der := ref.EncodeDERSig(c.r, c.s)
	env := gen.Sampled([]string{"sighash", "sighash", "sighash", "no-sighash", "two-sighash", "long-len", "pad-r"}).Draw(t, "env")
	if friendly {
		env = "sighash"
	}
	sig := append([]byte(nil), der...)
	switch env {
	case "sighash":
		sig = append(sig, rapid.Byte().Draw(t, "sh"))
	case "two-sighash":
		sig = append(sig, 1, 1)
	case "long-len":
		sig = append(append([]byte{0x30, 0x81, der[1]}, der[2:]...), 1)
	case "pad-r":
		if int(der[3]) < 33 {
			sig = append(append([]byte{0x30, der[1] + 1, 0x02, der[3] + 1, 0x00}, der[4:]...), 1)
		} else {
			sig = append(sig, 1)
		}
	}
	if len(c.digest) != 32 && rapid.Bool().Draw(t, "fix32") && len(c.digest) > 32 {
		c.digest = c.digest[:32]
	}
	want := false
	if ref.IsBIP66(sig) {
		want = model(c.q, c.digest, sig[:len(sig)-1], &secec.ECDSAOptions{Hash: crypto.SHA256, Encoding: secec.EncodingASN1, RejectMalleable: true})
	}
	acc := "reject"
	if want {
		acc = "accept"
	}
	stat.Case("bitcoin", append(c.cls, acc, "env:"+env), true, []byte(fmt.Sprintf("%x|%x|%x", c.q.Compressed(), c.digest, sig)), func() any {
		return map[string]any{"Q": c.q.String(), "digest": stat.Hex(c.digest), "sig": stat.Hex(sig), "envelope": env, "expect": acc}
	})
	var got bool
	adj, unchanged := gen.Adjacent(sig, c.digest)
	defer func() {
		if !unchanged() {
			t.Fatalf("bitcoin.VerifyASN1 modified its caller's buffer (digest %x, sig %x)", c.digest, sig)
		}
	}()
	if p := lib.Catch(func() { got = bitcoin.VerifyASN1(lib.PubKey(c.q), adj[1], adj[0]) }); p != nil {
		t.Fatalf("bitcoin.VerifyASN1 panicked: %v", p)
	}
	if got != want {
		t.Fatalf("bitcoin.VerifyASN1(Q=%v, digest=%x, sig=%x) = %v, model says %v", c.q, c.digest, sig, got, want)
	}
}

func TestC07_Bitcoin(t *testing.T) { rapid.Check(t, propBitcoin) }
