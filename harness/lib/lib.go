// Package lib converts between reference values and library objects, only
// through the library's public (strict) entry points.
package lib

import (
	"fmt"
	"math/big"

	secp256k1 "gitlab.com/yawning/secp256k1-voi"
	"gitlab.com/yawning/secp256k1-voi/internal/field"
	"gitlab.com/yawning/secp256k1-voi/secec"
	"gitlab.com/yawning/secp256k1-voi/verifharness/ref"
)

// Fe builds a field element from v in [0,p).
func Fe(v *big.Int) *field.Element {
	fe, err := field.NewElement().SetCanonicalBytes((*[32]byte)(ref.B32(v)))
	if err != nil {
		panic(fmt.Sprintf("lib.Fe(%x): %v", v, err))
	}
	return fe
}

// FeInt reads a field element back through Bytes().
func FeInt(fe *field.Element) *big.Int { return ref.Int(fe.Bytes()) }

// Sc builds a scalar from v in [0,n).
func Sc(v *big.Int) *secp256k1.Scalar {
	s, err := secp256k1.NewScalarFromCanonicalBytes((*[32]byte)(ref.B32(v)))
	if err != nil {
		panic(fmt.Sprintf("lib.Sc(%x): %v", v, err))
	}
	return s
}

// ScInt reads a scalar back through Bytes().
func ScInt(s *secp256k1.Scalar) *big.Int { return ref.Int(s.Bytes()) }

// Pt builds a library point from a reference point through the strict
// uncompressed decoder (or NewIdentityPoint).
func Pt(p ref.Pt) *secp256k1.Point {
	if p.Inf {
		return secp256k1.NewIdentityPoint()
	}
	q, err := secp256k1.NewPointFromBytes(p.Uncompressed())
	if err != nil {
		panic(fmt.Sprintf("lib.Pt(%v): %v", p, err))
	}
	return q
}

// PtRef reads a library point back through UncompressedBytes and the
// reference strict decoder.  ok=false if the encoding does not decode.
func PtRef(p *secp256k1.Point) (ref.Pt, bool) {
	return ref.DecodePoint(p.UncompressedBytes())
}

// Catch runs f and returns the recovered panic value (nil if none).
func Catch(f func()) (r any) {
	defer func() { r = recover() }()
	f()
	return nil
}

// PubKey builds a secec.PublicKey from a finite reference point.
func PubKey(p ref.Pt) *secec.PublicKey {
	k, err := secec.NewPublicKey(p.Uncompressed())
	if err != nil {
		panic(fmt.Sprintf("lib.PubKey(%v): %v", p, err))
	}
	return k
}

// PrivKey builds a secec.PrivateKey from d in [1,n).
func PrivKey(d *big.Int) *secec.PrivateKey {
	k, err := secec.NewPrivateKey(ref.B32(d))
	if err != nil {
		panic(fmt.Sprintf("lib.PrivKey(%x): %v", d, err))
	}
	return k
}
