// Package lib converts between reference values and library objects, only
// through the library's public (strict) entry points.
package lib

import (
	"fmt"
	"math/big"

	secp256k1 "gitlab.com/yawning/secp256k1-voi"
	"gitlab.com/yawning/secp256k1-voi/internal/field"
	"gitlab.com/yawning/secp256k1-voi/secec"
	"gitlab.com/yawning/secp256k1-voi/verifharness/ref"
)

// Fe builds a field element from v in [0,p).
func Fe(v *big.Int) *field.Element {
	fe, err := field.NewElement().SetCanonicalBytes((*[32]byte)(ref.B32(v)))
	if err != nil {
		panic(fmt.Sprintf("lib.Fe(%x): %v", v, err))
	}
	return fe
}

// FeInt reads a field element back through Bytes().
func FeInt(fe *field.Element) *big.Int { return readAndScribble(fe.Bytes()) }

// readAndScribble converts an encoding the library handed out and then overwrites it: the slice is the caller's, so
// nothing the library does later may depend on its content (an encoding cached inside the object and handed out
// without a copy would read back wrong the next time).
func readAndScribble(b []byte) *big.Int {
	v := ref.Int(b)
	for i := range b {
		b[i] ^= 0x5a + byte(i)
	}
	return v
}

// Sc builds a scalar from v in [0,n).
func Sc(v *big.Int) *secp256k1.Scalar {
	s, err := secp256k1.NewScalarFromCanonicalBytes((*[32]byte)(ref.B32(v)))
	if err != nil {
		panic(fmt.Sprintf("lib.Sc(%x): %v", v, err))
	}
	return s
}

// ScInt reads a scalar back through Bytes().
func ScInt(s *secp256k1.Scalar) *big.Int { return readAndScribble(s.Bytes()) }

// Pt builds a library point from a reference point through the strict
// uncompressed decoder (or NewIdentityPoint).
func Pt(p ref.Pt) *secp256k1.Point {
	if p.Inf {
		return secp256k1.NewIdentityPoint()
	}
	q, err := secp256k1.NewPointFromBytes(p.Uncompressed())
	if err != nil {
		panic(fmt.Sprintf("lib.Pt(%v): %v", p, err))
	}
	return q
}

// PtRef reads a library point back through UncompressedBytes and the
// reference strict decoder.  ok=false if the encoding does not decode.
func PtRef(p *secp256k1.Point) (ref.Pt, bool) {
	b := p.UncompressedBytes()
	q, ok := ref.DecodePoint(b)
	for i := range b {
		b[i] ^= 0x5a + byte(i)
	}
	return q, ok
}

// Catch runs f and returns the recovered panic value (nil if none).
func Catch(f func()) (r any) {
	defer func() { r = recover() }()
	f()
	return nil
}

// PubKey builds a secec.PublicKey from a finite reference point.
func PubKey(p ref.Pt) *secec.PublicKey {
	k, err := secec.NewPublicKey(p.Uncompressed())
	if err != nil {
		panic(fmt.Sprintf("lib.PubKey(%v): %v", p, err))
	}
	return k
}

// PrivKey builds a secec.PrivateKey from d in [1,n).
func PrivKey(d *big.Int) *secec.PrivateKey {
	k, err := secec.NewPrivateKey(ref.B32(d))
	if err != nil {
		panic(fmt.Sprintf("lib.PrivKey(%x): %v", d, err))
	}
	return k
}

// EncodingsSurviveCallerWrites takes every encoding of p, overwrites the returned slices (they belong to the
// caller) and takes the encodings again: they must be what they were.  An encoding that can be changed by writing
// into an earlier result depends on the history of calls, not on the point.  Returns "" or a description.
func EncodingsSurviveCallerWrites(p *secp256k1.Point) string {
	type enc struct {
		name string
		f    func() []byte
	}
	encs := []enc{
		{"UncompressedBytes", p.UncompressedBytes},
		{"CompressedBytes", p.CompressedBytes},
		{"XBytes", func() []byte { b, _ := p.XBytes(); return b }},
	}
	for _, e := range encs {
		first := e.f()
		snap := append([]byte(nil), first...)
		for i := range first {
			first[i] ^= 0xa5 + byte(i)
		}
		first = append(first[:0], 0x02, 0x03, 0x04)[:0] // writes through spare capacity too
		for _, e2 := range encs {
			_ = e2.f()
		}
		again := e.f()
		if string(again) != string(snap) {
			return e.name + ": " + hexs(snap) + " became " + hexs(again) + " after the caller overwrote the slice returned by the earlier call"
		}
		for i := range again {
			again[i] = 0
		}
	}
	return ""
}

func hexs(b []byte) string {
	const d = "0123456789abcdef"
	o := make([]byte, 0, 2*len(b))
	for _, c := range b {
		o = append(o, d[c>>4], d[c&15])
	}
	return string(o)
}
