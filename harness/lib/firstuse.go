package lib

import (
	"bytes"
	"fmt"
	"math/big"

	"pgregory.net/rapid"

	"gitlab.com/yawning/secp256k1-voi/secec"
	"gitlab.com/yawning/secp256k1-voi/secec/bitcoin"
	"gitlab.com/yawning/secp256k1-voi/verifharness/ref"
)

// FirstUsePriv makes a drawn accessor the FIRST thing that happens to a
// freshly constructed private key object and checks what it returns against
// the reference.  An object whose fields are filled lazily is only wrong
// until some other accessor has run, so harnesses that always start with the
// same call (to compare the key with the model) repair it before they look.
// It returns an error text, or "" when all is well.
func FirstUsePriv(t *rapid.T, k *secec.PrivateKey, d *big.Int, label string) string {
	q := ref.BaseMul(d)
	first := []string{"none", "Public()", "Public()", "PublicKey()", "Bytes()", "Scalar()", "ECDH", "schnorr-view"}[rapid.IntRange(0, 7).Draw(t, label+"_first")]
	switch first {
	case "Public()":
		pk, ok := k.Public().(*secec.PublicKey)
		if !ok || pk == nil {
			return fmt.Sprintf("Public() as the first call on a fresh private key returned %T (nil=%v), not a usable *secec.PublicKey", k.Public(), pk == nil)
		}
		var b []byte
		if p := Catch(func() { b = pk.Bytes() }); p != nil || !bytes.Equal(b, q.Uncompressed()) {
			return fmt.Sprintf("Public() as the first call on a fresh private key: Bytes() = %x (panic %v), want %v", b, p, q)
		}
	case "PublicKey()":
		if b := k.PublicKey().Bytes(); !bytes.Equal(b, q.Uncompressed()) {
			return fmt.Sprintf("PublicKey() as the first call: Bytes() = %x, want %v", b, q)
		}
	case "Bytes()":
		if b := k.Bytes(); !bytes.Equal(b, ref.B32(d)) {
			return fmt.Sprintf("Bytes() as the first call = %x, want %x", b, d)
		}
	case "Scalar()":
		if ScInt(k.Scalar()).Cmp(d) != 0 {
			return fmt.Sprintf("Scalar() as the first call = %x, want %x", ScInt(k.Scalar()), d)
		}
	case "ECDH":
		sec, err := k.ECDH(PubKey(ref.G().Double()))
		if err != nil || !bytes.Equal(sec, ref.B32(ref.G().Double().Mul(d).X)) {
			return fmt.Sprintf("ECDH as the first call = %x (%v)", sec, err)
		}
	case "schnorr-view":
		sk := bitcoin.NewSchnorrPrivateKeyFromECDSA(k)
		if b := sk.PublicKey().Bytes(); !bytes.Equal(b, ref.B32(q.X)) {
			return fmt.Sprintf("NewSchnorrPrivateKeyFromECDSA as the first use: x-only key %x, want %x", b, q.X)
		}
	}
	return ""
}
