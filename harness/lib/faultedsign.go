package lib

import (
	"fmt"
	"math/big"

	"pgregory.net/rapid"

	"gitlab.com/yawning/secp256k1-voi/secec/bitcoin"
	"gitlab.com/yawning/secp256k1-voi/verifharness/gen"
)

// FaultedSigning makes one signing call (ECDSA Sign / SignRaw or BIP-340 Sign, on a throw-away key) whose entropy
// source fails after a drawn number of bytes - error, EOF or panic, recovered by the caller.  Nothing is asserted
// about it (that is C09's and C14's business); it is what a process that also signs looks like to the *next*
// operation, for instance a verification, whose result is a function of its own inputs only.  Returns a
// description for the case's trace.
func FaultedSigning(t *rapid.T, label string) string {
	j := rapid.IntRange(0, 31).Draw(t, label+"_fail_after")
	content, _ := gen.EntropyContent(t, 40, label+"_fault_content")
	rd := &gen.ScriptedReader{Data: content, FailAfter: j}
	var ek string
	rd.Err, rd.ErrWithData, ek = gen.FailureKind(t, label+"_fault")
	if rapid.IntRange(0, 5).Draw(t, label+"_fault_panics") == 0 {
		rd.Err, rd.ErrWithData, ek = gen.ErrPanic, false, "panic"
	}
	d := big.NewInt(int64(rapid.IntRange(1, 1<<30).Draw(t, label+"_fault_key")))
	msg := gen.Bytes(t, 32, 32, label+"_fault_msg")
	api := []string{"ecdsa.Sign", "ecdsa.SignRaw", "schnorr.Sign", "schnorr.Sign"}[rapid.IntRange(0, 3).Draw(t, label+"_fault_api")]
	Catch(func() {
		switch api {
		case "ecdsa.Sign":
			_, _ = PrivKey(d).Sign(rd, msg, nil)
		case "ecdsa.SignRaw":
			_, _, _, _ = PrivKey(d).SignRaw(rd, msg)
		default:
			_, _ = bitcoin.NewSchnorrPrivateKeyFromECDSA(PrivKey(d)).Sign(rd, msg, nil)
		}
	})
	return fmt.Sprintf("faulted:%s[%s after %d bytes]", api, ek, j)
}
