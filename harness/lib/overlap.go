package lib

import (
	"fmt"
	"sync"
)

// Overlap runs every call from g goroutines at once (each goroutine walks the list from a different start, `rounds`
// times) and compares each result with want[i], which the caller computed from the reference.  A property that
// says "for every input the result is ..." says so for calls that overlap in time as well; state shared between
// calls (a hash midstate, a pooled buffer, a memo) only shows when they do.  Panics inside a call are results
// ("panic: ...").  Returns "" or the first disagreement.
func Overlap(calls []func() string, want []string, g, rounds int) string {
	var (
		mu    sync.Mutex
		first string
		wg    sync.WaitGroup
		start = make(chan struct{})
	)
	for w := 0; w < g; w++ {
		wg.Add(1)
		go func(w int) {
			defer wg.Done()
			<-start
			for r := 0; r < rounds; r++ {
				for k := range calls {
					i := (k + w*(len(calls)/g+1) + r) % len(calls)
					var got string
					if p := Catch(func() { got = calls[i]() }); p != nil {
						got = fmt.Sprintf("panic: %v", p)
					}
					if got != want[i] {
						mu.Lock()
						if first == "" {
							first = fmt.Sprintf("call %d gave %q while %d other goroutines were making calls of the same kind; alone (and by the reference) it gives %q", i, got, g-1, want[i])
						}
						mu.Unlock()
						return
					}
				}
			}
		}(w)
	}
	close(start)
	wg.Wait()
	return first
}
