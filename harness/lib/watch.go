package lib

import (
	"regexp"
	"runtime"
	"strings"
	"time"
)

// WatchBudget is how long Watch waits before it looks at what the watched
// call is doing.  It is not an oracle: when the budget runs out the verdict
// depends on the goroutine states only (see Watch).
var WatchBudget = 20 * time.Second

var goroutineHeader = regexp.MustCompile(`^goroutine (\d+) \[([^\],]+)`)

// blocked goroutine states that cannot make progress by themselves
var blockedStates = map[string]bool{
	"sync.Mutex.Lock": true, "sync.RWMutex.Lock": true, "sync.RWMutex.RLock": true, "semacquire": true,
	"chan receive": true, "chan send": true, "select": true, "select (no cases)": true,
	"sync.WaitGroup.Wait": true, "sync.Cond.Wait": true, "chan receive (nil chan)": true, "chan send (nil chan)": true,
}

// watchedCall marks the goroutine in stack dumps.
//
//go:noinline
func watchedCall(f func(), done chan<- any) {
	defer func() { done <- recover() }()
	f()
}

// Watch runs f on its own goroutine.  It returns (true, panic value, "") when f
// returned.  When f has not returned after WatchBudget, the goroutine dump is
// inspected twice, two seconds apart: if both times the watched goroutine is
// parked in a blocking primitive (lock, channel, wait group) at the same place
// and no other goroutine is running inside library code (those parked in
// it themselves do not count; nobody is left who could wake it), the call can never return and Watch returns (false, nil, stack).
// In every other case (still running, or somebody else still working) it keeps
// waiting; a wall-clock budget alone never decides.
func Watch(f func()) (returned bool, panicked any, stuck string) {
	done := make(chan any, 1)
	go watchedCall(f, done)
	timer := time.NewTimer(WatchBudget)
	defer timer.Stop()
	prev := ""
	for {
		select {
		case p := <-done:
			return true, p, ""
		case <-timer.C:
			st := stuckStack()
			if st != "" && st == prev {
				return false, nil, st
			}
			prev = st
			timer.Reset(2 * time.Second)
		}
	}
}

func stuckStack() string {
	buf := make([]byte, 1<<20)
	buf = buf[:runtime.Stack(buf, true)]
	var watched string
	othersInLibrary := false
	for _, g := range strings.Split(string(buf), "\n\n") {
		m := goroutineHeader.FindStringSubmatch(g)
		if m == nil {
			continue
		}
		inLib := false
		for _, line := range strings.Split(g, "\n") {
			if strings.HasPrefix(line, "gitlab.com/yawning/secp256k1-voi") && !strings.Contains(line, "verifharness") {
				inLib = true
			}
		}
		if strings.Contains(g, "lib.watchedCall") {
			if !blockedStates[m[2]] {
				return ""
			}
			// drop the header's wait duration and the argument values so that two samples compare equal
			var frames []string
			for _, line := range strings.Split(g, "\n")[1:] {
				if !strings.HasPrefix(line, "\t") {
					if i := strings.LastIndex(line, "("); i > 0 {
						line = line[:i]
					}
					frames = append(frames, line)
				}
			}
			watched = "[" + m[2] + "] " + strings.Join(frames, " <- ")
		} else if inLib && !blockedStates[m[2]] {
			// somebody is still working inside the library (goroutines that are themselves parked
			// inside it do not count: they cannot wake anybody)
			othersInLibrary = true
		}
	}
	if othersInLibrary {
		return ""
	}
	return watched
}
