//go:build !verif

package lib

// HaveHooks reports whether the verif-tagged hooks are compiled in.
const HaveHooks = false
