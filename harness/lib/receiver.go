package lib

import (
	secp256k1 "gitlab.com/yawning/secp256k1-voi"
)

// ReceiverKinds is the number of receiver states Receiver knows.
const ReceiverKinds = 7

// Receiver returns a point object in one of the states a caller's receiver
// is in before a call: a library call overwrites its receiver, so its result
// must not depend on what was there (callers reuse receivers in loops; the
// library's own code mostly uses fresh ones, which is why a dependence goes
// unnoticed).
func Receiver(kind int) (*secp256k1.Point, string) {
	g := secp256k1.NewGeneratorPoint()
	switch kind % ReceiverKinds {
	case 1:
		return &secp256k1.Point{}, "zero-value"
	case 2:
		return g, "holds-G"
	case 3:
		return secp256k1.NewIdentityPoint().Double(g), "holds-2G(Z!=1)"
	case 4:
		return secp256k1.NewIdentityPoint().Subtract(g, g), "holds-G-G"
	case 5: // held a point, then was the receiver of a rejected decode
		r := secp256k1.NewIdentityPoint().Add(g, g)
		bad := make([]byte, 33)
		bad[0] = 0x02
		bad[32] = 0x05 // x = 5: x^3 + 7 = 132 is not a square
		_, _ = r.SetCompressedBytes(bad)
		return r, "held-3G..after-rejected-decode"
	case 6: // result of a multiplication (whatever representative that leaves)
		return secp256k1.NewIdentityPoint().ScalarBaseMult(secp256k1.NewScalarFromUint64(0xabcdef)), "holds-kG"
	}
	return secp256k1.NewIdentityPoint(), "fresh-identity"
}
