package lib

import (
	"bytes"
	"fmt"
	"math/big"

	"pgregory.net/rapid"

	"gitlab.com/yawning/secp256k1-voi/secec"
	"gitlab.com/yawning/secp256k1-voi/secec/bitcoin"
	"gitlab.com/yawning/secp256k1-voi/verifharness/ref"
)

// UsePublicKeyElsewhere lets other parts of the API use a public key object (read-only uses, all of them) before
// the caller goes on with it: a peer runs ECDH against it, it is encoded (and the returned buffers overwritten),
// compared, its point is taken and the copy changed, other packages derive their own key objects from it.  A key
// is immutable: whatever a property says about operations under this key holds afterwards as it did before.  q is
// the key's point by the reference; the uses themselves are checked where that costs nothing.  Returns the name of
// the drawn use ("none" in about a third of the draws) and an error text or "".
func UsePublicKeyElsewhere(t *rapid.T, k *secec.PublicKey, q ref.Pt, label string) (string, string) {
	uses := []string{"none", "none", "none", "peer-ecdh", "encode-and-scribble", "point-copy-changed", "schnorr-from-ecdsa", "schnorr-from-point", "equal", "spki-round-trip"}
	use := uses[rapid.IntRange(0, len(uses)-1).Draw(t, label+"_use")]
	switch use {
	case "peer-ecdh":
		d := big.NewInt(int64(rapid.IntRange(2, 1<<30).Draw(t, label+"_peer")))
		sec, err := PrivKey(d).ECDH(k)
		if err != nil || !bytes.Equal(sec, ref.B32(q.Mul(d).X)) {
			return use, fmt.Sprintf("ECDH of a peer (d=%x) against the key gives %x (%v)", d, sec, err)
		}
	case "encode-and-scribble":
		for _, b := range [][]byte{k.Bytes(), k.CompressedBytes(), k.ASN1Bytes()} {
			for i := range b {
				b[i] ^= 0xa5
			}
		}
	case "point-copy-changed":
		p := k.Point()
		switch rapid.IntRange(0, 2).Draw(t, label+"_change") {
		case 0:
			p.Negate(p)
		case 1:
			p.Double(p)
		default:
			p.Identity()
		}
	case "schnorr-from-ecdsa":
		sk := bitcoin.NewSchnorrPublicKeyFromECDSA(k)
		if b := sk.Bytes(); !bytes.Equal(b, ref.B32(q.X)) {
			return use, fmt.Sprintf("NewSchnorrPublicKeyFromECDSA gives the x-only key %x, want %x", b, q.X)
		}
	case "schnorr-from-point":
		sk, err := bitcoin.NewSchnorrPublicKeyFromPoint(k.Point())
		if err != nil || !bytes.Equal(sk.Bytes(), ref.B32(q.X)) {
			return use, fmt.Sprintf("NewSchnorrPublicKeyFromPoint(key.Point()) failed or gives another key: %v", err)
		}
	case "equal":
		if k.Equal(PubKey(q.Neg())) || !k.Equal(PubKey(q)) {
			return use, "Equal is wrong for the key's negation / an equal key"
		}
	case "spki-round-trip":
		back, err := secec.ParseASN1PublicKey(k.ASN1Bytes())
		if err != nil || !back.Equal(k) {
			return use, fmt.Sprintf("ASN1Bytes() does not parse back to an Equal key: %v", err)
		}
	}
	return use, ""
}
