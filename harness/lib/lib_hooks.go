//go:build verif

package lib

import (
	"math/big"

	secp256k1 "gitlab.com/yawning/secp256k1-voi"
	"gitlab.com/yawning/secp256k1-voi/verifharness/ref"
)

// HaveHooks reports whether the verif-tagged hooks are compiled in.
const HaveHooks = true

// Representative returns the projective representative (l*x, l*y, l) of p,
// or (0, l, 0) for the identity; l must be non-zero mod p.
func Representative(p ref.Pt, l *big.Int) *secp256k1.Point {
	l = ref.Mod(l, ref.P)
	if l.Sign() == 0 {
		panic("lib.Representative: zero scale")
	}
	if p.Inf {
		return secp256k1.VerifNewPointProjectiveUnchecked(Fe(new(big.Int)), Fe(l), Fe(new(big.Int)))
	}
	return secp256k1.VerifNewPointProjectiveUnchecked(Fe(ref.MulM(p.X, l, ref.P)), Fe(ref.MulM(p.Y, l, ref.P)), Fe(l))
}

// Coords returns the projective coordinates of p as integers.
func Coords(p *secp256k1.Point) (x, y, z *big.Int, valid bool) {
	fx, fy, fz, v := secp256k1.VerifPointCoords(p)
	return FeInt(fx), FeInt(fy), FeInt(fz), v
}

// CoordsOK checks the projective curve equation Y^2 Z = X^3 + 7 Z^3, or
// X = Z = 0, Y != 0 for the identity.
func CoordsOK(p *secp256k1.Point) bool {
	x, y, z, v := Coords(p)
	if !v {
		return false
	}
	P := ref.P
	if z.Sign() == 0 {
		return x.Sign() == 0 && y.Sign() != 0
	}
	lhs := ref.MulM(ref.MulM(y, y, P), z, P)
	z3 := ref.MulM(ref.MulM(z, z, P), z, P)
	rhs := ref.AddM(ref.MulM(ref.MulM(x, x, P), x, P), ref.MulM(big.NewInt(7), z3, P), P)
	return lhs.Cmp(rhs) == 0
}

// SiblingRepresentative returns a point object whose raw X and Y coordinates
// are the affine x and y of p but whose Z is not 1: for fixed (X, Y) = (x, y)
// the projective curve equation y^2 Z = x^3 + 7 Z^3 is a cubic in Z with the
// root 1 and, when 28y^2 - 147 is a square, two more,
// Z' = (-7 +- sqrt(28y^2 - 147)) / 14.  (x, y, Z') is a valid representative of
// the DIFFERENT group element (x/Z', y/Z'), which is returned as well.  Code
// that recognises a point by some of its raw coordinates confuses the two.
func SiblingRepresentative(p ref.Pt, second bool) (*secp256k1.Point, ref.Pt, bool) {
	if p.Inf {
		return nil, ref.Pt{}, false
	}
	disc := ref.Mod(new(big.Int).Sub(new(big.Int).Mul(big.NewInt(28), ref.MulM(p.Y, p.Y, ref.P)), big.NewInt(147)), ref.P)
	rt, ok := ref.SqrtP(disc)
	if !ok || rt.Sign() == 0 {
		return nil, ref.Pt{}, false
	}
	if second {
		rt = ref.NegM(rt, ref.P)
	}
	z := ref.MulM(ref.Mod(new(big.Int).Sub(rt, big.NewInt(7)), ref.P), ref.Inv0(big.NewInt(14), ref.P), ref.P)
	if z.Sign() == 0 || z.Cmp(big.NewInt(1)) == 0 {
		return nil, ref.Pt{}, false
	}
	zi := ref.Inv0(z, ref.P)
	q := ref.Pt{X: ref.MulM(p.X, zi, ref.P), Y: ref.MulM(p.Y, zi, ref.P)}
	if !q.Valid() {
		panic("lib.SiblingRepresentative: derived point off the curve")
	}
	return secp256k1.VerifNewPointProjectiveUnchecked(Fe(p.X), Fe(p.Y), Fe(z)), q, true
}
