package lib

import (
	"fmt"

	"pgregory.net/rapid"

	secp256k1 "gitlab.com/yawning/secp256k1-voi"
)

// FaultedMultiplication makes one multiplication call that cannot complete - a nil or never-initialised operand
// somewhere in its arguments, a nil receiver, lists of different lengths - and recovers from it, as a caller with
// a top-level recover (a server's request handler) does.  The call may fault early or late, with whatever scratch
// state the routine keeps half-used.  Nothing is asserted about the faulting call itself; the point is what the
// calls that follow it return.  The choice is drawn through pick (any of rapid's draws), so it shrinks and replays
// with the case.  Returns a description for the case's trace.
func FaultedMultiplication(t *rapid.T, label string, s *secp256k1.Scalar, p *secp256k1.Point) string {
	kinds := []string{
		"ScalarMult(nil receiver)", "ScalarMult(nil scalar)", "ScalarMult(nil point)", "ScalarMult(zero-value point)",
		"ScalarBaseMult(nil receiver)", "ScalarBaseMult(nil scalar)",
		"DoubleScalarMultBasepointVartime(nil receiver)", "DoubleScalarMultBasepointVartime(nil u2)", "DoubleScalarMultBasepointVartime(zero-value point)",
		"MultiScalarMult(nil receiver)", "MultiScalarMult(nil scalar in list)", "MultiScalarMult(nil point in list)", "MultiScalarMult(zero-value point in list)", "MultiScalarMult(lengths differ)",
		"MultiScalarMultVartime(nil receiver)", "MultiScalarMultVartime(nil scalar in list)", "MultiScalarMultVartime(nil point in list)", "MultiScalarMultVartime(zero-value point in list)", "MultiScalarMultVartime(lengths differ)",
	}
	kind := kinds[rapid.IntRange(0, len(kinds)-1).Draw(t, label+"_fault")]
	n := rapid.IntRange(1, 4).Draw(t, label+"_fault_terms")
	where := rapid.IntRange(0, n-1).Draw(t, label+"_fault_where")
	var nilPoint *secp256k1.Point
	rcv := secp256k1.NewIdentityPoint()
	scalars := make([]*secp256k1.Scalar, n)
	points := make([]*secp256k1.Point, n)
	for i := range scalars {
		scalars[i], points[i] = secp256k1.NewScalarFrom(s), secp256k1.NewPointFrom(p)
	}
	multi := func(r *secp256k1.Point, vartime bool) {
		if vartime {
			r.MultiScalarMultVartime(scalars, points)
		} else {
			r.MultiScalarMult(scalars, points)
		}
	}
	panicked := Catch(func() {
		switch kind {
		case "ScalarMult(nil receiver)":
			nilPoint.ScalarMult(s, p)
		case "ScalarMult(nil scalar)":
			rcv.ScalarMult(nil, p)
		case "ScalarMult(nil point)":
			rcv.ScalarMult(s, nil)
		case "ScalarMult(zero-value point)":
			rcv.ScalarMult(s, new(secp256k1.Point))
		case "ScalarBaseMult(nil receiver)":
			nilPoint.ScalarBaseMult(s)
		case "ScalarBaseMult(nil scalar)":
			rcv.ScalarBaseMult(nil)
		case "DoubleScalarMultBasepointVartime(nil receiver)":
			nilPoint.DoubleScalarMultBasepointVartime(s, s, p)
		case "DoubleScalarMultBasepointVartime(nil u2)":
			rcv.DoubleScalarMultBasepointVartime(s, nil, p)
		case "DoubleScalarMultBasepointVartime(zero-value point)":
			rcv.DoubleScalarMultBasepointVartime(s, s, new(secp256k1.Point))
		case "MultiScalarMult(nil receiver)", "MultiScalarMultVartime(nil receiver)":
			multi(nilPoint, kind[:22] == "MultiScalarMultVartime")
		case "MultiScalarMult(nil scalar in list)", "MultiScalarMultVartime(nil scalar in list)":
			scalars[where] = nil
			multi(rcv, kind[:22] == "MultiScalarMultVartime")
		case "MultiScalarMult(nil point in list)", "MultiScalarMultVartime(nil point in list)":
			points[where] = nil
			multi(rcv, kind[:22] == "MultiScalarMultVartime")
		case "MultiScalarMult(zero-value point in list)", "MultiScalarMultVartime(zero-value point in list)":
			points[where] = new(secp256k1.Point)
			multi(rcv, kind[:22] == "MultiScalarMultVartime")
		default:
			scalars = append(scalars, secp256k1.NewScalarFrom(s))
			multi(rcv, kind[:22] == "MultiScalarMultVartime")
		}
	})
	return fmt.Sprintf("faulted:%s[%d terms, at %d, panicked=%v]", kind, n, where, panicked != nil)
}
