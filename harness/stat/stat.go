// Package stat does the case accounting that ends up in evidence files.
// Every property body calls Case exactly once per generated case.
package stat

import (
	"encoding/json"
	"fmt"
	"hash/fnv"
	"os"
	"sort"
	"sync"
	"testing"
)

const (
	maxHashes         = 1 << 21
	samplesPerClass   = 2
	maxSamplesPerSub  = 24
	maxSampleFieldLen = 400
)

type sub struct {
	Evaluations int64            `json:"evaluations"`
	NonTrivial  int64            `json:"nontrivial_evaluations"`
	Classes     map[string]int64 `json:"classes"`
	Samples     []any            `json:"samples"`
	Exhaustive  bool             `json:"exhaustive,omitempty"`
	Excluded    int64            `json:"excluded_known,omitempty"`
	Notes       []string         `json:"notes,omitempty"`
	hashes      map[uint64]struct{}
	perClass    map[string]int
	saturated   bool
}

var (
	mu   sync.Mutex
	subs = map[string]*sub{}
)

func get(name string) *sub {
	s := subs[name]
	if s == nil {
		s = &sub{Classes: map[string]int64{}, hashes: map[uint64]struct{}{}, perClass: map[string]int{}}
		subs[name] = s
	}
	return s
}

// Case records one generated case of sub-check `name`.  classes label the
// case for the distribution histogram; nontrivial is the property's stated
// rule evaluated by the model; key identifies the case for de-duplication;
// sample (may be nil) renders the case for the evidence file and is only
// invoked for the first few cases of each class.
func Case(name string, classes []string, nontrivial bool, key []byte, sample func() any) {
	mu.Lock()
	defer mu.Unlock()
	s := get(name)
	s.Evaluations++
	for _, c := range classes {
		s.Classes[c]++
	}
	if nontrivial {
		s.NonTrivial++
		if len(s.hashes) < maxHashes {
			h := fnv.New64a()
			h.Write([]byte(name))
			h.Write([]byte{0})
			h.Write(key)
			s.hashes[h.Sum64()] = struct{}{}
		} else {
			s.saturated = true
		}
	}
	if sample != nil && len(s.Samples) < maxSamplesPerSub {
		take := len(classes) == 0 && len(s.Samples) < samplesPerClass
		for _, c := range classes {
			if s.perClass[c] < samplesPerClass {
				take = true
			}
		}
		if take {
			for _, c := range classes {
				s.perClass[c]++
			}
			s.Samples = append(s.Samples, map[string]any{"classes": classes, "nontrivial": nontrivial, "case": sample()})
		}
	}
}

// Exhaustive marks a sub-check as a complete enumeration of a finite space.
func Exhaustive(name string) {
	mu.Lock()
	defer mu.Unlock()
	get(name).Exhaustive = true
}

// Excluded counts cases skipped because they fall in a known finding.
func Excluded(name string, n int64) {
	mu.Lock()
	defer mu.Unlock()
	get(name).Excluded += n
}

// Note attaches a free-form remark (e.g. "hooks unavailable").
func Note(name, note string) {
	mu.Lock()
	defer mu.Unlock()
	s := get(name)
	for _, n := range s.Notes {
		if n == note {
			return
		}
	}
	s.Notes = append(s.Notes, note)
}

// Hex renders bytes for samples, truncated.
func Hex(b []byte) string {
	s := fmt.Sprintf("%x", b)
	if len(s) > maxSampleFieldLen {
		s = s[:maxSampleFieldLen] + fmt.Sprintf("...(%d bytes)", len(b))
	}
	return s
}

// Flush writes the per-process statistics to $VERIF_STATS (if set).
func Flush() {
	mu.Lock()
	defer mu.Unlock()
	path := os.Getenv("VERIF_STATS")
	if path == "" {
		return
	}
	type outSub struct {
		*sub
		Hashes    []uint64 `json:"hashes"`
		Saturated bool     `json:"hash_set_saturated,omitempty"`
	}
	out := map[string]outSub{}
	for name, s := range subs {
		hs := make([]uint64, 0, len(s.hashes))
		for h := range s.hashes {
			hs = append(hs, h)
		}
		sort.Slice(hs, func(i, j int) bool { return hs[i] < hs[j] })
		out[name] = outSub{sub: s, Hashes: hs, Saturated: s.saturated}
	}
	b, err := json.Marshal(map[string]any{"subs": out})
	if err != nil {
		fmt.Fprintln(os.Stderr, "stat: marshal:", err)
		return
	}
	if err := os.WriteFile(path, b, 0o644); err != nil {
		fmt.Fprintln(os.Stderr, "stat: write:", err)
	}
}

// Main wraps testing.M so statistics are flushed at exit.
func Main(m *testing.M) {
	ApplyEnv()
	code := m.Run()
	Flush()
	os.Exit(code)
}
