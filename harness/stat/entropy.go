package stat

import (
	crand "crypto/rand"
	"os"
)

// constReader is a working entropy source whose output is the least lucky one a true source can give: every byte
// the same (0x00: every 256-bit value drawn from it is zero; 0xff: every one is >= both moduli).
type constReader byte

func (c constReader) Read(p []byte) (int, error) {
	for i := range p {
		p[i] = byte(c)
	}
	return len(p), nil
}

// ApplyEnv implements the environment variant VERIF_PROCESS_ENTROPY=zero|ones: the process-wide
// entropy source (crypto/rand.Reader) is replaced for the whole test process.  None of the operations the
// properties call pure functions of their inputs (arithmetic, multiplication, decoding, verification, recovery,
// hashing to the curve, deterministic signing) is allowed to depend on it; an implementation that draws blinding
// values from it must be right for every value drawn, these included.  The source never fails (a failing source
// may legitimately be treated as fatal), so a correct library cannot be made to misbehave by it.
func ApplyEnv() {
	switch os.Getenv("VERIF_PROCESS_ENTROPY") {
	case "zero":
		crand.Reader = constReader(0x00)
	case "ones":
		crand.Reader = constReader(0xff)
	}
}
