package c09

import (
	"bytes"
	"fmt"
	"testing"

	"pgregory.net/rapid"

	"gitlab.com/yawning/secp256k1-voi/secec"
	"gitlab.com/yawning/secp256k1-voi/verifharness/gen"
	"gitlab.com/yawning/secp256k1-voi/verifharness/lib"
	"gitlab.com/yawning/secp256k1-voi/verifharness/ref"
	"gitlab.com/yawning/secp256k1-voi/verifharness/stat"
)

// propOverlapping: deterministic (RFC 6979) and hedged signing calls that overlap in time, on shared and on
// separate key objects.  Every RFC 6979 signature must be the reference's; every hedged signature (scripted
// entropy, a reader per call) must equal what the same call gives alone - the nonce is a function of (key, digest,
// entropy) and of nothing else, such as what another goroutine is signing.
func propOverlapping(t *rapid.T) {
	n := rapid.IntRange(3, 7).Draw(t, "calls")
	var calls []func() string
	var want []string
	var key bytes.Buffer
	var prev *secec.PrivateKey
	d := gen.NonZero256(t, ref.N, "d")
	for i := 0; i < n; i++ {
		if rapid.Bool().Draw(t, fmt.Sprintf("newkey%d", i)) {
			d = gen.NonZero256(t, ref.N, fmt.Sprintf("d%d", i))
			prev = nil
		}
		k := prev
		if k == nil || rapid.Bool().Draw(t, fmt.Sprintf("ownobj%d", i)) {
			k = lib.PrivKey(d)
		}
		prev = k
		dlen := gen.Sampled([]int{32, 32, 48, 64}).Draw(t, fmt.Sprintf("dlen%d", i))
		digest := gen.Bytes(t, dlen, dlen, fmt.Sprintf("dg%d", i))
		if rapid.Bool().Draw(t, fmt.Sprintf("rfc%d", i)) {
			wr, ws, _, _ := ref.RFC6979Sign(d, digest)
			ws, _ = ref.LowS(ws)
			want = append(want, fmt.Sprintf("%x", ref.EncodeDERSig(wr, ws)))
			calls = append(calls, func() string {
				sig, err := k.Sign(secec.RFC6979SHA256(), digest, nil)
				if err != nil {
					return "error: " + err.Error()
				}
				return fmt.Sprintf("%x", sig)
			})
			fmt.Fprintf(&key, "rfc|%x|%x;", d, digest)
			continue
		}
		ent := gen.Bytes(t, 32, 32, fmt.Sprintf("ent%d", i))
		call := func() string {
			sig, err := k.Sign(bytes.NewReader(ent), digest, nil)
			if err != nil {
				return "error: " + err.Error()
			}
			return fmt.Sprintf("%x", sig)
		}
		alone := call()
		if r, s, ok := ref.ParseDERSigStrict(mustHex(alone)); !ok || !ref.ECDSAVerify(ref.BaseMul(d), digest, r, s) {
			t.Fatalf("hedged signature %s for d=%x digest=%x does not verify", alone, d, digest)
		}
		want = append(want, alone)
		calls = append(calls, call)
		fmt.Fprintf(&key, "hedged|%x|%x|%x;", d, digest, ent)
	}
	g := gen.Sampled([]int{2, 3, 4, 8}).Draw(t, "goroutines")
	stat.Case("overlapping", []string{fmt.Sprintf("goroutines:%d", g), fmt.Sprintf("calls:%d", n)}, true, key.Bytes(), func() any {
		return map[string]any{"calls": n, "goroutines": g}
	})
	if msg := lib.Overlap(calls, want, g, 3); msg != "" {
		t.Fatalf("signing: %s", msg)
	}
}

func mustHex(s string) []byte {
	var b []byte
	if _, err := fmt.Sscanf(s, "%x", &b); err != nil {
		return nil
	}
	return b
}

func TestC09_Overlapping(t *testing.T) { rapid.Check(t, propOverlapping) }
