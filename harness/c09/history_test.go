package c09

import (
	"bytes"
	"fmt"
	"io"
	"math/big"
	"sort"
	"sync"
	"testing"

	"pgregory.net/rapid"

	"gitlab.com/yawning/secp256k1-voi/secec"
	"gitlab.com/yawning/secp256k1-voi/verifharness/gen"
	"gitlab.com/yawning/secp256k1-voi/verifharness/lib"
	"gitlab.com/yawning/secp256k1-voi/verifharness/ref"
	"gitlab.com/yawning/secp256k1-voi/verifharness/stat"
)

// propFaultHistory: the nonce is a function of (private key, digest, 32 bytes of entropy) - and of nothing else,
// such as what earlier calls did.  A history of signing calls on a few key objects: calls whose entropy source
// fails part-way (error, EOF, panic; as the argument or as the process-wide default source), good hedged and
// RFC 6979 calls, and hedged calls whose entropy source is slow - while such a call sits in the middle of its
// read, another call (good or failing, same or another key object) runs to completion beside it
// (gen.GatedReader: the harness owns the schedule).  Every good hedged call must return exactly what the same call
// returns on a pristine key object before anything else happened (computed first, and valid by the reference);
// every RFC 6979 call the reference's signature; every failing call an error and nothing else.
func propFaultHistory(t *rapid.T) {
	type plan struct {
		obj         int
		digest, ent []byte
		want        sigOut
	}
	nd := rapid.IntRange(1, 2).Draw(t, "scalars")
	var ds []*big.Int
	var objs []*secec.PrivateKey
	var objD []int
	for i := 0; i < nd; i++ {
		d := gen.NonZero256(t, ref.N, fmt.Sprintf("d%d", i))
		ds = append(ds, d)
		for j := rapid.IntRange(1, 2).Draw(t, fmt.Sprintf("objects%d", i)); j > 0; j-- {
			objs = append(objs, lib.PrivKey(d))
			objD = append(objD, i)
		}
	}
	hedged := func(k *secec.PrivateKey, rd io.Reader, digest []byte) (sigOut, error) {
		r, s, v, err := k.SignRaw(rd, digest)
		if err != nil {
			if r != nil || s != nil {
				return sigOut{}, fmt.Errorf("error together with signature values: %w", err)
			}
			return sigOut{}, err
		}
		return sigOut{lib.ScInt(r), lib.ScInt(s), v}, nil
	}
	// the planned good hedged calls, evaluated on pristine objects first
	var plans []plan
	for i := rapid.IntRange(2, 5).Draw(t, "planned"); i > 0; i-- {
		p := plan{obj: rapid.IntRange(0, len(objs)-1).Draw(t, "obj")}
		dl := gen.Sampled([]int{32, 32, 48, 64}).Draw(t, "dlen")
		p.digest = gen.Bytes(t, dl, dl, "digest")
		p.ent, _ = gen.EntropyContent(t, 32, "ent")
		w, err := hedged(lib.PrivKey(ds[objD[p.obj]]), bytes.NewReader(p.ent), p.digest)
		if err != nil {
			t.Fatalf("hedged SignRaw on a pristine key failed: %v", err)
		}
		if !ref.ECDSAVerify(ref.BaseMul(ds[objD[p.obj]]), p.digest, w.r, w.s) {
			t.Fatalf("hedged signature (%x,%x) of a pristine key d=%x does not verify", w.r, w.s, ds[objD[p.obj]])
		}
		p.want = w
		plans = append(plans, p)
	}
	var mu sync.Mutex
	var problems []string
	note := func(f string, a ...any) {
		mu.Lock()
		problems = append(problems, fmt.Sprintf(f, a...))
		mu.Unlock()
	}
	good := func(p plan, rd io.Reader, ctx string) {
		got, err := hedged(objs[p.obj], rd, p.digest)
		if err != nil {
			note("%s: hedged SignRaw failed although 32 entropy bytes were delivered: %v", ctx, err)
		} else if !got.eq(p.want) {
			note("%s: hedged SignRaw(d=%x, digest=%x, entropy=%x) = (%x,%x,%d), but the same call on a pristine key object gave (%x,%x,%d): the nonce depends on the history of calls", ctx, ds[objD[p.obj]], p.digest, p.ent, got.r, got.s, got.v, p.want.r, p.want.s, p.want.v)
		}
	}
	type fault struct {
		obj, j       int
		rd           *gen.ScriptedReader
		api, ek, src string
		digest       []byte
	}
	drawFault := func(label string) fault {
		f := fault{obj: rapid.IntRange(0, len(objs)-1).Draw(t, label+"_obj"), j: rapid.IntRange(0, 31).Draw(t, label+"_j")}
		content, _ := gen.EntropyContent(t, 40, label+"_rng")
		f.rd = &gen.ScriptedReader{Data: content, FailAfter: f.j}
		f.rd.Err, f.rd.ErrWithData, f.ek = gen.FailureKind(t, label)
		if rapid.IntRange(0, 5).Draw(t, label+"_panics") == 0 {
			f.rd.Err, f.rd.ErrWithData, f.ek = gen.ErrPanic, false, "panic"
		}
		if rapid.Bool().Draw(t, label+"_chunked") {
			f.rd.Chunks = rapid.SliceOfN(rapid.IntRange(1, 33), 1, 4).Draw(t, label+"_chunks")
		}
		f.api = gen.Sampled([]string{"SignRaw", "Sign"}).Draw(t, label+"_api")
		f.src = gen.Sampled([]string{"argument", "argument", "argument", "process-default"}).Draw(t, label+"_source")
		f.digest = gen.Bytes(t, 32, 32, label+"_digest")
		return f
	}
	runFault := func(f fault, ctx string, mayUseProcessSource bool) {
		var err error
		var out bool
		call := func(arg io.Reader) {
			if f.api == "SignRaw" {
				r, s, _, e := objs[f.obj].SignRaw(arg, f.digest)
				err, out = e, r != nil || s != nil
			} else {
				sig, e := objs[f.obj].Sign(arg, f.digest, nil)
				err, out = e, sig != nil
			}
		}
		p := lib.Catch(func() {
			if f.src == "argument" || !mayUseProcessSource {
				call(f.rd)
			} else {
				gen.WithProcessEntropy(f.rd, func() { call(nil) })
			}
		})
		if p != nil && f.ek != "panic" {
			note("%s: %s panicked: %v", ctx, f.api, p)
		} else if p == nil && (err == nil || out) {
			note("%s: %s succeeded although its entropy source failed (%s) after %d bytes", ctx, f.api, f.ek, f.j)
		}
	}
	rfc := func(obj int, digest []byte, ctx string) {
		d := ds[objD[obj]]
		wr, ws, wid, _ := ref.RFC6979Sign(d, digest)
		ws, neg := ref.LowS(ws)
		if neg {
			wid ^= 1
		}
		got, err := hedged(objs[obj], hoistedRFC6979, digest)
		if err != nil {
			note("%s: RFC 6979 SignRaw failed: %v", ctx, err)
		} else if got.r.Cmp(wr) != 0 || got.s.Cmp(ws) != 0 || int(got.v) != wid {
			note("%s: RFC 6979 mismatch for d=%x digest=%x: got (%x,%x,%d) want (%x,%x,%d)", ctx, d, digest, got.r, got.s, got.v, wr, ws, wid)
		}
	}
	steps := rapid.IntRange(3, 8).Draw(t, "steps")
	var trace []string
	classes := map[string]bool{}
	for i := 0; i < steps; i++ {
		kind := gen.Sampled([]string{"fault", "fault", "good", "good", "rfc", "beside", "beside", "beside"}).Draw(t, fmt.Sprintf("step%d", i))
		ctx := fmt.Sprintf("step %d (%s) after [%v]", i, kind, trace)
		classes["step:"+kind] = true
		switch kind {
		case "fault":
			f := drawFault(fmt.Sprintf("f%d", i))
			runFault(f, ctx, true)
			trace = append(trace, fmt.Sprintf("fault(obj%d,%s@%d,%s,%s)", f.obj, f.ek, f.j, f.api, f.src))
		case "good":
			p := plans[rapid.IntRange(0, len(plans)-1).Draw(t, "plan")]
			var rd io.Reader = bytes.NewReader(p.ent)
			if rapid.Bool().Draw(t, "chunked") {
				rd = &gen.ScriptedReader{Data: p.ent, Chunks: rapid.SliceOfN(rapid.IntRange(1, 33), 1, 4).Draw(t, "chunks"), FailAfter: -1}
			}
			good(p, rd, ctx)
			trace = append(trace, fmt.Sprintf("good(obj%d)", p.obj))
		case "rfc":
			o := rapid.IntRange(0, len(objs)-1).Draw(t, "rfc_obj")
			rfc(o, gen.Bytes(t, 32, 32, "rfc_digest"), ctx)
			trace = append(trace, fmt.Sprintf("rfc(obj%d)", o))
		case "beside":
			// a slow hedged call; beside it, between two of its reads, 1..3 other calls run to completion
			p := plans[rapid.IntRange(0, len(plans)-1).Draw(t, "slow_plan")]
			at := rapid.IntRange(0, 31).Draw(t, "gate_at")
			nb := rapid.IntRange(1, 3).Draw(t, "beside_calls")
			var others []func()
			var desc []string
			for b := 0; b < nb; b++ {
				switch gen.Sampled([]string{"good", "good", "fault", "rfc"}).Draw(t, fmt.Sprintf("beside%d", b)) {
				case "good":
					q := plans[rapid.IntRange(0, len(plans)-1).Draw(t, "beside_plan")]
					others = append(others, func() { good(q, bytes.NewReader(q.ent), ctx+" [call beside the slow one]") })
					desc = append(desc, fmt.Sprintf("good(obj%d)", q.obj))
				case "fault":
					f := drawFault(fmt.Sprintf("bf%d_%d", i, b))
					// (the process-wide source is not swapped from a second goroutine)
					others = append(others, func() { runFault(f, ctx+" [failing call beside the slow one]", false) })
					desc = append(desc, fmt.Sprintf("fault(obj%d,%s@%d)", f.obj, f.ek, f.j))
				case "rfc":
					o := rapid.IntRange(0, len(objs)-1).Draw(t, "beside_rfc_obj")
					dg := gen.Bytes(t, 32, 32, "beside_rfc_digest")
					others = append(others, func() { rfc(o, dg, ctx+" [RFC 6979 call beside the slow one]") })
					desc = append(desc, fmt.Sprintf("rfc(obj%d)", o))
				}
			}
			gr := &gen.GatedReader{Data: p.ent, At: at, Beside: func() {
				for _, f := range others {
					f()
				}
			}}
			good(p, gr, ctx+fmt.Sprintf(" [slow call, %v beside it after %d entropy bytes]", desc, at))
			gr.Join()
			if gr.Overlapped {
				classes["overlapped"] = true
			}
			trace = append(trace, fmt.Sprintf("slow(obj%d@%d){%v}", p.obj, at, desc))
		}
		if len(problems) > 0 {
			break
		}
	}
	var cl []string
	for c := range classes {
		cl = append(cl, c)
	}
	sort.Strings(cl)
	stat.Case("faulthistory", cl, true, []byte(fmt.Sprint(trace, ds)), func() any {
		return map[string]any{"history": trace, "key_objects": len(objs), "scalars": nd}
	})
	if len(problems) > 0 {
		t.Fatalf("%s", problems[0])
	}
}

func TestC09_FaultHistory(t *testing.T) { rapid.Check(t, propFaultHistory) }
