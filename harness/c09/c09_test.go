// Package c09: signing nonces are never reused, biased or RNG-trusting;
// RFC 6979 mode is exact.
package c09

import (
	"bytes"
	"encoding/hex"
	"fmt"
	"io"
	"math/big"
	"os"
	"path/filepath"
	"strings"
	"testing"

	"pgregory.net/rapid"

	secp256k1 "gitlab.com/yawning/secp256k1-voi"
	"gitlab.com/yawning/secp256k1-voi/secec"
	"gitlab.com/yawning/secp256k1-voi/verifharness/gen"
	"gitlab.com/yawning/secp256k1-voi/verifharness/lib"
	"gitlab.com/yawning/secp256k1-voi/verifharness/ref"
	"gitlab.com/yawning/secp256k1-voi/verifharness/stat"
)

func TestMain(m *testing.M) { stat.Main(m) }

// hoistedRFC6979 is one RFC6979SHA256() value used by many signing calls: the selector is a value like any other,
// and callers take it once, outside their loops.
var hoistedRFC6979 = secec.RFC6979SHA256()

// rfcReader returns the RFC 6979 selector: a fresh one, or the one every earlier call of this process used.
func rfcReader(t *rapid.T) io.Reader {
	if rapid.Bool().Draw(t, "rfc6979-selector-reused") {
		return hoistedRFC6979
	}
	return secec.RFC6979SHA256()
}

type sigOut struct {
	r, s *big.Int
	v    byte
}

func signWith(t *rapid.T, d *big.Int, digest []byte, rd *gen.ScriptedReader) (sigOut, error) {
	k := lib.PrivKey(d)
	if rapid.Bool().Draw(t, "caller-scrubs-key-copies") {
		// a caller may wipe everything a key handed out; the key (and the nonce derivation) must not care
		b := k.Bytes()
		for i := range b {
			b[i] = 0
		}
		k.Scalar().Zero()
		pb := k.PublicKey().Bytes()
		for i := range pb {
			pb[i] = 0
		}
	}
	r, s, v, err := k.SignRaw(rd, digest)
	if err != nil {
		if r != nil || s != nil {
			t.Fatal("SignRaw returned an error together with signature values")
		}
		return sigOut{}, err
	}
	return sigOut{lib.ScInt(r), lib.ScInt(s), v}, nil
}

func (a sigOut) eq(b sigOut) bool { return a.r.Cmp(b.r) == 0 && a.s.Cmp(b.s) == 0 && a.v == b.v }

// propRelations: metamorphic relations between two signing calls that differ
// in exactly one input.
func propRelations(t *rapid.T) {
	d := gen.NonZero256(t, ref.N, "d")
	dlen := gen.Sampled([]int{32, 32, 33, 48, 64}).Draw(t, "dlen")
	digest := gen.Bytes(t, dlen, dlen, "digest")
	if rapid.Bool().Draw(t, "small-e") { // leave room for the e+n alias
		copy(digest, ref.B32(gen.Int256(t, new(big.Int).Sub(ref.Two256, ref.N), "esmall")))
	}
	content, ckind := gen.EntropyContent(t, 32+gen.Sampled([]int{0, 1, 8, 32, 40}).Draw(t, "extra"), "rng")
	base := &gen.ScriptedReader{Data: content, FailAfter: -1}
	rel := gen.Sampled([]string{"same", "chunked", "other-d", "other-e", "entropy-bit", "entropy-tail", "digest-tail", "digest-alias", "digest-bit"}).Draw(t, "relation")

	out1, err := signWith(t, d, digest, base)
	if err != nil {
		t.Fatalf("SignRaw failed with a healthy reader: %v", err)
	}
	if base.Consumed != 32 {
		t.Fatalf("SignRaw consumed %d entropy bytes, want exactly 32", base.Consumed)
	}
	d2, digest2 := d, append([]byte(nil), digest...)
	rd2 := &gen.ScriptedReader{Data: append([]byte(nil), content...), FailAfter: -1}
	wantSame := false
	switch rel {
	case "same":
		wantSame = true
	case "chunked":
		wantSame = true
		rd2.Chunks = rapid.SliceOfN(rapid.IntRange(1, 33), 1, 5).Draw(t, "chunks")
		if rapid.Bool().Draw(t, "bytewise") {
			rd2.Chunks = []int{1}
		}
	case "other-d":
		// d2 = ((d - 1 + dd) mod (n-1)) + 1: in [1,n-1] and different from d
		nm1 := new(big.Int).Sub(ref.N, big.NewInt(1))
		d2 = new(big.Int).Add(d, big.NewInt(int64(rapid.IntRange(1, 1000).Draw(t, "dd"))-1))
		d2.Mod(d2, nm1).Add(d2, big.NewInt(1))
		if rapid.Bool().Draw(t, "neg-d") { // -d shares the x-coordinate of the public key
			d2 = ref.NegM(d, ref.N)
			if d2.Cmp(d) == 0 {
				t.Skip("d = -d")
			}
		}
	case "other-e", "digest-bit":
		bit := rapid.IntRange(0, 255).Draw(t, "ebit")
		digest2[bit/8] ^= 1 << (bit % 8)
		if ref.Mod(ref.Int(digest2[:32]), ref.N).Cmp(ref.Mod(ref.Int(digest[:32]), ref.N)) == 0 {
			wantSame = true // cannot happen for a single bit flip (the difference is a power of two, not n)
		}
	case "entropy-bit":
		bit := rapid.IntRange(0, 255).Draw(t, "rbit")
		rd2.Data[bit/8] ^= 1 << (bit % 8)
	case "entropy-tail":
		wantSame = true
		if len(rd2.Data) > 32 {
			for i := 32; i < len(rd2.Data); i++ {
				rd2.Data[i] ^= 0xa5
			}
		} else {
			rd2.Data = append(rd2.Data, 1, 2, 3)
		}
	case "digest-tail":
		wantSame = true
		if len(digest2) > 32 {
			for i := 32; i < len(digest2); i++ {
				digest2[i] ^= 0x5a
			}
		} else {
			digest2 = append(digest2, gen.Bytes(t, 1, 32, "newtail")...)
		}
	case "digest-alias":
		e := ref.Int(digest[:32])
		alt := new(big.Int).Add(e, ref.N)
		if alt.BitLen() > 256 {
			alt = new(big.Int).Sub(e, ref.N)
		}
		if alt.Sign() < 0 {
			rel = "same"
		} else {
			copy(digest2, ref.B32(alt))
		}
		wantSame = true
	}
	out2, err := signWith(t, d2, digest2, rd2)
	if err != nil {
		t.Fatalf("second SignRaw failed: %v", err)
	}
	if rd2.Consumed != 32 {
		t.Fatalf("SignRaw consumed %d entropy bytes (relation %s), want exactly 32", rd2.Consumed, rel)
	}
	stat.Case("relations", []string{"rel:" + rel, "rng:" + ckind, fmt.Sprintf("dlen:%d", dlen)}, true,
		[]byte(fmt.Sprintf("%s|%x|%x|%x|%x|%x|%v", rel, d, digest, content, d2, digest2, rd2.Chunks)), func() any {
			return map[string]any{"relation": rel, "d": d.Text(16), "digest": stat.Hex(digest), "entropy": stat.Hex(content), "digest2": stat.Hex(digest2), "chunks": rd2.Chunks}
		})
	if rel == "digest-tail" || rel == "digest-alias" {
		// The digest enters the signature as e (its leftmost 256 bits mod n), so these two digests are the
		// same message to ECDSA.  The property only says the nonce is a function of (key, digest, entropy):
		// an implementation that feeds the raw digest bytes into the nonce derivation would answer with a
		// different -- equally valid -- signature, so nothing is demanded here beyond validity (the
		// deterministic mode, where the RFC fixes the answer, is compared with the reference elsewhere).
		q := ref.BaseMul(d)
		if !ref.ECDSAVerify(q, digest2, out2.r, out2.s) || !ref.ECDSAVerify(q, digest, out2.r, out2.s) {
			t.Fatalf("relation %q: the second signature is not valid for both (equivalent) digests", rel)
		}
	} else if wantSame {
		if !out1.eq(out2) {
			t.Fatalf("relation %q must not change the signature: (%x,%x,%d) vs (%x,%x,%d)", rel, out1.r, out1.s, out1.v, out2.r, out2.s, out2.v)
		}
	} else if out1.r.Cmp(out2.r) == 0 {
		t.Fatalf("relation %q changed an input but r (hence the nonce, up to sign) stayed %x", rel, out1.r)
	}
}

func TestC09_Relations(t *testing.T) { rapid.Check(t, propRelations) }

// propReaderFailure: a reader that fails after j < 32 delivered bytes makes
// signing fail with no output; j >= 32 succeeds.
func propReaderFailure(t *rapid.T) {
	d := gen.NonZero256(t, ref.N, "d")
	digest := gen.Bytes(t, 32, 32, "digest")
	j := rapid.IntRange(0, 34).Draw(t, "j")
	content, _ := gen.EntropyContent(t, 40, "rng")
	rd := &gen.ScriptedReader{Data: content, FailAfter: j}
	var ek string
	rd.Err, rd.ErrWithData, ek = gen.FailureKind(t, "fail") // also io.EOF: a drained bytes.Reader / finite pool
	if rapid.IntRange(0, 5).Draw(t, "panics") == 0 {
		rd.Err, rd.ErrWithData, ek = gen.ErrPanic, false, "panic" // the source panics, the caller recovers
	}
	// half of the keys are ephemeral (the failing call is their last use), the others are used again
	reuse := rapid.Bool().Draw(t, "reuse")
	if rapid.Bool().Draw(t, "chunked") {
		rd.Chunks = rapid.SliceOfN(rapid.IntRange(1, 33), 1, 4).Draw(t, "chunks")
	} else if rapid.IntRange(0, 3).Draw(t, "collecting") == 0 {
		rd.Collect = true // a slow source: a garbage collection lands inside the call, which is the key's last use
	}
	api := gen.Sampled([]string{"SignRaw", "Sign"}).Draw(t, "api")
	// the reader is handed over as the argument, or the argument is nil and the reader is what the process-wide
	// default source (crypto/rand.Reader) is at that moment
	source := gen.Sampled([]string{"argument", "argument", "process-default"}).Draw(t, "source")
	stat.Case("readerfail", []string{fmt.Sprintf("j:%d", j), "api:" + api, "error:" + ek, "source:" + source, fmt.Sprintf("key-reused:%v", reuse)}, true, []byte(fmt.Sprintf("%d|%x|%x|%v|%s|%s|%s|%v", j, d, digest, rd.Chunks, api, ek, source, reuse)), func() any {
		return map[string]any{"fail_after": j, "d": d.Text(16), "chunks": rd.Chunks, "api": api, "error": ek, "source": source}
	})
	key := lib.PrivKey(d)
	var err error
	var gotSig bool
	var rawR, rawS *big.Int
	call := func(arg io.Reader) {
		if api == "SignRaw" {
			r, s, _, e := key.SignRaw(arg, digest)
			err, gotSig = e, r != nil || s != nil
			if e == nil && r != nil && s != nil {
				rawR, rawS = lib.ScInt(r), lib.ScInt(s)
			}
		} else {
			sig, e := key.Sign(arg, digest, nil)
			err, gotSig = e, sig != nil
		}
	}
	// (for an ephemeral key nothing below this call refers to the key object: the call is its last use)
	var kept *secec.PrivateKey
	if reuse {
		kept = key
	}
	panicked := lib.Catch(func() {
		if source == "argument" {
			call(rd)
		} else {
			gen.WithProcessEntropy(rd, func() { call(nil) })
		}
	})
	if panicked != nil && (ek != "panic" || j >= 32) {
		t.Fatalf("%s panicked: %v", api, panicked)
	}
	if kept != nil {
		// The same key object signs again, deterministically: whatever the failed (or panicked and
		// recovered) call left behind, the nonce is the RFC 6979 function of key and digest, and the
		// call returns.
		defer func() {
			digest2 := gen.Bytes(t, 32, 32, "digest2")
			wr, ws, wid, _ := ref.RFC6979Sign(d, digest2)
			ws, neg := ref.LowS(ws)
			if neg {
				wid ^= 1
			}
			var r2, s2 *secp256k1.Scalar
			var v2 byte
			var err2 error
			returned, p2, stuck := lib.Watch(func() { r2, s2, v2, err2 = kept.SignRaw(secec.RFC6979SHA256(), digest2) })
			if !returned {
				t.Fatalf("SignRaw on a key whose previous entropy source failed (%s after %d bytes) never returns: the call is parked with nobody left to wake it: %s", ek, j, stuck)
			}
			if p2 != nil || err2 != nil {
				t.Fatalf("SignRaw(RFC 6979) after a failed entropy source (%s after %d bytes): panic=%v err=%v", ek, j, p2, err2)
			}
			if lib.ScInt(r2).Cmp(wr) != 0 || lib.ScInt(s2).Cmp(ws) != 0 || int(v2) != wid {
				t.Fatalf("RFC 6979 mismatch after a failed entropy source for d=%x digest=%x: got (%x,%x,%d) want (%x,%x,%d)", d, digest2, lib.ScInt(r2), lib.ScInt(s2), v2, wr, ws, wid)
			}
		}()
	}
	if j < 32 {
		if panicked == nil && (err == nil || gotSig) {
			t.Fatalf("%s succeeded although the entropy source failed (%s) after %d bytes", api, ek, j)
		}
	} else if err != nil {
		t.Fatalf("%s failed although 32 entropy bytes were available: %v", api, err)
	} else if rawR != nil && !ref.ECDSAVerify(ref.BaseMul(d), digest, rawR, rawS) {
		// (the call above was the last use of the key object, and a collecting reader ran the garbage
		// collector during the entropy reads)
		t.Fatalf("SignRaw returned an invalid signature (r=%x, s=%x) for d=%x digest=%x [reader collects: %v]", rawR, rawS, d, digest, rd.Collect)
	}
}

func TestC09_ReaderFailure(t *testing.T) { rapid.Check(t, propReaderFailure) }

// propRFC6979: the deterministic mode equals the reference RFC 6979
// signature for every key and digest (lengths 32..64).
func propRFC6979(t *rapid.T) {
	d := gen.NonZero256(t, ref.N, "d")
	dlen := gen.Sampled([]int{32, 32, 32, 33, 48, 64}).Draw(t, "dlen")
	digest := gen.Bytes(t, dlen, dlen, "digest")
	kind := gen.Sampled([]string{"random", "e>=n", "e=n", "zeros", "ones"}).Draw(t, "dkind")
	switch kind {
	case "e>=n":
		copy(digest, ref.B32(new(big.Int).Add(ref.N, gen.Small(t, "off"))))
	case "e=n":
		copy(digest, ref.B32(ref.N))
	case "zeros":
		for i := range digest {
			digest[i] = 0
		}
	case "ones":
		for i := range digest {
			digest[i] = 0xff
		}
	}
	stat.Case("rfc6979", []string{"digest:" + kind, fmt.Sprintf("dlen:%d", dlen)}, true, []byte(fmt.Sprintf("%x|%x", d, digest)), func() any {
		return map[string]any{"d": d.Text(16), "digest": stat.Hex(digest)}
	})
	wr, ws, wid, _ := ref.RFC6979Sign(d, digest)
	ws, neg := ref.LowS(ws)
	if neg {
		wid ^= 1
	}
	r, s, v, err := lib.PrivKey(d).SignRaw(rfcReader(t), digest)
	if err != nil {
		t.Fatalf("SignRaw(RFC6979) failed: %v", err)
	}
	if lib.ScInt(r).Cmp(wr) != 0 || lib.ScInt(s).Cmp(ws) != 0 || int(v) != wid {
		t.Fatalf("RFC 6979 mismatch for d=%x digest=%x: got (%x,%x,%d) want (%x,%x,%d)", d, digest, lib.ScInt(r), lib.ScInt(s), v, wr, ws, wid)
	}
	sig, err := lib.PrivKey(d).Sign(rfcReader(t), digest, nil)
	if err != nil || !bytes.Equal(sig, ref.EncodeDERSig(wr, ws)) {
		t.Fatalf("Sign(RFC6979) = %x, want %x (%v)", sig, ref.EncodeDERSig(wr, ws), err)
	}
}

func TestC09_RFC6979(t *testing.T) { rapid.Check(t, propRFC6979) }

// TestC09_ShortNonceCorpus replays a corpus of (private key, digest) pairs
// whose RFC 6979 nonce has many leading zero bits (found once by search with
// cmd/noncesearch -- such nonces come out of HMAC and cannot be steered, the
// 32-bit ones cost 2^32 trials).  The deterministic signature must equal the
// reference RFC 6979 signature there too: code that treats a "short" nonce
// specially (skips it, pads it, takes another path) breaks exactness only on
// these inputs.  The corpus also holds nonces of other rare shapes (64-bit
// words that share no set bit or cover all bits; cmd/structsearch -mode
// rfc6979 -cheap).
func TestC09_ShortNonceCorpus(t *testing.T) {
	raw, err := os.ReadFile(filepath.Join(os.Getenv("VERIF_ROOT"), "harness", "c09", "testdata", "short_nonces.txt"))
	if err != nil {
		raw, err = os.ReadFile(filepath.Join("testdata", "short_nonces.txt"))
	}
	if err != nil {
		t.Fatalf("HARNESS-INCONCLUSIVE: corpus missing: %v", err)
	}
	n := 0
	for _, line := range strings.Split(string(raw), "\n") {
		f := strings.Fields(line)
		if len(f) == 5 && f[0] == "rfc6979" { // cmd/structsearch line: the nonce has a rare shape other than leading zeros
			f = f[1:]
		} else if len(f) == 4 && !strings.HasPrefix(line, "#") {
			f[0] = "lz" + f[0]
		} else {
			continue
		}
		dB, _ := hex.DecodeString(f[1])
		digest, _ := hex.DecodeString(f[2])
		kB, _ := hex.DecodeString(f[3])
		d := ref.Int(dB)
		if got := ref.NewRFC6979(d, digest).Next(); !bytes.Equal(got, kB) {
			t.Fatalf("HARNESS-INCONCLUSIVE: corpus line %q does not match the reference generator", line)
		}
		wr, ws, wid, _ := ref.RFC6979Sign(d, digest)
		if ls, neg := ref.LowS(ws); neg {
			ws, wid = ls, wid^1
		}
		r, s, v, err := lib.PrivKey(d).SignRaw(secec.RFC6979SHA256(), digest)
		if err != nil {
			t.Fatalf("SignRaw(RFC6979) failed: %v", err)
		}
		if lib.ScInt(r).Cmp(wr) != 0 || lib.ScInt(s).Cmp(ws) != 0 || int(v) != wid {
			t.Fatalf("RFC 6979 mismatch where the nonce has shape %s (k=%s): d=%x digest=%x: got (%x,%x,%d) want (%x,%x,%d)",
				f[0], f[3], d, digest, lib.ScInt(r), lib.ScInt(s), v, wr, ws, wid)
		}
		n++
		stat.Case("short-nonce-corpus", []string{"nonce-shape:" + f[0]}, true, []byte(line), func() any {
			return map[string]any{"nonce_shape": f[0], "d": f[1], "digest": f[2], "k": f[3]}
		})
	}
	if n < 8 {
		t.Fatalf("HARNESS-INCONCLUSIVE: corpus has only %d usable lines", n)
	}
}
