//go:build verif

package c09

import (
	"bytes"
	"fmt"
	"math/big"
	"sync"
	"testing"

	"pgregory.net/rapid"

	"gitlab.com/yawning/secp256k1-voi/secec"
	"gitlab.com/yawning/secp256k1-voi/verifharness/gen"
	"gitlab.com/yawning/secp256k1-voi/verifharness/lib"
	"gitlab.com/yawning/secp256k1-voi/verifharness/ref"
	"gitlab.com/yawning/secp256k1-voi/verifharness/stat"
)

// propSampler feeds scripted candidate streams to the rejection sampler.
func propSampler(t *rapid.T) {
	nc := rapid.IntRange(1, resampleLimit(t)+2).Draw(t, "candidates")
	var stream []byte
	var cands []*big.Int
	firstGood := -1
	for i := 0; i < nc; i++ {
		var c *big.Int
		switch gen.Sampled([]string{"0", "n", "n+1", "2^256-1", "n-1", "1", "drawn", ">=n"}).Draw(t, fmt.Sprintf("c%d", i)) {
		case "0":
			c = big.NewInt(0)
		case "n":
			c = new(big.Int).Set(ref.N)
		case "n+1":
			c = new(big.Int).Add(ref.N, big.NewInt(1))
		case "2^256-1":
			c = new(big.Int).Sub(ref.Two256, big.NewInt(1))
		case "n-1":
			c = new(big.Int).Sub(ref.N, big.NewInt(1))
		case "1":
			c = big.NewInt(1)
		case ">=n":
			c = new(big.Int).Add(ref.N, gen.Int256(t, new(big.Int).Sub(ref.Two256, ref.N), "over"))
		default:
			c = gen.Raw256(t, ref.N, "cand")
		}
		cands = append(cands, c)
		stream = append(stream, ref.B32(c)...)
		if firstGood < 0 && c.Sign() > 0 && c.Cmp(ref.N) < 0 {
			firstGood = i
		}
	}
	truncate := rapid.IntRange(0, 3).Draw(t, "truncate") == 0
	if truncate && len(stream) > 0 {
		stream = stream[:len(stream)-rapid.IntRange(1, 31).Draw(t, "cut")]
	}
	rd := &gen.ScriptedReader{Data: stream, FailAfter: -1}
	if rapid.Bool().Draw(t, "chunked") {
		rd.Chunks = rapid.SliceOfN(rapid.IntRange(1, 40), 1, 4).Draw(t, "chunks")
	}
	// model; the retry limit is the library's own constant, measured rather than assumed
	maxResamples := resampleLimit(t)
	wantIdx, wantErr := -1, false
	avail := len(stream) / 32
	for i := 0; i < maxResamples; i++ {
		if i >= avail {
			wantErr = true // read error
			break
		}
		if cands[i].Sign() > 0 && cands[i].Cmp(ref.N) < 0 {
			wantIdx = i
			break
		}
	}
	if wantIdx < 0 {
		wantErr = true
	}
	cl := []string{fmt.Sprintf("rejected-before-accept:%d", max(wantIdx, 0))}
	if wantErr {
		cl = []string{"fails"}
	}
	stat.Case("sampler", cl, wantIdx != 0, append([]byte(fmt.Sprintf("%v|", rd.Chunks)), stream...), func() any {
		var cs []string
		for _, c := range cands {
			cs = append(cs, c.Text(16))
		}
		return map[string]any{"candidates": cs, "stream_len": len(stream), "chunks": rd.Chunks}
	})
	s, err := secec.VerifSampleRandomScalar(rd)
	if wantErr {
		if err == nil || s != nil {
			t.Fatalf("sampler returned %v for a stream without an acceptable candidate in its first %d", s, maxResamples)
		}
		return
	}
	if err != nil {
		t.Fatalf("sampler failed: %v (expected candidate %d)", err, wantIdx)
	}
	if lib.ScInt(s).Cmp(cands[wantIdx]) != 0 {
		t.Fatalf("sampler returned %x, want the first in-range candidate %x unmodified", lib.ScInt(s), cands[wantIdx])
	}
	if rd.Consumed != 32*(wantIdx+1) {
		t.Fatalf("sampler consumed %d bytes, want %d", rd.Consumed, 32*(wantIdx+1))
	}
}

var (
	limitOnce sync.Once
	limitVal  int
)

// resampleLimit measures how many out-of-range candidates the sampler
// discards before giving up (an implementation constant the property does not
// fix): it is fed a long stream of zero candidates.
func resampleLimit(t *rapid.T) int {
	limitOnce.Do(func() {
		rd := &gen.ScriptedReader{Data: make([]byte, 32*200), FailAfter: -1}
		s, err := secec.VerifSampleRandomScalar(rd)
		if err == nil || s != nil || rd.Consumed%32 != 0 {
			return
		}
		limitVal = rd.Consumed / 32
	})
	if limitVal < 1 || limitVal >= 200 {
		t.Fatalf("HARNESS-INCONCLUSIVE: could not measure the sampler's retry limit (%d)", limitVal)
	}
	return limitVal
}

func TestC09_Sampler(t *testing.T) { rapid.Check(t, propSampler) }

// propDRBG reads the deterministic generator N times and compares with the
// reference candidate sequence T1..TN (the "after rejected candidates" part).
func propDRBG(t *rapid.T) {
	x := gen.NonZero256(t, ref.N, "x")
	e := gen.Int256(t, ref.N, "e")
	n := rapid.IntRange(1, 12).Draw(t, "reads")
	stat.Case("drbg", []string{fmt.Sprintf("reads:%d", n)}, n >= 2, []byte(fmt.Sprintf("%x|%x|%d", x, e, n)), func() any {
		return map[string]any{"x": x.Text(16), "e": e.Text(16), "reads": n}
	})
	rd := secec.VerifNewDrbgRFC6979(lib.Sc(x), lib.Sc(e))
	g := ref.NewRFC6979(x, ref.B32(e))
	// Each candidate is taken either by a direct Read into a caller buffer (which the caller then
	// overwrites, as any caller may) or through the rejection sampler, which is how sign() consumes
	// the generator when it has to retry; the sequence must be T1, T2, ... either way.
	for i := 0; i < n; i++ {
		want := g.Next()
		if rapid.Bool().Draw(t, fmt.Sprintf("via-sampler-%d", i)) {
			for c := ref.Int(want); c.Sign() == 0 || c.Cmp(ref.N) >= 0; c = ref.Int(want) {
				want = g.Next() // (probability 2^-128) the sampler skips an out-of-range candidate
			}
			k, err := secec.VerifSampleRandomScalar(rd)
			if err != nil || k == nil {
				t.Fatalf("sampler over the RFC 6979 generator failed at candidate %d: %v", i+1, err)
			}
			if !bytes.Equal(k.Bytes(), want) {
				t.Fatalf("RFC 6979 candidate T%d taken through the sampler = %x, want %x (x=%x e=%x)", i+1, k.Bytes(), want, x, e)
			}
			continue
		}
		var buf [32]byte
		k, err := rd.Read(buf[:])
		if err != nil || k != 32 {
			t.Fatalf("drbg read %d: %d, %v", i, k, err)
		}
		if !bytes.Equal(buf[:], want) {
			t.Fatalf("RFC 6979 candidate T%d = %x, want %x (x=%x e=%x)", i+1, buf, want, x, e)
		}
		for j := range buf {
			buf[j] = 0
		}
	}
}

func TestC09_DRBG(t *testing.T) { rapid.Check(t, propDRBG) }

func max(a, b int) int {
	if a > b {
		return a
	}
	return b
}

// propDRBGRejection: the rejection sampler over the REAL deterministic
// generator, with some of the generator's outputs replaced by out-of-range
// candidates (0, n, 2^256-1, ...) so that the sampler must reject them -- the
// only way to see what sign() does "after rejected candidates", since an
// out-of-range HMAC output has probability 2^-128.  The forced generator
// advances exactly like the real one; the accepted candidate must be the
// reference's T_j for the first non-forced position j, unmodified.
func propDRBGRejection(t *rapid.T) {
	x := gen.NonZero256(t, ref.N, "x")
	e := gen.Int256(t, ref.N, "e")
	limit := resampleLimit(t)
	nForced := rapid.IntRange(1, limit+1).Draw(t, "rejected")
	over := make([][]byte, nForced)
	for i := range over {
		switch gen.Sampled([]string{"0", "n", "n+1", "2^256-1", ">=n"}).Draw(t, fmt.Sprintf("bad%d", i)) {
		case "0":
			over[i] = make([]byte, 32)
		case "n":
			over[i] = ref.B32(ref.N)
		case "n+1":
			over[i] = ref.B32(new(big.Int).Add(ref.N, big.NewInt(1)))
		case "2^256-1":
			over[i] = bytes.Repeat([]byte{0xff}, 32)
		default:
			over[i] = ref.B32(new(big.Int).Add(ref.N, gen.Int256(t, new(big.Int).Sub(ref.Two256, ref.N), "over")))
		}
	}
	calls := rapid.IntRange(1, 3).Draw(t, "sampler-calls")
	stat.Case("drbg-rejection", []string{fmt.Sprintf("rejected:%d", nForced), fmt.Sprintf("calls:%d", calls)}, true,
		[]byte(fmt.Sprintf("%x|%x|%x|%d", x, e, over, calls)), func() any {
			return map[string]any{"x": x.Text(16), "e": e.Text(16), "forced_rejections": nForced, "sampler_calls": calls}
		})
	rd := secec.VerifNewForcingDrbgRFC6979(lib.Sc(x), lib.Sc(e), over)
	g := ref.NewRFC6979(x, ref.B32(e))
	pos := 0 // index of the next reference candidate
	for c := 0; c < calls; c++ {
		// model of one sampler call starting at generator position pos
		var want []byte
		rejected := 0
		for {
			cand := g.Next()
			forced := pos < nForced
			pos++
			if forced {
				rejected++
				if rejected >= limit {
					want = nil
					break
				}
				continue
			}
			if v := ref.Int(cand); v.Sign() == 0 || v.Cmp(ref.N) >= 0 {
				rejected++ // (probability 2^-128)
				if rejected >= limit {
					break
				}
				continue
			}
			want = cand
			break
		}
		k, err := secec.VerifSampleRandomScalar(rd)
		if want == nil {
			if err == nil || k != nil {
				t.Fatalf("sampler call %d returned a scalar although its first %d candidates were out of range", c+1, limit)
			}
			continue
		}
		if err != nil || k == nil {
			t.Fatalf("sampler call %d over the RFC 6979 generator failed after %d rejected candidates: %v", c+1, rejected, err)
		}
		if !bytes.Equal(k.Bytes(), want) {
			t.Fatalf("after %d rejected candidates the sampler returned %x, RFC 6979 says the next candidate is %x (x=%x e=%x, call %d)",
				rejected, k.Bytes(), want, x, e, c+1)
		}
	}
}

func TestC09_DRBGRejection(t *testing.T) { rapid.Check(t, propDRBGRejection) }
