package c10

import (
	"bytes"
	"fmt"
	"math/big"
	"testing"

	"pgregory.net/rapid"

	"gitlab.com/yawning/secp256k1-voi/secec"
	"gitlab.com/yawning/secp256k1-voi/verifharness/gen"
	"gitlab.com/yawning/secp256k1-voi/verifharness/lib"
	"gitlab.com/yawning/secp256k1-voi/verifharness/ref"
	"gitlab.com/yawning/secp256k1-voi/verifharness/stat"
)

// propGeneratedKeys: key objects only ever hold valid keys - those that GenerateKey makes included, whatever the
// process-wide entropy source (the only input GenerateKey has) does, and whatever happened before.  A history of
// GenerateKey calls under scripted process-wide sources: good streams, streams that begin with out-of-range
// candidates (0, n, 2^256-1, ...), streams that fail part-way (error, EOF), mixed with hedged signing calls on the
// generated keys (good and failing entropy) and imports of other keys.  Every key object handed out is kept; after
// every step each of them must still be the key it was when it was created: Bytes()/Scalar() unchanged and in
// [1,n), the public half the reference's d*G in every encoding, ECDH with a fixed peer symmetric and exact.  A
// failed GenerateKey returns an error and no object.
func propGeneratedKeys(t *rapid.T) {
	type kept struct {
		k    *secec.PrivateKey
		d    *big.Int
		step int
	}
	var keys []kept
	peerD := gen.NonZero256(t, ref.N, "peer")
	peer := lib.PrivKey(peerD)
	peerPub := ref.BaseMul(peerD)
	validate := func(ctx string) {
		for _, e := range keys {
			what := fmt.Sprintf("%s: key generated in step %d", ctx, e.step)
			if got := e.k.Bytes(); !bytes.Equal(got, ref.B32(e.d)) {
				t.Fatalf("%s: Bytes() = %x, but it was %x when the key was created", what, got, e.d)
			}
			if got := lib.ScInt(e.k.Scalar()); got.Cmp(e.d) != 0 {
				t.Fatalf("%s: Scalar() = %x, but the key was %x when it was created", what, got, e.d)
			}
			P := ref.BaseMul(e.d)
			if !bytes.Equal(e.k.PublicKey().Bytes(), P.Uncompressed()) || !bytes.Equal(e.k.PublicKey().CompressedBytes(), P.Compressed()) {
				t.Fatalf("%s: public key %x is not d*G for d=%x", what, e.k.PublicKey().Bytes(), e.d)
			}
			want := ref.B32(peerPub.Mul(e.d).X)
			s1, err1 := e.k.ECDH(peer.PublicKey())
			s2, err2 := peer.ECDH(e.k.PublicKey())
			if err1 != nil || err2 != nil || !bytes.Equal(s1, want) || !bytes.Equal(s2, want) {
				t.Fatalf("%s: ECDH with the peer gives %x / %x (errors %v / %v), want %x", what, s1, s2, err1, err2, want)
			}
		}
	}
	special := map[string]*big.Int{
		"0": new(big.Int), "n": ref.N, "n+1": new(big.Int).Add(ref.N, big.NewInt(1)),
		"2^256-1": new(big.Int).Sub(new(big.Int).Lsh(big.NewInt(1), 256), big.NewInt(1)),
	}
	steps := rapid.IntRange(3, 8).Draw(t, "steps")
	var trace []string
	classes := map[string]bool{}
	for i := 0; i < steps; i++ {
		kind := gen.Sampled([]string{"generate", "generate", "generate", "generate-fails", "generate-fails", "generate-rejects", "sign", "sign-fails", "import"}).Draw(t, fmt.Sprintf("step%d", i))
		if (kind == "sign" || kind == "sign-fails") && len(keys) == 0 {
			kind = "generate"
		}
		classes["step:"+kind] = true
		ctx := fmt.Sprintf("step %d (%s) after %v", i, kind, trace)
		switch kind {
		case "generate", "generate-rejects", "generate-fails":
			var stream []byte
			nrej := 0
			if kind == "generate-rejects" {
				nrej = rapid.IntRange(1, 3).Draw(t, "rejected-candidates")
				for j := 0; j < nrej; j++ {
					stream = append(stream, ref.B32(special[gen.Sampled([]string{"0", "n", "n+1", "2^256-1"}).Draw(t, "rejected")])...)
				}
			}
			cand := gen.NonZero256(t, ref.N, "candidate")
			stream = append(stream, ref.B32(cand)...)
			stream = append(stream, bytes.Repeat(gen.Bytes(t, 40, 40, "tail"), 6)...)
			rd := &gen.ScriptedReader{Data: stream, FailAfter: -1}
			if rapid.Bool().Draw(t, "chunked") {
				rd.Chunks = rapid.SliceOfN(rapid.IntRange(1, 33), 1, 4).Draw(t, "chunks")
			}
			if kind == "generate-fails" {
				rd.FailAfter = rapid.IntRange(0, 31).Draw(t, "fail-after")
				rd.Err, rd.ErrWithData, _ = gen.FailureKind(t, "fail")
			}
			var k *secec.PrivateKey
			var err error
			gen.WithProcessEntropy(rd, func() { k, err = secec.GenerateKey() })
			if kind == "generate-fails" {
				if err == nil || k != nil {
					t.Fatalf("%s: GenerateKey returned (%v, %v) although the entropy source failed after %d bytes", ctx, k, err, rd.FailAfter)
				}
				trace = append(trace, fmt.Sprintf("generate-fails@%d", rd.FailAfter))
				break
			}
			if kind == "generate-rejects" && err != nil && k == nil {
				// how many out-of-range candidates the sampler tolerates is the library's business
				trace = append(trace, "generate-rejects(refused)")
				break
			}
			if err != nil || k == nil {
				t.Fatalf("%s: GenerateKey failed on a working entropy source: (%v, %v)", ctx, k, err)
			}
			d := ref.Int(k.Bytes())
			if d.Sign() == 0 || d.Cmp(ref.N) >= 0 {
				t.Fatalf("%s: GenerateKey produced the scalar %x, which is outside [1,n)", ctx, d)
			}
			if msg := lib.FirstUsePriv(t, k, d, "first-use"); msg != "" {
				t.Fatalf("%s: %s", ctx, msg)
			}
			keys = append(keys, kept{k, d, i})
			trace = append(trace, kind)
		case "sign", "sign-fails":
			e := keys[rapid.IntRange(0, len(keys)-1).Draw(t, "signer")]
			digest := gen.Bytes(t, 32, 32, "digest")
			ent, _ := gen.EntropyContent(t, 40, "ent")
			rd := &gen.ScriptedReader{Data: ent, FailAfter: -1}
			if kind == "sign-fails" {
				rd.FailAfter = rapid.IntRange(0, 31).Draw(t, "sign-fail-after")
				rd.Err, rd.ErrWithData, _ = gen.FailureKind(t, "signfail")
			}
			r, s, _, err := e.k.SignRaw(rd, digest)
			if kind == "sign-fails" {
				if err == nil {
					t.Fatalf("%s: SignRaw succeeded although its entropy source failed", ctx)
				}
			} else if err != nil || !ref.ECDSAVerify(ref.BaseMul(e.d), digest, lib.ScInt(r), lib.ScInt(s)) {
				t.Fatalf("%s: signature by the key generated in step %d does not verify under d*G (err=%v)", ctx, e.step, err)
			}
			trace = append(trace, kind)
		case "import":
			d := gen.NonZero256(t, ref.N, "imported")
			keys = append(keys, kept{lib.PrivKey(d), d, i})
			trace = append(trace, "import")
		}
		validate(ctx)
	}
	var cl []string
	for _, c := range []string{"generate", "generate-fails", "generate-rejects", "sign", "sign-fails", "import"} {
		if classes["step:"+c] {
			cl = append(cl, "step:"+c)
		}
	}
	stat.Case("generated-keys", cl, true, []byte(fmt.Sprint(trace, peerD, len(keys))), func() any {
		return map[string]any{"history": trace, "keys_kept": len(keys)}
	})
}

func TestC10_GeneratedKeys(t *testing.T) { rapid.Check(t, propGeneratedKeys) }
