// Package c10: ECDH is symmetric and exact; key objects only ever hold
// valid keys.
package c10

import (
	"bytes"
	"fmt"
	"math/big"
	"testing"

	"pgregory.net/rapid"

	secp256k1 "gitlab.com/yawning/secp256k1-voi"
	"gitlab.com/yawning/secp256k1-voi/secec"
	"gitlab.com/yawning/secp256k1-voi/verifharness/gen"
	"gitlab.com/yawning/secp256k1-voi/verifharness/lib"
	"gitlab.com/yawning/secp256k1-voi/verifharness/ref"
	"gitlab.com/yawning/secp256k1-voi/verifharness/stat"
)

func TestMain(m *testing.M) { stat.Main(m) }

// importPub builds a PublicKey for p through the named route.
func importPub(t *rapid.T, p ref.Pt, route string) *secec.PublicKey {
	var (
		k   *secec.PublicKey
		err error
	)
	switch route {
	// byte-slice routes: like the point routes below, the caller goes on using (here: overwrites) the
	// buffer it passed in; encodings cached at construction must be the key's own
	case "uncompressed":
		src := p.Uncompressed()
		k, err = secec.NewPublicKey(src)
		overwrite(src)
	case "compressed":
		src := p.Compressed()
		k, err = secec.NewPublicKey(src)
		overwrite(src)
	case "spki":
		src := ref.EncodeSPKI(p)
		k, err = secec.ParseASN1PublicKey(src)
		overwrite(src)
	case "spki-compressed":
		src := append(append([]byte(nil), ref.SPKIPrefixCompressed...), p.Compressed()...)
		k, err = secec.ParseASN1PublicKey(src)
		overwrite(src)
	case "point":
		src := lib.Pt(p)
		k, err = secec.NewPublicKeyFromPoint(src)
		src.Identity() // the caller goes on using its point; the key must hold its own copy
	case "point-after-failed-decode":
		// the caller's Point object was the receiver of a rejected decode first (documented: "returns nil and
		// an error, and the receiver is unchanged"), then becomes a key
		src := lib.Pt(p)
		bad, kind := rejectedEncoding(t, p)
		if got, e := src.SetBytes(bad); e == nil || got != nil {
			t.Fatalf("SetBytes accepted the invalid encoding %x [%s]", bad, kind)
		}
		k, err = secec.NewPublicKeyFromPoint(src)
		src.Identity()
	case "point-computed-in-place":
		// the caller's Point object first held a decoded point (another one) and was then overwritten in place by
		// an operation whose result is p: whatever the object remembers about how it was filled first must not
		// leak into the key (a peer's key tweaked in place is the everyday case)
		var q *secp256k1.Point
		op := gen.Sampled([]string{"scalarmult", "scalarmult", "add", "double", "negate", "multi", "multi-vartime", "double-scalar"}).Draw(t, "inplace-op")
		from := func(b ref.Pt) *secp256k1.Point {
			var q *secp256k1.Point
			var e error
			switch gen.Sampled([]string{"compressed", "uncompressed", "coords"}).Draw(t, "inplace-first") {
			case "compressed":
				q, e = secp256k1.NewIdentityPoint().SetCompressedBytes(b.Compressed())
			case "uncompressed":
				q, e = secp256k1.NewIdentityPoint().SetUncompressedBytes(b.Uncompressed())
			default:
				q, e = secp256k1.NewPointFromCoords((*[32]byte)(ref.B32(b.X)), (*[32]byte)(ref.B32(b.Y)))
			}
			if e != nil {
				t.Fatalf("decoding %v: %v", b, e)
			}
			return q
		}
		tw := gen.NonZero256(t, ref.N, "inplace-t")
		base := p.Mul(ref.Inv0(tw, ref.N)) // tw * base = p
		switch op {
		case "scalarmult":
			q = from(base)
			q.ScalarMult(lib.Sc(tw), q)
		case "multi":
			q = from(base)
			q.MultiScalarMult([]*secp256k1.Scalar{lib.Sc(tw)}, []*secp256k1.Point{q})
		case "multi-vartime":
			q = from(base)
			q.MultiScalarMultVartime([]*secp256k1.Scalar{lib.Sc(tw)}, []*secp256k1.Point{q})
		case "double-scalar":
			q = from(base)
			q.DoubleScalarMultBasepointVartime(secp256k1.NewScalar(), lib.Sc(tw), q)
		case "add":
			if b := p.Add(ref.G().Neg()); !b.Inf {
				q = from(b)
				q.Add(q, secp256k1.NewGeneratorPoint())
			}
		case "double":
			if b := p.Mul(ref.Inv0(big.NewInt(2), ref.N)); !b.Inf {
				q = from(b)
				q.Double(q)
			}
		case "negate":
			q = from(p.Neg())
			q.Negate(q)
		}
		if q == nil {
			q = from(p)
		}
		k, err = secec.NewPublicKeyFromPoint(q)
		q.Identity()
	case "point-derived":
		q := secp256k1.NewIdentityPoint().Add(lib.Pt(p), secp256k1.NewGeneratorPoint())
		q.Subtract(q, secp256k1.NewGeneratorPoint())
		k, err = secec.NewPublicKeyFromPoint(q)
		q.Double(q)
	}
	if err != nil || k == nil {
		t.Fatalf("public key import via %s failed for valid point %v: %v", route, p, err)
	}
	return k
}

func overwrite(b []byte) {
	for i := range b {
		b[i] = 0xff
	}
}

var routes = []string{"uncompressed", "compressed", "spki", "spki-compressed", "point", "point-derived", "point-after-failed-decode", "point-computed-in-place"}

// rejectedEncoding draws an encoding every decoder must reject, one per
// failure class (each class fails at a different stage of the decoder).
func rejectedEncoding(t *rapid.T, p ref.Pt) ([]byte, string) {
	kind := gen.Sampled([]string{"nonresidue-x", "nonresidue-x", "x>=p", "off-curve-y", "bad-prefix", "bad-length", "hybrid"}).Draw(t, "reject-kind")
	switch kind {
	case "nonresidue-x": // canonical x with x^3 + 7 a non-residue (a point of the twist)
		x := gen.Int256(t, ref.P, "twist-x")
		for {
			if _, ok := ref.LiftX(x, false); !ok {
				break
			}
			x = ref.AddM(x, big.NewInt(1), ref.P)
		}
		return append([]byte{byte(2 + rapid.IntRange(0, 1).Draw(t, "twist-par"))}, ref.B32(x)...), kind
	case "x>=p":
		return append([]byte{2}, ref.B32(new(big.Int).Add(ref.P, gen.Small(t, "over")))...), kind
	case "off-curve-y":
		b := p.Uncompressed()
		b[64] ^= 1
		return b, kind
	case "bad-prefix":
		b := p.Compressed()
		b[0] = gen.Sampled([]byte{0, 1, 5, 8, 0x82, 0xff}).Draw(t, "prefix")
		return b, kind
	case "hybrid":
		b := p.Uncompressed()
		b[0] = 6 + b[64]&1
		return b, kind
	default:
		b := p.Compressed()
		return b[:len(b)-1-rapid.IntRange(0, 3).Draw(t, "cut")], kind
	}
}

// checkPubKey: every cached / derived encoding equals the reference encoding.
func checkPubKey(t *rapid.T, k *secec.PublicKey, p ref.Pt, what string) {
	if !bytes.Equal(k.Bytes(), p.Uncompressed()) {
		t.Fatalf("%s: Bytes() = %x, want %v", what, k.Bytes(), p)
	}
	if !bytes.Equal(k.CompressedBytes(), p.Compressed()) {
		t.Fatalf("%s: CompressedBytes() = %x", what, k.CompressedBytes())
	}
	if !bytes.Equal(k.ASN1Bytes(), ref.EncodeSPKI(p)) {
		t.Fatalf("%s: ASN1Bytes() = %x", what, k.ASN1Bytes())
	}
	pt := k.Point()
	if !bytes.Equal(pt.UncompressedBytes(), p.Uncompressed()) || pt.IsIdentity() != 0 {
		t.Fatalf("%s: Point() = %x", what, pt.UncompressedBytes())
	}
	back, err := secec.ParseASN1PublicKey(k.ASN1Bytes())
	if err != nil || !back.Equal(k) || !k.Equal(back) {
		t.Fatalf("%s: ASN1Bytes() does not parse back to an Equal key: %v", what, err)
	}
	// results of separate calls (on this key and on another key) must be independent buffers
	first := k.ASN1Bytes()
	other := lib.PubKey(ref.BaseMul(big.NewInt(0x0ddba11))).ASN1Bytes()
	if !bytes.Equal(first, ref.EncodeSPKI(p)) {
		t.Fatalf("%s: an earlier ASN1Bytes() result changed when another key was encoded: %x", what, first)
	}
	for i := range other {
		other[i] ^= 0xff
	}
	for i := range first {
		first[i] = 0
	}
	if !bytes.Equal(k.ASN1Bytes(), ref.EncodeSPKI(p)) || !bytes.Equal(k.Bytes(), p.Uncompressed()) {
		t.Fatalf("%s: encodings changed after the caller overwrote earlier results", what)
	}
}

// privScalar draws a private scalar: boundary-biased, or steered so that the
// GLV decomposition inside ScalarMult hits its rare corners (extreme halves,
// rounding carry across a limb).
func privScalar(t *rapid.T, label string) *big.Int {
	if rapid.IntRange(0, 2).Draw(t, label+"-glv") == 0 {
		if v, _ := gen.GLVScalar(t, label+"-glv-s"); v.Sign() != 0 {
			return v
		}
	}
	return gen.NonZero256(t, ref.N, label)
}

func propECDH(t *rapid.T) {
	a := privScalar(t, "a")
	b := privScalar(t, "b")
	if rapid.IntRange(0, 5).Draw(t, "related") == 0 {
		switch rapid.IntRange(0, 2).Draw(t, "how") {
		case 0:
			b = new(big.Int).Set(a)
		case 1:
			b = ref.NegM(a, ref.N)
		default:
			b = ref.Inv0(a, ref.N) // a*b = 1: shared point is G
		}
	}
	rA := gen.Sampled(routes).Draw(t, "routeA")
	rB := gen.Sampled(routes).Draw(t, "routeB")
	A, B := ref.BaseMul(a), ref.BaseMul(b)
	want := ref.BaseMul(ref.MulM(a, b, ref.N))
	stat.Case("ecdh", []string{"A:" + rA, "B:" + rB, fmt.Sprintf("Ay-odd:%d", A.Y.Bit(0)), fmt.Sprintf("By-odd:%d", B.Y.Bit(0))}, true,
		[]byte(fmt.Sprintf("%x|%x|%s|%s", a, b, rA, rB)), func() any {
			return map[string]any{"a": a.Text(16), "b": b.Text(16), "routeA": rA, "routeB": rB}
		})
	ka, kb := lib.PrivKey(a), lib.PrivKey(b)
	pubA, pubB := importPub(t, A, rA), importPub(t, B, rB)
	checkPubKey(t, pubA, A, "A via "+rA)
	checkPubKey(t, ka.PublicKey(), A, "a.PublicKey()")
	s1, err1 := ka.ECDH(pubB)
	s2, err2 := kb.ECDH(pubA)
	s3, err3 := ka.ECDH(kb.PublicKey())
	if err1 != nil || err2 != nil || err3 != nil {
		t.Fatalf("ECDH failed for valid keys: %v %v %v", err1, err2, err3)
	}
	if want.Inf {
		t.Fatal("impossible: a*b = 0 mod n")
	}
	if !bytes.Equal(s1, ref.B32(want.X)) || !bytes.Equal(s2, s1) || !bytes.Equal(s3, s1) {
		t.Fatalf("ECDH(a=%x,b=%x): %x / %x / %x, want %x", a, b, s1, s2, s3, want.X)
	}
	if !ka.PublicKey().Equal(pubA) || !pubA.Equal(ka.PublicKey()) {
		t.Fatal("imported public key is not Equal to the derived one")
	}
	if (a.Cmp(b) == 0) != ka.Equal(kb) {
		t.Fatal("PrivateKey.Equal wrong")
	}
	if (A.Eq(B)) != pubA.Equal(pubB) {
		t.Fatal("PublicKey.Equal wrong")
	}
}

func TestC10_ECDH(t *testing.T) { rapid.Check(t, propECDH) }

func propImportPrivate(t *rapid.T) {
	kind := gen.Sampled([]string{"0", "n", "n+1", "2^256-1", "n-1", "1", "drawn", ">=n", "badlen"}).Draw(t, "kind")
	var raw []byte
	switch kind {
	case "0":
		raw = make([]byte, 32)
	case "n":
		raw = ref.B32(ref.N)
	case "n+1":
		raw = ref.B32(new(big.Int).Add(ref.N, big.NewInt(1)))
	case "2^256-1":
		raw = bytes.Repeat([]byte{0xff}, 32)
	case "n-1":
		raw = ref.B32(new(big.Int).Sub(ref.N, big.NewInt(1)))
	case "1":
		raw = ref.B32(big.NewInt(1))
	case "drawn":
		raw = ref.B32(gen.Raw256(t, ref.N, "v"))
	case ">=n":
		raw = gen.Bytes32Any(t, ref.N, "v")
	default:
		n := gen.Sampled([]int{0, 1, 16, 31, 33, 64}).Draw(t, "len")
		raw = gen.Bytes(t, n, n, "v")
	}
	orig := append([]byte(nil), raw...)
	v := ref.Int(raw)
	ok := len(raw) == 32 && v.Sign() > 0 && v.Cmp(ref.N) < 0
	acc := "reject"
	if ok {
		acc = "accept"
	}
	stat.Case("import-private", []string{"kind:" + kind, acc}, true, append([]byte("p|"), raw...), func() any {
		return map[string]any{"bytes": stat.Hex(raw), "kind": kind, "expect": acc}
	})
	k, err := secec.NewPrivateKey(raw)
	if !ok {
		if err == nil || k != nil {
			t.Fatalf("NewPrivateKey(%x) accepted an invalid key", raw)
		}
		if len(raw) == 32 && v.Cmp(ref.N) < 0 { // zero scalar through the scalar route
			if k2, err := secec.NewPrivateKeyFromScalar(lib.Sc(v)); err == nil || k2 != nil {
				t.Fatal("NewPrivateKeyFromScalar(0) accepted")
			}
		}
		return
	}
	if err != nil {
		t.Fatalf("NewPrivateKey(%x) rejected a valid key: %v", raw, err)
	}
	if msg := lib.FirstUsePriv(t, k, v, "first-use"); msg != "" {
		t.Fatalf("%s (key %x)", msg, raw)
	}
	raw[0] ^= 0xff // the caller's buffer is not retained
	if !bytes.Equal(k.Bytes(), orig) || lib.ScInt(k.Scalar()).Cmp(v) != 0 {
		t.Fatalf("NewPrivateKey(%x): Bytes()/Scalar() do not return the key", orig)
	}
	checkPubKey(t, k.PublicKey(), ref.BaseMul(v), "derived public key")
	k2, err := secec.NewPrivateKeyFromScalar(lib.Sc(v))
	if err != nil || !k2.Equal(k) || !bytes.Equal(k2.PublicKey().Bytes(), k.PublicKey().Bytes()) {
		t.Fatal("NewPrivateKeyFromScalar disagrees with NewPrivateKey")
	}
	if pub, ok := k.Public().(*secec.PublicKey); !ok || !pub.Equal(k.PublicKey()) {
		t.Fatal("Public() != PublicKey()")
	}
}

func TestC10_ImportPrivate(t *testing.T) { rapid.Check(t, propImportPrivate) }

func propImportPublic(t *rapid.T) {
	kind := gen.Sampled([]string{"valid-c", "valid-u", "identity", "wrong-curve", "twist-c", "x+p", "y+p", "hybrid", "y-neg-prefix",
		"bad-prefix", "truncated", "extended", "raw", "zeros", "near-curve", "near-curve"}).Draw(t, "kind")
	pc := gen.NonIdentityPoint(t, "pt")
	var raw []byte
	switch kind {
	case "valid-c":
		raw = pc.P.Compressed()
	case "valid-u":
		raw = pc.P.Uncompressed()
	case "identity":
		raw = []byte{0}
	case "wrong-curve": // a point of y^2 = x^3 + b' with b' != 7
		x, y := gen.Int256(t, ref.P, "x"), gen.Int256(t, ref.P, "y")
		if ref.OnCurve(x, y) {
			y = ref.AddM(y, big.NewInt(1), ref.P)
		}
		if rapid.Bool().Draw(t, "b=0") { // y^2 = x^3 (singular, b' = 0)
			x = ref.MulM(y, y, ref.P)
			y = ref.MulM(x, y, ref.P) // (y^2)^3 = (y^3)^2
		}
		raw = append(append([]byte{4}, ref.B32(x)...), ref.B32(y)...)
	case "near-curve": // canonical (x, y) on y^2 = x^3 + 7 + d for a hostile small d
		x, y, _ := gen.NearCurve(t, "nc")
		raw = append(append([]byte{4}, ref.B32(x)...), ref.B32(y)...)
	case "twist-c":
		x := gen.Int256(t, ref.P, "x")
		for ref.IsSquareP(ref.RHS(x)) {
			x = ref.AddM(x, big.NewInt(1), ref.P)
		}
		raw = append([]byte{byte(2 + rapid.IntRange(0, 1).Draw(t, "par"))}, ref.B32(x)...)
	case "x+p":
		sp := gen.SmallXPoint(t, "sx").P
		raw = sp.Uncompressed()
		if rapid.Bool().Draw(t, "comp") {
			raw = sp.Compressed()
		}
		copy(raw[1:33], ref.B32(new(big.Int).Add(sp.X, ref.P)))
	case "y+p":
		sp := gen.SmallYPoint(t, "sy").P
		raw = sp.Uncompressed()
		copy(raw[33:], ref.B32(new(big.Int).Add(sp.Y, ref.P)))
	case "hybrid":
		raw = pc.P.Uncompressed()
		raw[0] = 6 + byte(pc.P.Y.Bit(0))
	case "y-neg-prefix":
		raw = pc.P.Compressed()
		raw[0] ^= 1 // the other root: valid, but a different key
	case "bad-prefix":
		raw = pc.P.Compressed()
		raw[0] = gen.Sampled([]byte{0, 1, 4, 5, 6, 7, 0x82, 0xff}).Draw(t, "pfx")
	case "truncated":
		raw = pc.P.Uncompressed()
		raw = raw[:len(raw)-1]
	case "extended":
		raw = append(pc.P.Compressed(), 0)
	case "zeros":
		raw = make([]byte, gen.Sampled([]int{1, 33, 65}).Draw(t, "zl"))
	default:
		raw = gen.Bytes(t, 0, 70, "raw")
	}
	want, ok := ref.DecodePoint(raw)
	ok = ok && !want.Inf
	acc := "reject"
	if ok {
		acc = "accept"
	}
	entry := gen.Sampled([]string{"NewPublicKey", "spki"}).Draw(t, "entry")
	stat.Case("import-public", []string{"kind:" + kind, acc, "entry:" + entry}, true, append([]byte(entry+"|"), raw...), func() any {
		return map[string]any{"bytes": stat.Hex(raw), "kind": kind, "entry": entry, "expect": acc}
	})
	var (
		k   *secec.PublicKey
		err error
	)
	if entry == "NewPublicKey" {
		src := append([]byte(nil), raw...)
		k, err = secec.NewPublicKey(src)
		overwrite(src)
	} else {
		// wrap the payload in an otherwise canonical SPKI
		bits := append([]byte{0}, raw...)
		body := append(append([]byte(nil), ref.SPKIPrefixUncompressed[2:20]...), ref.DERTLV(0x03, bits)...)
		src := ref.DERTLV(0x30, body)
		k, err = secec.ParseASN1PublicKey(src)
		overwrite(src)
	}
	if !ok {
		if err == nil || k != nil {
			t.Fatalf("%s accepted an invalid public key %x [%s]", entry, raw, kind)
		}
		return
	}
	if err != nil {
		t.Fatalf("%s rejected a valid public key %x: %v", entry, raw, err)
	}
	checkPubKey(t, k, want, entry)
	// an accepted key can be used for ECDH and gives x(d*Q)
	d := gen.NonZero256(t, ref.N, "d")
	sec, err := lib.PrivKey(d).ECDH(k)
	if err != nil || !bytes.Equal(sec, ref.B32(want.Mul(d).X)) {
		t.Fatalf("ECDH with imported key: %x, %v", sec, err)
	}
}

func TestC10_ImportPublic(t *testing.T) { rapid.Check(t, propImportPublic) }

func TestC10_IdentityPoint(t *testing.T) {
	stat.Case("identity-point", nil, true, []byte("id1"), func() any { return "NewPublicKeyFromPoint(identity) must fail" })
	stat.Case("identity-point", nil, true, []byte("id2"), func() any { return "NewPublicKeyFromPoint(P-P) must fail" })
	if k, err := secec.NewPublicKeyFromPoint(secp256k1.NewIdentityPoint()); err == nil || k != nil {
		t.Fatal("identity point accepted as a public key")
	}
	g := secp256k1.NewGeneratorPoint()
	o := secp256k1.NewIdentityPoint().Subtract(g, g) // identity in a non-canonical representative
	if k, err := secec.NewPublicKeyFromPoint(o); err == nil || k != nil {
		t.Fatal("identity point (derived) accepted as a public key")
	}
	if p := lib.Catch(func() { _, _ = secec.NewPublicKeyFromPoint(&secp256k1.Point{}) }); p == nil {
		t.Fatal("zero-value point accepted as a public key without panic")
	}
}

// propRecoveredKeys: public keys also come out of signature recovery.
// Whatever RecoverPublicKey returns must be a valid key object (a non-identity
// curve point whose cached encodings match), in particular on the degenerate
// relation s*R = e*G, where the recovered point is the point at infinity and
// no key may be returned.
func propRecoveredKeys(t *rapid.T) {
	k := gen.NonZero256(t, ref.N, "k")
	R := ref.BaseMul(k)
	r := ref.Mod(R.X, ref.N)
	s := gen.NonZero256(t, ref.N, "s")
	digest := gen.Bytes(t, 32, 32, "digest")
	kind := gen.Sampled([]string{"generic", "Q=O", "Q=O", "Q=G"}).Draw(t, "kind")
	switch kind {
	case "Q=O": // e = s*k
		digest = ref.B32(ref.MulM(s, k, ref.N))
	case "Q=G": // s*R - e*G = r*G  <=>  e = s*k - r
		digest = ref.B32(ref.SubM(ref.MulM(s, k, ref.N), r, ref.N))
	}
	v := byte(R.Y.Bit(0))
	if R.X.Cmp(ref.N) >= 0 {
		v |= 2
	}
	if r.Sign() == 0 {
		t.Skip("r = 0")
	}
	want, ok := ref.ECDSARecover(digest, r, s, int(v))
	stat.Case("recovered-keys", []string{"kind:" + kind, fmt.Sprintf("recoverable:%v", ok)}, true, []byte(fmt.Sprintf("%x|%x|%x|%d", digest, r, s, v)), func() any {
		return map[string]any{"digest": stat.Hex(digest), "r": r.Text(16), "s": s.Text(16), "v": v, "kind": kind}
	})
	key, err := secec.RecoverPublicKey(digest, lib.Sc(r), lib.Sc(s), v)
	if !ok {
		if err == nil || key != nil {
			what := "<nil>"
			if key != nil {
				what = fmt.Sprintf("%x", key.Bytes())
			}
			t.Fatalf("RecoverPublicKey returned a key object (%s) although the recovered point is not a valid public key (%s)", what, kind)
		}
		return
	}
	if err != nil || key == nil {
		t.Fatalf("RecoverPublicKey failed on a recoverable signature: %v", err)
	}
	checkPubKey(t, key, want, "recovered key")
	if kind == "Q=G" && !want.Eq(ref.G()) {
		t.Fatalf("harness: Q=G construction gave %v", want)
	}
	// the key is usable: ECDH with it works and is symmetric
	a := gen.NonZero256(t, ref.N, "a")
	sec, err := lib.PrivKey(a).ECDH(key)
	if err != nil || !bytes.Equal(sec, ref.B32(want.Mul(a).X)) {
		t.Fatalf("ECDH with a recovered key: %x, %v", sec, err)
	}
}

func TestC10_RecoveredKeys(t *testing.T) { rapid.Check(t, propRecoveredKeys) }
