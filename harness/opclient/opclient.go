// Package opclient talks to a cmd/opserver child process.
package opclient

import (
	"bufio"
	"encoding/hex"
	"errors"
	"fmt"
	"io"
	"os"
	"os/exec"
	"strings"
	"sync"
	"time"
)

// Reply is one parsed server reply.
type Reply struct {
	Status  string // ok | panic | err
	Cov     string
	CovExt  string // counters of the instrumented standard packages (math/big), hashed separately; "0" = none ran
	Results [][]byte
	Raw     string
}

// Client is a persistent child process.
type Client struct {
	mu   sync.Mutex
	cmd  *exec.Cmd
	in   io.WriteCloser
	out  *bufio.Reader
	Path string
	Info string
	dead error
}

// ErrHarness marks failures of the harness itself (child died, timeout).
var ErrHarness = errors.New("HARNESS-INCONCLUSIVE")

// Start launches the server binary.
func Start(path string) (*Client, error) { return StartEnv(path, nil) }

// StartEnv launches the server binary with extra environment variables.
func StartEnv(path string, extraEnv []string) (*Client, error) {
	if path == "" {
		return nil, fmt.Errorf("%w: op-server path not set", ErrHarness)
	}
	cmd := exec.Command(path)
	covdir, _ := os.MkdirTemp(os.Getenv("VERIF_WORK"), "gocover-")
	cmd.Env = append(append(os.Environ(), "GOCOVERDIR="+covdir), extraEnv...)
	in, err := cmd.StdinPipe()
	if err != nil {
		return nil, err
	}
	out, err := cmd.StdoutPipe()
	if err != nil {
		return nil, err
	}
	cmd.Stderr = io.Discard
	if err := cmd.Start(); err != nil {
		return nil, fmt.Errorf("%w: start %s: %v", ErrHarness, path, err)
	}
	c := &Client{cmd: cmd, in: in, out: bufio.NewReaderSize(out, 1<<20), Path: path}
	r, err := c.Call("ping")
	if err != nil {
		return nil, err
	}
	if len(r.Results) == 1 {
		c.Info = string(r.Results[0])
	}
	return c, nil
}

// Close terminates the child.
func (c *Client) Close() {
	if c == nil || c.cmd == nil {
		return
	}
	_ = c.in.Close()
	done := make(chan struct{})
	go func() { _ = c.cmd.Wait(); close(done) }()
	select {
	case <-done:
	case <-time.After(3 * time.Second):
		_ = c.cmd.Process.Kill()
	}
}

func enc(b []byte) string {
	if len(b) == 0 {
		return "-"
	}
	return hex.EncodeToString(b)
}

// Line renders a request line (for replay files and messages).
func Line(op string, args ...[]byte) string {
	var sb strings.Builder
	sb.WriteString(op)
	for _, a := range args {
		sb.WriteByte(' ')
		sb.WriteString(enc(a))
	}
	return sb.String()
}

// Call sends one request and waits for the reply (60 s health timeout).
func (c *Client) Call(op string, args ...[]byte) (Reply, error) { return c.CallLine(Line(op, args...)) }

// CallLine sends a pre-rendered request line.
func (c *Client) CallLine(line string) (Reply, error) {
	c.mu.Lock()
	defer c.mu.Unlock()
	if c.dead != nil {
		return Reply{}, c.dead
	}
	if _, err := io.WriteString(c.in, line+"\n"); err != nil {
		c.dead = fmt.Errorf("%w: write to %s: %v", ErrHarness, c.Path, err)
		return Reply{}, c.dead
	}
	type res struct {
		s   string
		err error
	}
	ch := make(chan res, 1)
	go func() {
		s, err := c.out.ReadString('\n')
		ch <- res{s, err}
	}()
	select {
	case r := <-ch:
		if r.err != nil {
			c.dead = fmt.Errorf("%w: op-server %s died: %v (request %.200s)", ErrHarness, c.Path, r.err, line)
			return Reply{}, c.dead
		}
		return parse(strings.TrimSpace(r.s))
	case <-time.After(60 * time.Second):
		_ = c.cmd.Process.Kill()
		c.dead = fmt.Errorf("%w: op-server %s timed out (request %.200s)", ErrHarness, c.Path, line)
		return Reply{}, c.dead
	}
}

func parse(s string) (Reply, error) {
	r := Reply{Raw: s}
	f := strings.Fields(s)
	if len(f) == 0 {
		return r, fmt.Errorf("%w: empty reply", ErrHarness)
	}
	r.Status = f[0]
	switch r.Status {
	case "ok":
		if len(f) < 2 {
			return r, fmt.Errorf("%w: malformed reply %q", ErrHarness, s)
		}
		r.Cov = f[1]
		if lib, ext, ok := strings.Cut(f[1], "/"); ok && !strings.HasPrefix(f[1], "coverr") {
			r.Cov, r.CovExt = lib, ext
		}
		for _, h := range f[2:] {
			if h == "-" {
				r.Results = append(r.Results, nil)
				continue
			}
			b, err := hex.DecodeString(h)
			if err != nil {
				return r, fmt.Errorf("%w: malformed reply %q", ErrHarness, s)
			}
			r.Results = append(r.Results, b)
		}
	case "panic", "err":
	default:
		return r, fmt.Errorf("%w: malformed reply %q", ErrHarness, s)
	}
	return r, nil
}

// Key is a comparable rendering of the observable part of a reply.
func (r Reply) Key() string {
	if r.Status != "ok" {
		// panic messages are part of the observable behaviour, minus addresses
		return r.Status + " " + strings.Join(strings.Fields(r.Raw)[1:], " ")
	}
	var sb strings.Builder
	sb.WriteString("ok")
	for _, b := range r.Results {
		sb.WriteByte(' ')
		sb.WriteString(enc(b))
	}
	return sb.String()
}
