//go:build verif

package c14

import (
	"bytes"
	"math/big"

	"pgregory.net/rapid"

	"gitlab.com/yawning/secp256k1-voi/secec/bitcoin"
	"gitlab.com/yawning/secp256k1-voi/verifharness/lib"
	"gitlab.com/yawning/secp256k1-voi/verifharness/ref"
)

// checkDirectSign removes the reader indirection.
func checkDirectSign(t *rapid.T, key *bitcoin.SchnorrPrivateKey, aux, msg, want []byte) {
	sig, err := bitcoin.VerifSignSchnorr((*[32]byte)(aux), key, msg)
	if err != nil || !bytes.Equal(sig, want) {
		t.Fatalf("signSchnorr(aux=%x) = %x (%v), BIP-340 says %x", aux, sig, err, want)
	}
	if !bitcoin.VerifVerifySchnorrSelf(key.VerifSchnorrSigningScalar(), key.PublicKey().Bytes(), msg, sig) {
		t.Fatal("self-verification rejects a valid signature")
	}
	bad := append([]byte(nil), sig...)
	bad[63] ^= 1
	if bitcoin.VerifVerifySchnorrSelf(key.VerifSchnorrSigningScalar(), key.PublicKey().Bytes(), msg, bad) {
		t.Fatal("self-verification accepts a corrupted signature")
	}
}

// checkSigningScalar: the signing scalar is consistent with the even-y point.
func checkSigningScalar(t *rapid.T, key *bitcoin.SchnorrPrivateKey, dPrime *big.Int) {
	d := lib.ScInt(key.VerifSchnorrSigningScalar())
	P := ref.BaseMul(d)
	if P.Y.Bit(0) != 0 || P.X.Cmp(ref.BaseMul(dPrime).X) != 0 {
		t.Fatalf("signing scalar %x does not map to the even-y public point", d)
	}
}
