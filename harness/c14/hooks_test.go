//go:build verif

package c14

import (
	"bytes"
	"math/big"

	"pgregory.net/rapid"

	"gitlab.com/yawning/secp256k1-voi/secec/bitcoin"
	"gitlab.com/yawning/secp256k1-voi/verifharness/lib"
	"gitlab.com/yawning/secp256k1-voi/verifharness/ref"
)

// checkDirectSign removes the reader indirection.
func checkDirectSign(t *rapid.T, key *bitcoin.SchnorrPrivateKey, aux, msg, want []byte) {
	sig, err := bitcoin.VerifSignSchnorr((*[32]byte)(aux), key, msg)
	if err != nil || !bytes.Equal(sig, want) {
		t.Fatalf("signSchnorr(aux=%x) = %x (%v), BIP-340 says %x", aux, sig, err, want)
	}
	if !bitcoin.VerifVerifySchnorrSelf(key.VerifSchnorrSigningScalar(), key.PublicKey().Bytes(), msg, sig) {
		t.Fatal("self-verification rejects a valid signature")
	}
	bad := append([]byte(nil), sig...)
	bad[63] ^= 1
	if bitcoin.VerifVerifySchnorrSelf(key.VerifSchnorrSigningScalar(), key.PublicKey().Bytes(), msg, bad) {
		t.Fatal("self-verification accepts a corrupted signature")
	}
	// the twin made with the nonce whose R has odd y, not negated: x(R) and s fit together, BIP-340 Verify (the last
	// step of BIP-340 Sign) refuses it
	d := lib.ScInt(key.VerifSchnorrSigningScalar())
	k := ref.Mod(ref.Int(sig[32:]), ref.N)
	if k.Sign() == 0 {
		return
	}
	if ref.BaseMul(k).Y.Bit(0) == 0 {
		k = ref.NegM(k, ref.N)
	}
	odd := ref.BIP340SignWithNonce(d, k, msg, false)
	if !ref.BIP340Verify(key.PublicKey().Bytes(), msg, odd) &&
		bitcoin.VerifVerifySchnorrSelf(key.VerifSchnorrSigningScalar(), key.PublicKey().Bytes(), msg, odd) {
		t.Fatalf("self-verification accepts %x for msg %x, which BIP-340 Verify refuses (R has odd y)", odd, msg)
	}
}

// checkSigningScalar: the signing scalar is consistent with the even-y point.
func checkSigningScalar(t *rapid.T, key *bitcoin.SchnorrPrivateKey, dPrime *big.Int) {
	d := lib.ScInt(key.VerifSchnorrSigningScalar())
	P := ref.BaseMul(d)
	if P.Y.Bit(0) != 0 || P.X.Cmp(ref.BaseMul(dPrime).X) != 0 {
		t.Fatalf("signing scalar %x does not map to the even-y public point", d)
	}
}
