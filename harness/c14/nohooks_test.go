//go:build !verif

package c14

import (
	"math/big"

	"pgregory.net/rapid"

	"gitlab.com/yawning/secp256k1-voi/secec/bitcoin"
)

func checkDirectSign(*rapid.T, *bitcoin.SchnorrPrivateKey, []byte, []byte, []byte) {}
func checkSigningScalar(*rapid.T, *bitcoin.SchnorrPrivateKey, *big.Int)            {}
