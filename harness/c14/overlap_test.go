package c14

import (
	"bytes"
	"fmt"
	"testing"

	"pgregory.net/rapid"

	"gitlab.com/yawning/secp256k1-voi/secec/bitcoin"
	"gitlab.com/yawning/secp256k1-voi/verifharness/gen"
	"gitlab.com/yawning/secp256k1-voi/verifharness/lib"
	"gitlab.com/yawning/secp256k1-voi/verifharness/ref"
	"gitlab.com/yawning/secp256k1-voi/verifharness/stat"
)

// propOverlapping: BIP-340 signing calls that overlap in time (shared and separate key objects, messages of
// different lengths, a reader per call delivering the auxiliary randomness): each signature must be byte for byte
// the reference's for its own (key, aux, message).
func propOverlapping(t *rapid.T) {
	n := rapid.IntRange(3, 7).Draw(t, "calls")
	var calls []func() string
	var want []string
	var key bytes.Buffer
	var prev *bitcoin.SchnorrPrivateKey
	d := gen.NonZero256(t, ref.N, "d")
	for i := 0; i < n; i++ {
		if rapid.Bool().Draw(t, fmt.Sprintf("newkey%d", i)) {
			d = gen.NonZero256(t, ref.N, fmt.Sprintf("d%d", i))
			prev = nil
		}
		k := prev
		if k == nil || rapid.Bool().Draw(t, fmt.Sprintf("ownobj%d", i)) {
			var err error
			if k, err = bitcoin.NewSchnorrPrivateKey(ref.B32(d)); err != nil {
				t.Fatalf("NewSchnorrPrivateKey(%x): %v", d, err)
			}
		}
		prev = k
		msg := gen.Message(t, fmt.Sprintf("msg%d", i))
		aux := gen.Bytes(t, 32, 32, fmt.Sprintf("aux%d", i))
		w, ok := ref.BIP340Sign(d, aux, msg)
		if !ok {
			t.Skip("k' = 0")
		}
		want = append(want, fmt.Sprintf("%x", w))
		calls = append(calls, func() string {
			sig, err := k.Sign(bytes.NewReader(aux), msg, nil)
			if err != nil {
				return "error: " + err.Error()
			}
			return fmt.Sprintf("%x", sig)
		})
		fmt.Fprintf(&key, "%x|%x|%x;", d, aux, msg)
	}
	g := gen.Sampled([]int{2, 3, 4, 8}).Draw(t, "goroutines")
	stat.Case("overlapping", []string{fmt.Sprintf("goroutines:%d", g), fmt.Sprintf("calls:%d", n)}, true, key.Bytes(), func() any {
		return map[string]any{"calls": n, "goroutines": g}
	})
	if msg := lib.Overlap(calls, want, g, 3); msg != "" {
		t.Fatalf("Schnorr signing: %s", msg)
	}
}

func TestC14_Overlapping(t *testing.T) { rapid.Check(t, propOverlapping) }
