// Package c14: BIP-340 signing is the specified function of (key, aux
// randomness, message); Schnorr key pairs are normalised to even y.
package c14

import (
	"bytes"
	"crypto"
	"encoding/hex"
	"fmt"
	"math/big"
	"os"
	"path/filepath"
	"strings"
	"testing"

	"pgregory.net/rapid"

	secp256k1 "gitlab.com/yawning/secp256k1-voi"
	"gitlab.com/yawning/secp256k1-voi/secec"
	"gitlab.com/yawning/secp256k1-voi/secec/bitcoin"
	"gitlab.com/yawning/secp256k1-voi/verifharness/gen"
	"gitlab.com/yawning/secp256k1-voi/verifharness/lib"
	"gitlab.com/yawning/secp256k1-voi/verifharness/ref"
	"gitlab.com/yawning/secp256k1-voi/verifharness/stat"
)

func TestMain(m *testing.M) { stat.Main(m) }

func auxBytes(t *rapid.T) ([]byte, string) {
	kind := gen.Sampled([]string{"zeros", "ones", "drawn", "drawn"}).Draw(t, "auxkind")
	a := make([]byte, 32)
	switch kind {
	case "ones":
		for i := range a {
			a[i] = 0xff
		}
	case "drawn":
		copy(a, gen.Bytes(t, 32, 32, "aux"))
	}
	return a, kind
}

// nonceParity recomputes (with the reference) the parity of the raw nonce point.
func nonceParity(dPrime *big.Int, aux, msg []byte) uint {
	P := ref.BaseMul(dPrime)
	d := new(big.Int).Set(dPrime)
	if P.Y.Bit(0) == 1 {
		d.Sub(ref.N, d)
	}
	tb := ref.B32(d)
	ah := ref.TaggedHash("BIP0340/aux", aux)
	for i := range tb {
		tb[i] ^= ah[i]
	}
	k := ref.Mod(ref.Int(ref.TaggedHash("BIP0340/nonce", tb, ref.B32(P.X), msg)), ref.N)
	return ref.BaseMul(k).Y.Bit(0)
}

func propSign(t *rapid.T) {
	dPrime := gen.NonZero256(t, ref.N, "d")
	aux, ak := auxBytes(t)
	msg := gen.Message(t, "msg")
	route := gen.Sampled([]string{"bytes", "from-ecdsa", "from-ecdsa-scalar", "bytes-then-scrub"}).Draw(t, "route")
	var key *bitcoin.SchnorrPrivateKey
	var err error
	switch route {
	case "bytes", "bytes-then-scrub":
		raw := ref.B32(dPrime)
		key, err = bitcoin.NewSchnorrPrivateKey(raw)
		if err != nil {
			t.Fatalf("NewSchnorrPrivateKey(%x): %v", dPrime, err)
		}
		if route == "bytes-then-scrub" { // the caller wipes what it passed in and what it was handed
			for _, b := range [][]byte{raw, key.Bytes(), key.PublicKey().Bytes()} {
				for i := range b {
					b[i] = 0
				}
			}
			key.Scalar().Negate(key.Scalar())
			key.PublicKey().Point().Identity()
		}
	case "from-ecdsa-scalar":
		// ECDSA key built from a scalar the caller keeps using, Schnorr key derived from it afterwards
		sc := lib.Sc(dPrime)
		ek, e := secec.NewPrivateKeyFromScalar(sc)
		if e != nil {
			t.Fatalf("NewPrivateKeyFromScalar(%x): %v", dPrime, e)
		}
		sc.Add(sc, sc) // 2d != 0
		key = bitcoin.NewSchnorrPrivateKeyFromECDSA(ek)
		sc.Negate(sc)
	default:
		key = bitcoin.NewSchnorrPrivateKeyFromECDSA(lib.PrivKey(dPrime))
	}
	P := ref.BaseMul(dPrime)
	want, ok := ref.BIP340Sign(dPrime, aux, msg)
	if !ok {
		t.Skip("k' = 0")
	}
	delivery := gen.Sampled([]string{"whole", "1-byte", "chunks", "extra", "process-default", "process-default-chunks"}).Draw(t, "delivery")
	rd := &gen.ScriptedReader{Data: append([]byte(nil), aux...), FailAfter: -1}
	switch delivery {
	case "1-byte":
		rd.Chunks = []int{1}
	case "chunks", "process-default-chunks":
		rd.Chunks = rapid.SliceOfN(rapid.IntRange(1, 33), 1, 5).Draw(t, "chunks")
	case "extra":
		rd.Data = append(rd.Data, gen.Bytes(t, 1, 40, "extra")...)
	}
	cl := []string{fmt.Sprintf("key-y-odd:%d", P.Y.Bit(0)), fmt.Sprintf("nonce-y-odd:%d", nonceParity(dPrime, aux, msg)), "aux:" + ak, "delivery:" + delivery, "route:" + route}
	if len(msg) != 32 {
		cl = append(cl, "msglen!=32")
	}
	stat.Case("sign", cl, true, []byte(fmt.Sprintf("%x|%x|%x", dPrime, aux, msg)), func() any {
		return map[string]any{"d": dPrime.Text(16), "aux": stat.Hex(aux), "msg": stat.Hex(msg), "delivery": delivery}
	})
	// the crypto.Signer options argument carries no meaning for BIP-340 (messages of any length are
	// signed as they are): whatever a generic caller passes, the signature is the BIP-340 one
	opts := gen.Sampled([]crypto.SignerOpts{nil, nil, crypto.SHA256, crypto.SHA512, crypto.SHA1, crypto.Hash(0),
		&secec.ECDSAOptions{Hash: crypto.SHA384, Encoding: secec.EncodingCompact}}).Draw(t, "signer-opts")
	var sig []byte
	if strings.HasPrefix(delivery, "process-default") {
		// nil reader: the aux randomness is whatever the process-wide source (crypto/rand.Reader) yields
		rd.Data = append(rd.Data, gen.Bytes(t, 0, 40, "extra")...)
		gen.WithProcessEntropy(rd, func() { sig, err = key.Sign(nil, msg, opts) })
	} else {
		sig, err = key.Sign(rd, msg, opts)
	}
	if err != nil {
		t.Fatalf("Sign failed: %v", err)
	}
	if !bytes.Equal(sig, want) {
		t.Fatalf("Sign(d=%x, aux=%x, msg=%x) = %x, BIP-340 says %x", dPrime, aux, msg, sig, want)
	}
	if rd.Consumed > 32 {
		stat.Note("sign", "Sign read more than 32 aux bytes (the signature is still the BIP-340 function of the first 32)")
	}
	if rd.Consumed < 32 {
		t.Fatalf("Sign consumed %d aux bytes, fewer than the 32 the signature is a function of", rd.Consumed)
	}
	checkDirectSign(t, key, aux, msg, want)
	pkBytes := ref.B32(P.X)
	if !bytes.Equal(key.PublicKey().Bytes(), pkBytes) {
		t.Fatalf("PublicKey().Bytes() = %x, want x(d*G) = %x", key.PublicKey().Bytes(), pkBytes)
	}
	if !ref.BIP340Verify(pkBytes, msg, sig) {
		t.Fatal("reference BIP-340 Verify rejects the signature")
	}
	if !key.PublicKey().Verify(msg, sig) {
		t.Fatal("library Verify rejects its own signature")
	}
	imported, err := bitcoin.NewSchnorrPublicKey(key.PublicKey().Bytes())
	if err != nil || !imported.Verify(msg, sig) || !imported.Equal(key.PublicKey()) {
		t.Fatalf("signature does not verify under NewSchnorrPublicKey(PublicKey().Bytes()): %v", err)
	}
	// what Bytes()/Scalar() export must be a private scalar of this very key pair: re-importing it gives
	// an Equal key with the same public key (whether the raw or the y-normalised scalar is exported is an
	// implementation choice the property does not fix)
	rt1, err1 := bitcoin.NewSchnorrPrivateKey(key.Bytes())
	ek, err2 := secec.NewPrivateKeyFromScalar(key.Scalar())
	if err1 != nil || err2 != nil || !rt1.PublicKey().Equal(key.PublicKey()) ||
		!bitcoin.NewSchnorrPrivateKeyFromECDSA(ek).PublicKey().Equal(key.PublicKey()) {
		t.Fatalf("Bytes()/Scalar() do not re-import to the same key pair (%v, %v)", err1, err2)
	}
	if !bytes.Equal(key.Bytes(), ref.B32(dPrime)) || lib.ScInt(key.Scalar()).Cmp(dPrime) != 0 {
		stat.Note("sign", "Bytes()/Scalar() export a scalar other than the one the key was built from")
	}
	checkSigningScalar(t, key, dPrime)
}

func TestC14_Sign(t *testing.T) { rapid.Check(t, propSign) }

func propAuxFailure(t *rapid.T) {
	dPrime := gen.NonZero256(t, ref.N, "d")
	j := rapid.IntRange(0, 33).Draw(t, "j")
	msg := gen.Bytes(t, 0, 64, "msg")
	rd := &gen.ScriptedReader{Data: gen.Bytes(t, 40, 40, "aux"), FailAfter: j}
	var kind string
	rd.Err, rd.ErrWithData, kind = gen.FailureKind(t, "fail")
	if rapid.IntRange(0, 4).Draw(t, "panics") == 0 {
		rd.Err, rd.ErrWithData, kind = gen.ErrPanic, false, "panic"
	}
	if rapid.Bool().Draw(t, "chunked") {
		rd.Chunks = rapid.SliceOfN(rapid.IntRange(1, 33), 1, 4).Draw(t, "chunks")
	}
	source := gen.Sampled([]string{"argument", "argument", "process-default"}).Draw(t, "source")
	stat.Case("auxfail", []string{fmt.Sprintf("j:%d", j), "source:" + source, "failure:" + kind}, true, []byte(fmt.Sprintf("%d|%x|%x|%v|%s|%s", j, dPrime, msg, rd.Chunks, source, kind)), func() any {
		return map[string]any{"fail_after": j, "chunks": rd.Chunks, "source": source, "failure": kind}
	})
	key, _ := bitcoin.NewSchnorrPrivateKey(ref.B32(dPrime))
	var sig []byte
	var err error
	panicked := lib.Catch(func() {
		if source == "argument" {
			sig, err = key.Sign(rd, msg, nil)
		} else { // nil argument: the process-wide source is the reader
			gen.WithProcessEntropy(rd, func() { sig, err = key.Sign(nil, msg, nil) })
		}
	})
	if panicked != nil && (kind != "panic" || j >= 32) {
		t.Fatalf("Sign panicked: %v", panicked)
	}
	if j < 32 {
		if panicked == nil && (err == nil || sig != nil) {
			t.Fatalf("Sign succeeded although the aux source failed after %d bytes", j)
		}
	} else if err != nil {
		t.Fatalf("Sign failed with 32 aux bytes available: %v", err)
	}
	// The key object is used again after its source failed (or panicked and the caller recovered):
	// the signature is still the BIP-340 function of (key, aux, message), and the call returns.
	aux2 := gen.Bytes(t, 32, 32, "aux2")
	msg2 := gen.Bytes(t, 0, 40, "msg2")
	want, ok := ref.BIP340Sign(dPrime, aux2, msg2)
	if !ok {
		return
	}
	var sig2 []byte
	var err2 error
	returned, p2, stuck := lib.Watch(func() {
		sig2, err2 = key.Sign(&gen.ScriptedReader{Data: aux2, FailAfter: -1}, msg2, nil)
	})
	if !returned {
		t.Fatalf("Sign on a key whose previous aux source failed (%s after %d bytes) never returns: the call is parked with nobody left to wake it: %s", kind, j, stuck)
	}
	if p2 != nil || err2 != nil {
		t.Fatalf("Sign after a failed aux source (%s after %d bytes): panic=%v err=%v", kind, j, p2, err2)
	}
	if !bytes.Equal(sig2, want) {
		t.Fatalf("Sign(d=%x, aux=%x, msg=%x) after a failed aux source = %x, BIP-340 says %x", dPrime, aux2, msg2, sig2, want)
	}
}

func TestC14_AuxFailure(t *testing.T) { rapid.Check(t, propAuxFailure) }

// propKeys: Schnorr key pairs from any route expose the even-y point.
func propKeys(t *rapid.T) {
	pc := gen.Point(t, "pt")
	route := gen.Sampled([]string{"from-point", "from-point-derived", "from-ecdsa-pub", "x-only"}).Draw(t, "route")
	p := pc.P
	cl := []string{"route:" + route, "pt:" + pc.Desc}
	if p.Inf {
		stat.Case("keys", append(cl, "identity"), true, []byte("identity|"+route), func() any { return map[string]any{"point": "O", "route": route} })
		if k, err := bitcoin.NewSchnorrPublicKeyFromPoint(secp256k1.NewIdentityPoint()); err == nil || k != nil {
			t.Fatal("NewSchnorrPublicKeyFromPoint accepted the identity")
		}
		g := secp256k1.NewGeneratorPoint()
		if k, err := bitcoin.NewSchnorrPublicKeyFromPoint(secp256k1.NewIdentityPoint().Subtract(g, g)); err == nil || k != nil {
			t.Fatal("NewSchnorrPublicKeyFromPoint accepted a derived identity")
		}
		return
	}
	cl = append(cl, fmt.Sprintf("y-odd:%d", p.Y.Bit(0)))
	stat.Case("keys", cl, true, []byte(fmt.Sprintf("%x|%s", p.Uncompressed(), route)), func() any {
		return map[string]any{"point": p.String(), "route": route}
	})
	even := p
	if p.Y.Bit(0) == 1 {
		even = p.Neg()
	}
	var k *bitcoin.SchnorrPublicKey
	var err error
	switch route {
	case "from-point":
		lp := lib.Pt(p)
		k, err = bitcoin.NewSchnorrPublicKeyFromPoint(lp)
		if !bytes.Equal(lp.UncompressedBytes(), p.Uncompressed()) {
			t.Fatal("NewSchnorrPublicKeyFromPoint modified its argument")
		}
		lp.Add(lp, secp256k1.NewGeneratorPoint()) // the caller goes on using its point
	case "from-point-derived":
		q := secp256k1.NewIdentityPoint().Add(lib.Pt(p), secp256k1.NewGeneratorPoint())
		q.Subtract(q, secp256k1.NewGeneratorPoint())
		k, err = bitcoin.NewSchnorrPublicKeyFromPoint(q)
		q.Double(q)
	case "from-ecdsa-pub":
		k = bitcoin.NewSchnorrPublicKeyFromECDSA(lib.PubKey(p))
	default:
		raw := ref.B32(p.X)
		k, err = bitcoin.NewSchnorrPublicKey(raw)
		for i := range raw { // the caller reuses its buffer
			raw[i] = 0
		}
	}
	if err != nil || k == nil {
		t.Fatalf("route %s failed for %v: %v", route, p, err)
	}
	if b := k.Bytes(); len(b) > 0 { // ... and overwrites what it was handed
		b[0] ^= 0xff
	}
	k.Point().Identity()
	if !bytes.Equal(k.Bytes(), ref.B32(p.X)) {
		t.Fatalf("Bytes() = %x, want %x", k.Bytes(), ref.B32(p.X))
	}
	if !bytes.Equal(k.Point().UncompressedBytes(), even.Uncompressed()) {
		t.Fatalf("Point() = %x, want the even-y point %v", k.Point().UncompressedBytes(), even)
	}
	other, err := bitcoin.NewSchnorrPublicKey(ref.B32(p.X))
	if err != nil || !other.Equal(k) || !k.Equal(other) {
		t.Fatal("keys for the same x from two routes are not Equal")
	}
	if pub, ok := interface{}(k).(interface{ Equal(x interface{}) bool }); ok {
		_ = pub
	}
}

func TestC14_Keys(t *testing.T) { rapid.Check(t, propKeys) }

// propPrivateRoutes: a Schnorr private key from bytes, from an ECDSA key and
// its public halves from all routes agree and verify each other's signatures.
func propPrivateRoutes(t *rapid.T) {
	dPrime := gen.NonZero256(t, ref.N, "d")
	msg := gen.Message(t, "msg")
	aux, _ := auxBytes(t)
	P := ref.BaseMul(dPrime)
	stat.Case("private-routes", []string{fmt.Sprintf("key-y-odd:%d", P.Y.Bit(0))}, true, []byte(fmt.Sprintf("%x|%x|%x", dPrime, aux, msg)), func() any {
		return map[string]any{"d": dPrime.Text(16)}
	})
	k1, err := bitcoin.NewSchnorrPrivateKey(ref.B32(dPrime))
	if err != nil {
		t.Fatal(err)
	}
	ek := lib.PrivKey(dPrime)
	k2 := bitcoin.NewSchnorrPrivateKeyFromECDSA(ek)
	if !k1.Equal(k2) || !k1.PublicKey().Equal(k2.PublicKey()) {
		t.Fatal("NewSchnorrPrivateKey and NewSchnorrPrivateKeyFromECDSA disagree")
	}
	pubs := []*bitcoin.SchnorrPublicKey{k1.PublicKey(), k2.PublicKey(), bitcoin.NewSchnorrPublicKeyFromECDSA(ek.PublicKey())}
	if fp, err := bitcoin.NewSchnorrPublicKeyFromPoint(ek.PublicKey().Point()); err == nil {
		pubs = append(pubs, fp)
	} else {
		t.Fatalf("NewSchnorrPublicKeyFromPoint: %v", err)
	}
	s1, err1 := k1.Sign(bytes.NewReader(aux), msg, nil)
	s2, err2 := k2.Sign(bytes.NewReader(aux), msg, nil)
	if err1 != nil || err2 != nil || !bytes.Equal(s1, s2) {
		t.Fatalf("the two private-key routes sign differently: %v %v", err1, err2)
	}
	for i, pk := range pubs {
		if !pk.Verify(msg, s1) {
			t.Fatalf("public key route %d rejects the signature", i)
		}
		if !pk.Equal(pubs[0]) {
			t.Fatalf("public key route %d is not Equal to the derived key", i)
		}
	}
	// invalid private keys
	for _, bad := range [][]byte{make([]byte, 32), ref.B32(ref.N), bytes.Repeat([]byte{0xff}, 32), make([]byte, 31), make([]byte, 33)} {
		if k, err := bitcoin.NewSchnorrPrivateKey(bad); err == nil || k != nil {
			t.Fatalf("NewSchnorrPrivateKey(%x) accepted", bad)
		}
	}
	_ = secec.PrivateKeySize
}

func TestC14_PrivateRoutes(t *testing.T) { rapid.Check(t, propPrivateRoutes) }

// TestC14_StructuredNonceCorpus replays (key, aux, message) triples whose
// BIP-340 nonce hash has a rare *shape* -- a zero or all-ones 32-bit half
// word, two 64-bit words without a common set bit or covering all bits, two
// nearly equal words, a word with equal halves (found once by brute force
// with cmd/structsearch: the nonce comes out of SHA-256 and cannot be
// steered; each shape has probability 2^-26..2^-32).  Signing must give the
// BIP-340 signature there too: a guard, fast path or limb-wise test in the
// nonce handling that misfires on such a value (an AND where an OR was meant,
// a range check on one word) is invisible to any realistic amount of random
// signing.
func TestC14_StructuredNonceCorpus(t *testing.T) {
	raw, err := os.ReadFile(filepath.Join(os.Getenv("VERIF_ROOT"), "harness", "c14", "testdata", "structured_nonces.txt"))
	if err != nil {
		raw, err = os.ReadFile(filepath.Join("testdata", "structured_nonces.txt"))
	}
	if err != nil {
		t.Fatalf("HARNESS-INCONCLUSIVE: corpus missing: %v", err)
	}
	n := 0
	classes := map[string]bool{}
	for _, line := range strings.Split(string(raw), "\n") {
		f := strings.Fields(line)
		if len(f) != 6 || f[0] != "bip340-nonce" {
			continue
		}
		dB, _ := hex.DecodeString(f[2])
		aux, _ := hex.DecodeString(f[3])
		msg, _ := hex.DecodeString(f[4])
		hB, _ := hex.DecodeString(f[5])
		d := ref.Int(dB)
		// the corpus line must be what it says: recompute the nonce hash with the reference
		P := ref.BaseMul(d)
		dd := new(big.Int).Set(d)
		if P.Y.Bit(0) == 1 {
			dd.Sub(ref.N, dd)
		}
		tb := ref.B32(dd)
		ah := ref.TaggedHash("BIP0340/aux", aux)
		for i := range tb {
			tb[i] ^= ah[i]
		}
		if got := ref.TaggedHash("BIP0340/nonce", tb, ref.B32(P.X), msg); !bytes.Equal(got, hB) {
			t.Fatalf("HARNESS-INCONCLUSIVE: corpus line %q does not match the reference nonce hash %x", line, got)
		}
		want, ok := ref.BIP340Sign(d, aux, msg)
		if !ok {
			continue
		}
		key, err := bitcoin.NewSchnorrPrivateKey(ref.B32(d))
		if err != nil {
			t.Fatalf("NewSchnorrPrivateKey(%x): %v", d, err)
		}
		sig, err := key.Sign(bytes.NewReader(aux), msg, nil)
		if err != nil || !bytes.Equal(sig, want) {
			t.Fatalf("Sign(d=%x, aux=%x, msg=%x) = %x (%v), BIP-340 says %x; the nonce hash is %x [shape %s]", d, aux, msg, sig, err, want, hB, f[1])
		}
		if !key.PublicKey().Verify(msg, sig) {
			t.Fatalf("library Verify rejects the signature for d=%x msg=%x [nonce shape %s]", d, msg, f[1])
		}
		n++
		classes[f[1]] = true
		stat.Case("structured-nonce-corpus", []string{"shape:" + f[1]}, true, []byte(line), func() any {
			return map[string]any{"shape": f[1], "d": f[2], "aux": f[3], "msg": f[4], "nonce_hash": f[5]}
		})
	}
	if n < 12 || len(classes) < 12 {
		t.Fatalf("HARNESS-INCONCLUSIVE: corpus has only %d usable lines in %d shape classes", n, len(classes))
	}
}
