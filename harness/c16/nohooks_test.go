//go:build !verif

package c16

import (
	secp256k1 "gitlab.com/yawning/secp256k1-voi"
	"gitlab.com/yawning/secp256k1-voi/verifharness/ref"
)

func sibling(ref.Pt, bool) (*secp256k1.Point, ref.Pt, bool) { return nil, ref.Pt{}, false }
