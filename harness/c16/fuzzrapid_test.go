package c16

import (
	"testing"

	"pgregory.net/rapid"
)

// FuzzC16_Multi: the same property body as TestC16_Multi, driven by Go's
// coverage-guided native fuzzer through rapid.MakeFuzz (the fuzzer mutates
// the byte stream rapid draws from, so it explores the generator's choice
// space with coverage feedback from the library; thorough tier only).
func FuzzC16_Multi(f *testing.F) {
	f.Add([]byte{})
	f.Add([]byte{0, 1, 2, 3, 4, 5, 6, 7, 8, 9, 10, 11, 12, 13, 14, 15, 16, 17, 18, 19, 20, 21, 22, 23, 24, 25, 26, 27, 28, 29, 30, 31})
	f.Add([]byte{0xff, 0xff, 0xff, 0xff, 0xff, 0xff, 0xff, 0xff, 0xff, 0xff, 0xff, 0xff, 0xff, 0xff, 0xff, 0xff})
	f.Fuzz(rapid.MakeFuzz(propMulti))
}
