// Package c16: multi- and double-scalar multiplication return the exact
// combination.
package c16

import (
	"bytes"
	"fmt"
	"math/big"
	"math/bits"
	"testing"

	"pgregory.net/rapid"

	secp256k1 "gitlab.com/yawning/secp256k1-voi"
	"gitlab.com/yawning/secp256k1-voi/verifharness/gen"
	"gitlab.com/yawning/secp256k1-voi/verifharness/lib"
	"gitlab.com/yawning/secp256k1-voi/verifharness/ref"
	"gitlab.com/yawning/secp256k1-voi/verifharness/stat"
)

func TestMain(m *testing.M) { stat.Main(m) }

type term struct {
	s    *big.Int
	p    ref.Pt
	how  string
	dupP int // index of the entry whose *Point object is reused, or -1
	dupS int
}

// drawScalar: boundary-biased scalar, or (a third of the time) one steered at the endomorphism split that the
// single-term and double-scalar paths run on their scalars (extreme halves, all-ones quotient limb with the rounding
// bit set, short halves) - "every combination of scalars" includes the ones the split finds hard.
func drawScalar(t *rapid.T, label string) *big.Int {
	if rapid.IntRange(0, 2).Draw(t, label+"_glv") == 0 {
		s, _ := gen.GLVScalar(t, label+"_g")
		return s
	}
	return gen.Int256(t, ref.N, label)
}

func propMulti(t *rapid.T) {
	n := gen.Sampled([]int{0, 1, 2, 2, 3, 3, 4, 5, 6, 8, 12}).Draw(t, "len")
	if rapid.IntRange(0, 40).Draw(t, "big") == 0 {
		n = gen.Sampled([]int{17, 33}).Draw(t, "biglen")
	}
	terms := make([]term, n)
	feats := map[string]bool{}
	for i := range terms {
		how := "fresh"
		if i > 0 {
			how = gen.Sampled([]string{"fresh", "fresh", "same-point", "neg-point", "same-point-neg-scalar", "same-object",
				"cancel-all", "zero-scalar", "identity-point", "double-of-prev"}).Draw(t, fmt.Sprintf("how%d", i))
		} else {
			how = gen.Sampled([]string{"fresh", "fresh", "zero-scalar", "identity-point"}).Draw(t, "how0")
		}
		tm := term{how: how, dupP: -1, dupS: -1}
		j := 0
		if i > 0 {
			j = rapid.IntRange(0, i-1).Draw(t, fmt.Sprintf("ref%d", i))
		}
		switch how {
		case "fresh":
			tm.s, tm.p = drawScalar(t, fmt.Sprintf("s%d", i)), gen.Point(t, fmt.Sprintf("p%d", i)).P
		case "same-point":
			tm.s, tm.p = drawScalar(t, fmt.Sprintf("s%d", i)), terms[j].p
		case "neg-point":
			tm.s, tm.p = terms[j].s, terms[j].p.Neg() // s*P + s*(-P) = O
		case "same-point-neg-scalar":
			tm.s, tm.p = ref.NegM(terms[j].s, ref.N), terms[j].p
		case "same-object":
			tm.s, tm.p, tm.dupP, tm.dupS = terms[j].s, terms[j].p, j, j
		case "cancel-all": // choose this term so that the whole sum so far cancels: s*G with s = -dlog is unknown, so use P_i = -(sum so far), s_i = 1
			sum := ref.Infinity()
			for k := 0; k < i; k++ {
				sum = sum.Add(terms[k].p.Mul(terms[k].s))
			}
			tm.s, tm.p = big.NewInt(1), sum.Neg()
		case "zero-scalar":
			tm.s, tm.p = big.NewInt(0), gen.Point(t, fmt.Sprintf("p%d", i)).P
		case "identity-point":
			tm.s, tm.p = drawScalar(t, fmt.Sprintf("s%d", i)), ref.Infinity()
		case "double-of-prev":
			tm.s, tm.p = terms[j].s, terms[j].p.Double()
		}
		if how != "fresh" {
			feats[how] = true
		}
		terms[i] = tm
	}
	want := ref.Infinity()
	scalars := make([]*secp256k1.Scalar, n)
	points := make([]*secp256k1.Point, n)
	var key bytes.Buffer
	for i, tm := range terms {
		want = want.Add(tm.p.Mul(tm.s))
		if tm.dupP >= 0 {
			points[i], scalars[i] = points[tm.dupP], scalars[tm.dupS]
		} else {
			points[i], scalars[i] = lib.Pt(tm.p), lib.Sc(tm.s)
		}
		fmt.Fprintf(&key, "%x*%x,", tm.s, tm.p.Compressed())
	}
	vartime := rapid.Bool().Draw(t, "vartime")
	rk := gen.Sampled([]string{"fresh", "zero-value", "input"}).Draw(t, "rcv")
	var rcv *secp256k1.Point
	rIdx := -1
	switch {
	case rk == "input" && n > 0:
		rIdx = rapid.IntRange(0, n-1).Draw(t, "rcvidx")
		rcv = points[rIdx]
		feats["receiver-among-inputs"] = true
	case rk == "zero-value":
		rcv = &secp256k1.Point{}
	default:
		rcv = lib.Pt(ref.BaseMul(big.NewInt(5)))
	}
	cl := []string{fmt.Sprintf("len:%d", n), "rcv:" + rk}
	for f := range feats {
		cl = append(cl, f)
	}
	if want.Inf {
		cl = append(cl, "result=O")
	}
	if vartime {
		cl = append(cl, "vartime")
	}
	stat.Case("multi", cl, n <= 1 || len(feats) > 0, []byte(fmt.Sprintf("%v|%s|%d|%s", vartime, rk, rIdx, key.String())), func() any {
		var ts []string
		for _, tm := range terms {
			ts = append(ts, fmt.Sprintf("%s: %x * %v", tm.how, tm.s, tm.p))
		}
		return map[string]any{"terms": ts, "vartime": vartime, "receiver": rk, "receiver_index": rIdx}
	})
	if rapid.IntRange(0, 3).Draw(t, "faulted-before") == 0 {
		// a multiplication that cannot complete (recovered by the caller) comes first: whatever scratch
		// state it left half-used must not reach this call
		lib.FaultedMultiplication(t, "f", lib.Sc(drawScalar(t, "fs")), lib.Pt(gen.NonIdentityPoint(t, "fp").P))
	}
	var ret *secp256k1.Point
	if vartime {
		ret = rcv.MultiScalarMultVartime(scalars, points)
	} else {
		ret = rcv.MultiScalarMult(scalars, points)
	}
	if ret != rcv {
		t.Fatal("returned pointer is not the receiver")
	}
	if got := rcv.UncompressedBytes(); !bytes.Equal(got, want.Uncompressed()) {
		t.Fatalf("MultiScalarMult(vartime=%v, rcv=%s/%d): got %x want %v; terms %s", vartime, rk, rIdx, got, want, key.String())
	}
	// inputs other than the receiver are untouched
	for i, tm := range terms {
		if points[i] != rcv && !bytes.Equal(points[i].UncompressedBytes(), tm.p.Uncompressed()) {
			t.Fatalf("input point %d modified", i)
		}
		if lib.ScInt(scalars[i]).Cmp(tm.s) != 0 {
			t.Fatalf("input scalar %d modified", i)
		}
	}
}

func TestC16_Multi(t *testing.T) { rapid.Check(t, propMulti) }

func propMismatch(t *rapid.T) {
	ns := rapid.IntRange(0, 4).Draw(t, "ns")
	np := rapid.IntRange(0, 4).Draw(t, "np")
	if ns == np {
		np = ns + 1
	}
	vartime := rapid.Bool().Draw(t, "vartime")
	scalars := make([]*secp256k1.Scalar, ns)
	points := make([]*secp256k1.Point, np)
	for i := range scalars {
		scalars[i] = lib.Sc(drawScalar(t, "s"))
	}
	for i := range points {
		points[i] = lib.Pt(gen.Point(t, "p").P)
	}
	known := ref.BaseMul(big.NewInt(5))
	rcv := lib.Pt(known)
	stat.Case("mismatch", []string{fmt.Sprintf("%d/%d", ns, np)}, true, []byte(fmt.Sprintf("%d|%d|%v", ns, np, vartime)), func() any {
		return map[string]any{"scalars": ns, "points": np, "vartime": vartime}
	})
	p := lib.Catch(func() {
		if vartime {
			rcv.MultiScalarMultVartime(scalars, points)
		} else {
			rcv.MultiScalarMult(scalars, points)
		}
	})
	if p == nil {
		t.Fatalf("mismatched lengths %d/%d were not refused", ns, np)
	}
	// The property only says the call is refused; what it leaves in the receiver is not specified, as long
	// as it is still a valid object (C18).  An unchanged receiver is what the current code gives.
	enc := rcv.UncompressedBytes()
	if _, ok := ref.DecodePoint(enc); !ok {
		t.Fatalf("receiver is not a valid point after a refused call: %x", enc)
	}
	if !bytes.Equal(enc, known.Uncompressed()) {
		stat.Note("mismatch", "a refused call changed its (still valid) receiver")
	}
}

func TestC16_Mismatch(t *testing.T) { rapid.Check(t, propMismatch) }

func propDouble(t *rapid.T) {
	u1 := drawScalar(t, "u1")
	u2 := drawScalar(t, "u2")
	pc := gen.Point(t, "P")
	p := pc.P
	rel := gen.Sampled([]string{"independent", "independent", "u2P=-u1G", "u2P=u1G", "P=G", "P=-G", "P=O", "u1=0", "u2=0", "both0", "u1=-u2,P=G", "exceptional-window", "exceptional-window"}).Draw(t, "rel")
	switch rel {
	case "exceptional-window":
		// u2*P plus the part of u1*G already accumulated equals +-(the next fixed-base table entry)
		var k *big.Int
		k, u1, u2, rel = gen.ExceptionalDouble(t, "xw")
		p = ref.BaseMul(k)
	case "u2P=-u1G", "u2P=u1G":
		// P = k*G for a known k: u2 = -+u1/k
		k := gen.NonZero256(t, ref.N, "k")
		p = ref.BaseMul(k)
		u2 = ref.MulM(u1, ref.Inv0(k, ref.N), ref.N)
		if rel == "u2P=-u1G" {
			u2 = ref.NegM(u2, ref.N)
		}
	case "P=G":
		p = ref.G()
	case "P=-G":
		p = ref.G().Neg()
	case "P=O":
		p = ref.Infinity()
	case "u1=0":
		u1 = big.NewInt(0)
	case "u2=0":
		u2 = big.NewInt(0)
	case "both0":
		u1, u2 = big.NewInt(0), big.NewInt(0)
	case "u1=-u2,P=G":
		p, u2 = ref.G(), ref.NegM(u1, ref.N)
	}
	alias := rapid.Bool().Draw(t, "alias")
	want := ref.BaseMul(u1).Add(p.Mul(u2))
	lp := lib.Pt(p)
	rcv, rk := lib.Receiver(rapid.IntRange(0, lib.ReceiverKinds-1).Draw(t, "rcv"))
	if alias {
		rcv, rk = lp, "aliases-P"
	}
	cl := []string{"rel:" + rel, "receiver:" + rk}
	if want.Inf {
		cl = append(cl, "result=O")
	}
	if alias {
		cl = append(cl, "alias")
	}
	stat.Case("double", cl, rel != "independent" || alias, []byte(fmt.Sprintf("%x|%x|%x|%v", u1, u2, p.Compressed(), alias)), func() any {
		return map[string]any{"u1": u1.Text(16), "u2": u2.Text(16), "P": p.String(), "relation": rel, "alias": alias}
	})
	l1, l2 := lib.Sc(u1), lib.Sc(u2)
	if same := rapid.Bool().Draw(t, "same-scalar-object"); same && u1.Cmp(u2) == 0 {
		l2 = l1
	}
	ret := rcv.DoubleScalarMultBasepointVartime(l1, l2, lp)
	if ret != rcv {
		t.Fatal("returned pointer is not the receiver")
	}
	if got := rcv.UncompressedBytes(); !bytes.Equal(got, want.Uncompressed()) {
		t.Fatalf("DoubleScalarMultBasepointVartime(%x,%x,%v) [%s]: got %x want %v", u1, u2, p, rel, got, want)
	}
	// hooks only: the next call gets a different group element whose raw X and Y are this P's affine x and y
	// (state keyed on part of a representation would take it for P)
	if !alias && !p.Inf {
		if g, q, ok := sibling(p, rapid.Bool().Draw(t, "sib-root")); ok {
			v1, v2 := drawScalar(t, "v1"), drawScalar(t, "v2")
			got := secp256k1.NewIdentityPoint().DoubleScalarMultBasepointVartime(lib.Sc(v1), lib.Sc(v2), g)
			if want2 := ref.BaseMul(v1).Add(q.Mul(v2)); !bytes.Equal(got.UncompressedBytes(), want2.Uncompressed()) {
				t.Fatalf("DoubleScalarMultBasepointVartime(%x,%x,Q) right after a call on P=%v, Q=%v given as (x(P), y(P), Z'): got %x want %v", v1, v2, p, q, got.UncompressedBytes(), want2)
			}
			stat.Case("double", []string{"follow-up:sibling-representative"}, true, []byte(fmt.Sprintf("sib|%x|%x|%x", v1, v2, q.Compressed())), func() any {
				return map[string]any{"first_P": p.String(), "then_Q": q.String(), "v1": v1.Text(16), "v2": v2.Text(16)}
			})
		}
	}
	// agrees with the two multi-scalar variants
	for _, vt := range []bool{false, true} {
		sc := []*secp256k1.Scalar{lib.Sc(u1), lib.Sc(u2)}
		pt := []*secp256k1.Point{secp256k1.NewGeneratorPoint(), lib.Pt(p)}
		var m *secp256k1.Point
		if vt {
			m = secp256k1.NewIdentityPoint().MultiScalarMultVartime(sc, pt)
		} else {
			m = secp256k1.NewIdentityPoint().MultiScalarMult(sc, pt)
		}
		if m.Equal(rcv) != 1 {
			t.Fatalf("MultiScalarMult(vartime=%v) disagrees with DoubleScalarMultBasepointVartime", vt)
		}
	}
}

func TestC16_Double(t *testing.T) { rapid.Check(t, propDouble) }

// propLong: long lists.  The points are a chain P_i = (k+i)*G built with
// cheap reference additions, so the expected sum is a single reference
// multiplication (sum s_i*(k+i))*G and lists of several hundred terms stay
// affordable.  Lengths sit on and around the sizes where an implementation
// would plausibly batch or switch algorithm (powers of two +-1); the receiver
// may alias an entry anywhere in the list, including its tail; some entries
// are repeated pointers, identity points or zero scalars.
func propLong(t *rapid.T) {
	lens := []int{16, 17, 31, 32, 33, 63, 64, 65, 127, 128, 129, 200, 255, 256, 257, 258, 300, 511, 512, 513}
	for _, v := range gen.SourceIntLiterals(9, 513) { // and next to the library's own integer constants
		lens = append(lens, v-1, v, v+1)
	}
	longCase(t, "long", gen.Sampled(lens).Draw(t, "len"))
}

// propVeryLong: one length on, next to and inside every power-of-two tier up
// to 2^14 terms -- where a bucket method would pick its window width from the
// list length, every tier is a different code path, and each is visited.
func propVeryLong(t *rapid.T) {
	// ... and lengths next to every integer constant the library's own sources contain (a threshold at which
	// the code batches, caps or switches algorithm is written down there as a number)
	if lits := gen.SourceIntLiterals(514, 70000); len(lits) > 0 && rapid.IntRange(0, 3).Draw(t, "source-constant") == 0 {
		longCase(t, "very-long", gen.Sampled(lits).Draw(t, "lit")+rapid.IntRange(-1, 1).Draw(t, "lit-off"))
		return
	}
	k := uint(rapid.IntRange(9, 13).Draw(t, "tier"))
	n := 1 << k
	switch rapid.IntRange(0, 3).Draw(t, "where") {
	case 0:
		n += 1<<k - 1 // 2^(k+1) - 1
	case 1:
		n = 1 << (k + 1)
	case 2:
		n += 1 + 1<<k // 2^(k+1) + 1
	default:
		n += rapid.IntRange(1, 1<<k-2).Draw(t, "inside")
	}
	longCase(t, "very-long", n)
}

func TestC16_VeryLong(t *testing.T) { rapid.Check(t, propVeryLong) }

func longCase(t *rapid.T, sub string, n int) {
	k := gen.NonZero256(t, ref.N, "k")
	step := ref.G()
	if rapid.Bool().Draw(t, "step-neg") {
		step = step.Neg()
	}
	cur := ref.BaseMul(k)
	ki := new(big.Int).Set(k)
	scalars := make([]*secp256k1.Scalar, n)
	points := make([]*secp256k1.Point, n)
	mult := make([]*big.Int, n) // points[i] = mult[i] * G
	acc := new(big.Int)
	special := 0
	for i := 0; i < n; i++ {
		var s *big.Int
		switch rapid.IntRange(0, 19).Draw(t, fmt.Sprintf("kind%d", i)) {
		case 0:
			s = new(big.Int) // zero scalar
			special++
		case 1:
			s = drawScalar(t, fmt.Sprintf("s%d", i))
		default:
			s = new(big.Int).SetUint64(rapid.Uint64().Draw(t, fmt.Sprintf("s%d", i)))
			s.Mul(s, s).Mul(s, s).Mod(s, ref.N) // spread over 256 bits cheaply
		}
		scalars[i] = lib.Sc(s)
		if i > 0 && rapid.IntRange(0, 24).Draw(t, fmt.Sprintf("dup%d", i)) == 0 {
			j := rapid.IntRange(0, i-1).Draw(t, fmt.Sprintf("dupof%d", i))
			points[i], mult[i] = points[j], mult[j] // same pointer again: contributes s * P_j
			special++
		} else {
			if cur.Inf { // the chain passed through the identity (k + i = 0 mod n)
				points[i] = secp256k1.NewIdentityPoint()
			} else {
				points[i] = lib.Pt(cur)
			}
			mult[i] = new(big.Int).Set(ki)
		}
		acc.Add(acc, new(big.Int).Mul(s, mult[i]))
		cur = cur.Add(step)
		if step.Y.Cmp(ref.G().Y) == 0 {
			ki = ref.AddM(ki, big.NewInt(1), ref.N)
		} else {
			ki = ref.SubM(ki, big.NewInt(1), ref.N)
		}
	}
	want := ref.BaseMul(ref.Mod(acc, ref.N))
	vartime := rapid.Bool().Draw(t, "vartime")
	rk := gen.Sampled([]string{"fresh", "zero-value", "input", "input", "input-tail"}).Draw(t, "rcv")
	var rcv *secp256k1.Point
	rIdx := -1
	switch rk {
	case "input":
		rIdx = rapid.IntRange(0, n-1).Draw(t, "rcvidx")
		rcv = points[rIdx]
	case "input-tail":
		rIdx = n - 1 - rapid.IntRange(0, 3).Draw(t, "fromend")
		rcv = points[rIdx]
	case "zero-value":
		rcv = &secp256k1.Point{}
	default:
		rcv = secp256k1.NewGeneratorPoint()
	}
	lenClass := fmt.Sprintf("len:%d", n)
	if n > 513 {
		lenClass = fmt.Sprintf("len-tier:2^%d", bits.Len(uint(n))-1)
	}
	stat.Case(sub, []string{lenClass, "rcv:" + rk, fmt.Sprintf("vartime:%v", vartime)}, rIdx >= 0 || special > 0,
		[]byte(fmt.Sprintf("%d|%x|%s|%d|%v|%x", n, k, rk, rIdx, vartime, acc)), func() any {
			return map[string]any{"len": n, "k": k.Text(16), "receiver": rk, "receiver_index": rIdx, "vartime": vartime, "repeated_or_zero_terms": special}
		})
	if vartime {
		rcv.MultiScalarMultVartime(scalars, points)
	} else {
		rcv.MultiScalarMult(scalars, points)
	}
	if got := rcv.UncompressedBytes(); !bytes.Equal(got, want.Uncompressed()) {
		t.Fatalf("MultiScalarMult(vartime=%v) over %d terms P_i = (k+-i)*G, k=%x, receiver %s (index %d): got %x want %v", vartime, n, k, rk, rIdx, got, want)
	}
}

func TestC16_Long(t *testing.T) { rapid.Check(t, propLong) }
