// Package c01: field-element operations are exact arithmetic modulo p.
package c01

import (
	"bytes"
	"encoding/hex"
	"fmt"
	"math/big"
	"testing"

	"pgregory.net/rapid"

	"gitlab.com/yawning/secp256k1-voi/internal/field"
	"gitlab.com/yawning/secp256k1-voi/verifharness/gen"
	"gitlab.com/yawning/secp256k1-voi/verifharness/lib"
	"gitlab.com/yawning/secp256k1-voi/verifharness/ref"
	"gitlab.com/yawning/secp256k1-voi/verifharness/stat"
)

func TestMain(m *testing.M) { stat.Main(m) }

var (
	P      = ref.P
	two33  = new(big.Int).Lsh(big.NewInt(1), 33)
	swuZ   = ref.SwuZ
	opList = []string{"add", "sub", "mul", "neg", "square", "invert", "pow2k", "sqrt", "sqrtratio",
		"set", "condneg", "condsel", "equal", "iszero", "isodd"}
)

// nearBoundary reports v within 2^33 of 0, p or 2^256 (v < 2^256).
func nearBoundary(v *big.Int) bool {
	if v.Cmp(two33) < 0 {
		return true
	}
	d := new(big.Int).Sub(P, v)
	if d.Abs(d).Cmp(two33) < 0 {
		return true
	}
	return new(big.Int).Sub(ref.Two256, v).Cmp(two33) < 0
}

// classify computes the model-side window classes of an operation on the
// Montgomery-domain operands.
func classify(op string, a, b *big.Int) (classes []string, window bool) {
	am, bm := ref.ToM(a, P), ref.ToM(b, P)
	switch op {
	case "mul", "sqrtratio":
		if ref.InWindow(ref.MontPre(am, bm, P), P) {
			classes, window = append(classes, "mont-window"), true
		}
	case "square", "pow2k", "invert", "sqrt":
		if ref.InWindow(ref.MontPre(am, am, P), P) {
			classes, window = append(classes, "mont-window"), true
		}
	case "add":
		s := new(big.Int).Add(am, bm)
		switch {
		case s.Cmp(ref.Two256) >= 0:
			classes = append(classes, "sum-carry")
		case s.Cmp(P) >= 0:
			classes, window = append(classes, "sum-window"), true
		}
	case "sub":
		if am.Cmp(bm) < 0 {
			classes = append(classes, "sub-borrow")
		}
	}
	return
}

func propOps(t *rapid.T) {
	a, b, kind := gen.Pair(t, P, "p")
	op := gen.Sampled(opList).Draw(t, "op")
	alias := rapid.IntRange(0, 4).Draw(t, "alias")
	ctrl := gen.Ctrl(t, "ctrl")
	k := gen.Sampled([]uint{1, 2, 3, 5, 64, 255, 256, 300}).Draw(t, "k")
	if rapid.IntRange(0, 3).Draw(t, "kdrawn") == 0 {
		k = uint(rapid.IntRange(1, 600).Draw(t, "kval"))
	}
	junk := gen.Int256(t, P, "junk")

	if op == "sqrtratio" && b.Sign() == 0 {
		b = big.NewInt(1) // v = 0 is outside the documented domain
	}
	if alias >= 3 {
		b = new(big.Int).Set(a)
	}
	ea, eb, er := lib.Fe(a), lib.Fe(b), lib.Fe(junk)
	switch alias {
	case 1:
		er = ea
	case 2:
		er = eb
	case 3:
		eb = ea
	case 4:
		eb, er = ea, ea
	}

	classes, window := classify(op, a, b)
	classes = append(classes, "op:"+op, "pair:"+kind, fmt.Sprintf("alias:%d", alias))

	var (
		want     *big.Int // expected receiver value (nil: receiver not written)
		gotFlag  uint64
		wantFlag uint64
		hasFlag  bool
		ret      *field.Element
		nonRes   bool
	)
	switch op {
	case "add":
		ret, want = er.Add(ea, eb), ref.AddM(a, b, P)
	case "sub":
		ret, want = er.Subtract(ea, eb), ref.SubM(a, b, P)
	case "mul":
		ret, want = er.Multiply(ea, eb), ref.MulM(a, b, P)
	case "neg":
		ret, want = er.Negate(ea), ref.NegM(a, P)
	case "square":
		ret, want = er.Square(ea), ref.MulM(a, a, P)
	case "invert":
		ret, want = er.Invert(ea), ref.Inv0(a, P)
	case "pow2k":
		ret = er.Pow2k(ea, k)
		want = ref.ExpM(a, new(big.Int).Lsh(big.NewInt(1), k), P)
	case "set":
		ret, want = er.Set(ea), a
	case "condneg":
		ret = er.ConditionalNegate(ea, ctrl)
		want = a
		if ctrl != 0 {
			want = ref.NegM(a, P)
		}
	case "condsel":
		ret = er.ConditionalSelect(ea, eb, ctrl)
		want = a
		if ctrl != 0 {
			want = b
		}
	case "sqrt":
		ret, gotFlag = er.Sqrt(ea)
		hasFlag = true
		got := lib.FeInt(er)
		if ref.IsSquareP(a) {
			wantFlag = 1
			if ref.MulM(got, got, P).Cmp(a) != 0 {
				t.Fatalf("Sqrt(%x): result %x squared is not the input", a, got)
			}
		} else {
			nonRes = true
			if got.Sign() != 0 {
				t.Fatalf("Sqrt(%x) of a non-residue: result %x, want 0", a, got)
			}
		}
	case "sqrtratio":
		ret, gotFlag = er.SqrtRatio(ea, eb)
		hasFlag = true
		got := lib.FeInt(er)
		ratio := ref.MulM(a, ref.Inv0(b, P), P)
		sq := ref.MulM(got, got, P)
		if ref.IsSquareP(ratio) {
			wantFlag = 1
			if sq.Cmp(ratio) != 0 {
				t.Fatalf("SqrtRatio(%x,%x): result^2 != u/v", a, b)
			}
		} else {
			nonRes = true
			if sq.Cmp(ref.MulM(swuZ, ratio, P)) != 0 {
				t.Fatalf("SqrtRatio(%x,%x): result^2 != Z*u/v", a, b)
			}
		}
	case "equal":
		hasFlag = true
		gotFlag = ea.Equal(eb)
		if a.Cmp(b) == 0 {
			wantFlag = 1
		}
	case "iszero":
		hasFlag = true
		gotFlag = ea.IsZero()
		if a.Sign() == 0 {
			wantFlag = 1
		}
	case "isodd":
		hasFlag = true
		gotFlag = ea.IsOdd()
		wantFlag = uint64(a.Bit(0))
	}

	nontrivial := window || kind != gen.PairIndependent || alias != 0 || nearBoundary(a) || nearBoundary(b) ||
		(want != nil && nearBoundary(want)) || nonRes ||
		((op == "condneg" || op == "condsel") && ctrl > 1)
	if nonRes {
		classes = append(classes, "non-residue")
	}
	if (op == "condneg" || op == "condsel") && ctrl > 1 {
		classes = append(classes, "ctrl>1")
	}
	key := []byte(fmt.Sprintf("%s|%x|%x|%d|%d|%d", op, a, b, alias, ctrl, k))
	stat.Case("ops", classes, nontrivial, key, func() any {
		return map[string]any{"op": op, "a": a.Text(16), "b": b.Text(16), "alias": alias, "ctrl": ctrl, "k": k}
	})

	if hasFlag && gotFlag != wantFlag {
		t.Fatalf("%s(%x,%x): flag %d want %d", op, a, b, gotFlag, wantFlag)
	}
	if ret != nil && ret != er {
		t.Fatalf("%s: returned pointer is not the receiver", op)
	}
	if want != nil {
		if got := lib.FeInt(er); got.Cmp(want) != 0 {
			t.Fatalf("%s(%x,%x) alias=%d ctrl=%d k=%d: got %x want %x", op, a, b, alias, ctrl, k, got, want)
		}
	}
	// operands that are not the receiver must be untouched
	if ea != er {
		if got := lib.FeInt(ea); got.Cmp(a) != 0 {
			t.Fatalf("%s: operand a modified: %x -> %x", op, a, got)
		}
	}
	if eb != er {
		if got := lib.FeInt(eb); got.Cmp(b) != 0 {
			t.Fatalf("%s: operand b modified: %x -> %x", op, b, got)
		}
	}
	checkInternal(t, er)
}

func TestC01_Ops(t *testing.T) { rapid.Check(t, propOps) }

// wideBytes draws a byte string of the given length for SetWideBytes.
func wideBytes(t *rapid.T, n int) []byte {
	b := make([]byte, n)
	switch rapid.IntRange(0, 8).Draw(t, "wstrat") {
	case 6, 7, 8: // residue + j*p with j up to the largest that fits: every carry of a wide reduction
		src, _, _ := gen.WideAlias(t, P, n, "walias")
		return src
	case 0:
		copy(b, gen.Bytes(t, n, n, "wrand"))
	case 1:
		for i := range b {
			b[i] = 0xff
		}
	case 2: // j*p + small: aliases of a small value
		maxv := new(big.Int).Lsh(big.NewInt(1), uint(8*n))
		j := gen.Uniform256(t, "wj")
		v := new(big.Int).Mul(j, P)
		v.Add(v, gen.Small(t, "wsmall"))
		v.Mod(v, maxv)
		v.FillBytes(b)
	case 3: // chunk boundaries: the three internal chunks are low 24, mid 24, top 16 bytes of the 64-byte padded value
		for i := range b {
			b[i] = gen.Sampled([]byte{0, 0xff, 0x80, 0x01}).Draw(t, "wchunkbyte")
		}
	case 4: // a 32-byte boundary value in the low bytes, pattern above
		copy(b[n-32:], gen.Bytes32Any(t, P, "wlow"))
		fill := gen.Sampled([]byte{0, 0xff, 1}).Draw(t, "wfill")
		for i := 0; i < n-32; i++ {
			b[i] = fill
		}
	default: // single set bit
		bit := rapid.IntRange(0, 8*n-1).Draw(t, "wbit")
		b[n-1-bit/8] = 1 << (bit % 8)
	}
	return b
}

func propCodec(t *rapid.T) {
	which := gen.Sampled([]string{"setbytes", "setcanonical", "mustsetcanonical", "arecanonical",
		"newfromcanonical", "wide", "wide-badlen", "bytes", "uint64", "zero-one"}).Draw(t, "which")
	prev := gen.Int256(t, P, "prev")
	fe := lib.Fe(prev)
	classes := []string{"codec:" + which}
	nontrivial := false
	var key []byte
	var sample any

	switch which {
	case "setbytes", "setcanonical", "mustsetcanonical", "arecanonical", "newfromcanonical":
		src := gen.Bytes32Any(t, P, "src")
		orig := append([]byte(nil), src...)
		v := ref.Int(src)
		canonical := v.Cmp(P) < 0
		if !canonical {
			classes = append(classes, "non-canonical")
		}
		nontrivial = !canonical || nearBoundary(v)
		key = append([]byte(which), src...)
		sample = map[string]any{"which": which, "src": hex.EncodeToString(src)}
		stat.Case("codec", classes, nontrivial, key, func() any { return sample })
		switch which {
		case "setbytes":
			ret, flag := fe.SetBytes((*[32]byte)(src))
			if ret != fe {
				t.Fatal("SetBytes: returned pointer is not the receiver")
			}
			if (flag == 1) == canonical || flag > 1 {
				t.Fatalf("SetBytes(%x): didReduce=%d, canonical=%v", src, flag, canonical)
			}
			if got := lib.FeInt(fe); got.Cmp(ref.Mod(v, P)) != 0 {
				t.Fatalf("SetBytes(%x): got %x", src, got)
			}
		case "setcanonical":
			ret, err := fe.SetCanonicalBytes((*[32]byte)(src))
			if canonical {
				if err != nil || ret != fe || lib.FeInt(fe).Cmp(v) != 0 {
					t.Fatalf("SetCanonicalBytes(%x): err=%v got %x", src, err, lib.FeInt(fe))
				}
			} else {
				if err == nil || ret != nil {
					t.Fatalf("SetCanonicalBytes(%x): non-canonical input accepted", src)
				}
				if lib.FeInt(fe).Cmp(prev) != 0 {
					t.Fatalf("SetCanonicalBytes(%x): receiver changed on error", src)
				}
			}
		case "mustsetcanonical":
			var ret *field.Element
			p := lib.Catch(func() { ret = fe.MustSetCanonicalBytes((*[32]byte)(src)) })
			if canonical {
				if p != nil || ret != fe || lib.FeInt(fe).Cmp(v) != 0 {
					t.Fatalf("MustSetCanonicalBytes(%x): panic=%v", src, p)
				}
			} else {
				if p == nil {
					t.Fatalf("MustSetCanonicalBytes(%x): no panic on non-canonical input", src)
				}
				if lib.FeInt(fe).Cmp(prev) != 0 {
					t.Fatalf("MustSetCanonicalBytes(%x): receiver changed", src)
				}
			}
		case "arecanonical":
			if field.BytesAreCanonical((*[32]byte)(src)) != canonical {
				t.Fatalf("BytesAreCanonical(%x) != %v", src, canonical)
			}
		case "newfromcanonical":
			ne, err := field.NewElementFromCanonicalBytes((*[32]byte)(src))
			if canonical {
				if err != nil || ne == nil || lib.FeInt(ne).Cmp(v) != 0 {
					t.Fatalf("NewElementFromCanonicalBytes(%x): err=%v", src, err)
				}
			} else if err == nil || ne != nil {
				t.Fatalf("NewElementFromCanonicalBytes(%x): non-canonical input accepted", src)
			}
		}
		if !bytes.Equal(src, orig) {
			t.Fatal("input bytes were modified")
		}
	case "wide":
		n := gen.WideLen(t, "wlen")
		src := wideBytes(t, n)
		orig := append([]byte(nil), src...)
		v := ref.Int(src)
		classes = append(classes, fmt.Sprintf("widelen:%d", n))
		nontrivial = n != 32 && n != 48 && n != 64 || v.Cmp(P) >= 0
		stat.Case("codec", classes, nontrivial, append([]byte(which), src...), func() any {
			return map[string]any{"which": which, "len": n, "src": hex.EncodeToString(src)}
		})
		ret := fe.SetWideBytes(src)
		if ret != fe {
			t.Fatal("SetWideBytes: returned pointer is not the receiver")
		}
		if got := lib.FeInt(fe); got.Cmp(ref.Mod(v, P)) != 0 {
			t.Fatalf("SetWideBytes(len %d, %x): got %x want %x", n, src, got, ref.Mod(v, P))
		}
		if !bytes.Equal(src, orig) {
			t.Fatal("input bytes were modified")
		}
	case "wide-badlen":
		n := gen.Sampled([]int{0, 1, 16, 31, 65, 66, 70, 96, 128}).Draw(t, "badlen")
		src := gen.Bytes(t, n, n, "src")
		stat.Case("codec", classes, true, append([]byte(which), src...), func() any {
			return map[string]any{"which": which, "len": n}
		})
		if p := lib.Catch(func() { fe.SetWideBytes(src) }); p == nil {
			t.Fatalf("SetWideBytes(len %d): no panic", n)
		}
	case "bytes":
		v := gen.Int256(t, P, "v")
		e := lib.Fe(v)
		enc := e.Bytes()
		stat.Case("codec", classes, nearBoundary(v), append([]byte(which), enc...), func() any {
			return map[string]any{"which": which, "v": v.Text(16)}
		})
		if len(enc) != 32 || ref.Int(enc).Cmp(v) != 0 {
			t.Fatalf("Bytes() of %x = %x", v, enc)
		}
		if str := e.String(); str != hex.EncodeToString(enc) {
			// the textual form is not part of the property (only the 32-byte encoding is): record, do not fail
			stat.Note("codec", "String() is not the lower-case hex of Bytes(): "+fmt.Sprintf("%.80q", str))
			_ = str
		}
		enc[0] ^= 0xff // mutating the returned slice must not affect the element
		if lib.FeInt(e).Cmp(v) != 0 {
			t.Fatal("Bytes() aliases internal state")
		}
	case "uint64":
		u := gen.Limb(t, "u")
		stat.Case("codec", classes, true, []byte(fmt.Sprintf("u64|%d", u)), func() any {
			return map[string]any{"which": which, "u": u}
		})
		if got := lib.FeInt(field.NewElementFromUint64(u)); got.Cmp(new(big.Int).SetUint64(u)) != 0 {
			t.Fatalf("NewElementFromUint64(%d) = %x", u, got)
		}
		// what a constructor returns is the caller's: small constants are built, updated in place, built again
		small := uint64(rapid.IntRange(0, 300).Draw(t, "small"))
		for _, v := range []uint64{u, small} {
			a := field.NewElementFromUint64(v)
			switch rapid.IntRange(0, 2).Draw(t, "update") {
			case 0:
				a.Add(a, field.NewElementFromUint64(v+1))
			case 1:
				a.Invert(a)
			default:
				a.Negate(a)
			}
			if got := lib.FeInt(field.NewElementFromUint64(v)); got.Cmp(new(big.Int).SetUint64(v)) != 0 {
				t.Fatalf("NewElementFromUint64(%d) = %x after an earlier result of the same call was updated in place", v, got)
			}
		}
	case "zero-one":
		stat.Case("codec", classes, false, []byte(which), nil)
		if r := fe.Zero(); r != fe || lib.FeInt(fe).Sign() != 0 || fe.IsZero() != 1 {
			t.Fatal("Zero()")
		}
		if r := fe.One(); r != fe || lib.FeInt(fe).Cmp(big.NewInt(1)) != 0 || fe.IsZero() != 0 || fe.IsOdd() != 1 {
			t.Fatal("One()")
		}
		if lib.FeInt(field.NewElement()).Sign() != 0 {
			t.Fatal("NewElement() != 0")
		}
		c := field.NewElementFrom(lib.Fe(prev))
		if lib.FeInt(c).Cmp(prev) != 0 {
			t.Fatal("NewElementFrom")
		}
	}
	checkInternal(t, fe)
}

func TestC01_Codec(t *testing.T) { rapid.Check(t, propCodec) }

// propMachine: a pool of elements mirrored by big.Int values; every step
// applies one operation with independently drawn receiver/argument slots
// (so every alias pattern occurs) and the invariant compares all slots.
func propMachine(t *rapid.T) {
	const slots = 4
	var (
		pool  [slots]*field.Element
		model [slots]*big.Int
	)
	for i := range pool {
		model[i] = gen.Int256(t, P, fmt.Sprintf("init%d", i))
		pool[i] = lib.Fe(model[i])
	}
	steps, aliased, fed := 0, 0, 0
	var trace []string
	slot := func(l string) int { return rapid.IntRange(0, slots-1).Draw(t, l) }
	rec := func(op string, r, a, b int) {
		steps++
		if r == a || r == b || a == b {
			aliased++
		}
		if len(trace) < 40 {
			trace = append(trace, fmt.Sprintf("%s r%d a%d b%d", op, r, a, b))
		}
	}
	t.Repeat(map[string]func(*rapid.T){
		"add": func(t *rapid.T) {
			r, a, b := slot("r"), slot("a"), slot("b")
			rec("add", r, a, b)
			w := ref.AddM(model[a], model[b], P)
			pool[r].Add(pool[a], pool[b])
			model[r] = w
		},
		"sub": func(t *rapid.T) {
			r, a, b := slot("r"), slot("a"), slot("b")
			rec("sub", r, a, b)
			w := ref.SubM(model[a], model[b], P)
			pool[r].Subtract(pool[a], pool[b])
			model[r] = w
		},
		"mul": func(t *rapid.T) {
			r, a, b := slot("r"), slot("a"), slot("b")
			rec("mul", r, a, b)
			w := ref.MulM(model[a], model[b], P)
			pool[r].Multiply(pool[a], pool[b])
			model[r] = w
		},
		"square": func(t *rapid.T) {
			r, a := slot("r"), slot("a")
			rec("square", r, a, -1)
			w := ref.MulM(model[a], model[a], P)
			pool[r].Square(pool[a])
			model[r] = w
		},
		"neg": func(t *rapid.T) {
			r, a := slot("r"), slot("a")
			rec("neg", r, a, -1)
			w := ref.NegM(model[a], P)
			pool[r].Negate(pool[a])
			model[r] = w
		},
		"invert": func(t *rapid.T) {
			r, a := slot("r"), slot("a")
			rec("invert", r, a, -1)
			w := ref.Inv0(model[a], P)
			pool[r].Invert(pool[a])
			model[r] = w
		},
		"sqrt": func(t *rapid.T) {
			r, a := slot("r"), slot("a")
			rec("sqrt", r, a, -1)
			in := model[a]
			_, flag := pool[r].Sqrt(pool[a])
			got := lib.FeInt(pool[r])
			if ref.IsSquareP(in) {
				if flag != 1 || ref.MulM(got, got, P).Cmp(in) != 0 {
					t.Fatalf("sqrt of square %x: flag %d result %x", in, flag, got)
				}
			} else if flag != 0 || got.Sign() != 0 {
				t.Fatalf("sqrt of non-square %x: flag %d result %x", in, flag, got)
			}
			model[r] = got // either root is acceptable; adopt the library's choice
		},
		"condsel": func(t *rapid.T) {
			r, a, b := slot("r"), slot("a"), slot("b")
			ctrl := gen.Ctrl(t, "ctrl")
			rec("condsel", r, a, b)
			w := model[a]
			if ctrl != 0 {
				w = model[b]
			}
			pool[r].ConditionalSelect(pool[a], pool[b], ctrl)
			model[r] = w
		},
		"condneg": func(t *rapid.T) {
			r, a := slot("r"), slot("a")
			ctrl := gen.Ctrl(t, "ctrl")
			rec("condneg", r, a, -1)
			w := model[a]
			if ctrl != 0 {
				w = ref.NegM(w, P)
			}
			pool[r].ConditionalNegate(pool[a], ctrl)
			model[r] = w
		},
		"pow2k": func(t *rapid.T) {
			r, a := slot("r"), slot("a")
			k := uint(rapid.IntRange(1, 40).Draw(t, "k"))
			rec("pow2k", r, a, -1)
			w := ref.ExpM(model[a], new(big.Int).Lsh(big.NewInt(1), k), P)
			pool[r].Pow2k(pool[a], k)
			model[r] = w
		},
		"reload": func(t *rapid.T) { // replace a slot by a solved partner of another slot
			r, a := slot("r"), slot("a")
			_, b, _ := gen.Pair(t, P, "reload")
			_ = a
			rec("reload", r, -1, -2)
			pool[r] = lib.Fe(b)
			model[r] = b
		},
		"roundtrip": func(t *rapid.T) { // feed an encoding back in
			r, a := slot("r"), slot("a")
			rec("roundtrip", r, a, -1)
			fed++
			enc := pool[a].Bytes()
			if _, err := pool[r].SetCanonicalBytes((*[32]byte)(enc)); err != nil {
				t.Fatalf("Bytes() of a live element is not canonical: %x", enc)
			}
			model[r] = model[a]
		},
		"": func(t *rapid.T) {
			for i := range pool {
				if got := lib.FeInt(pool[i]); got.Cmp(model[i]) != 0 {
					t.Fatalf("slot %d: got %x want %x (trace %v)", i, got, model[i], trace)
				}
				var wz, wo uint64
				if model[i].Sign() == 0 {
					wz = 1
				}
				wo = uint64(model[i].Bit(0))
				if pool[i].IsZero() != wz || pool[i].IsOdd() != wo {
					t.Fatalf("slot %d: IsZero/IsOdd disagree with model %x", i, model[i])
				}
				for j := range pool {
					var we uint64
					if model[i].Cmp(model[j]) == 0 {
						we = 1
					}
					if pool[i].Equal(pool[j]) != we {
						t.Fatalf("Equal(slot %d, slot %d) != %d", i, j, we)
					}
				}
				checkInternal(t, pool[i])
			}
		},
	})
	key := []byte(fmt.Sprint(trace, model))
	stat.Case("machine", []string{fmt.Sprintf("steps>=%d", steps/10*10)}, aliased > 0 && steps >= 5, key, func() any {
		return map[string]any{"steps": steps, "aliased_steps": aliased, "trace": trace}
	})
}

func TestC01_Machine(t *testing.T) { rapid.Check(t, propMachine) }

// propWide is the dedicated high-volume check of the wide reduction: inputs
// are residue + j*p with the residue next to limb boundaries / field
// boundaries and j up to the largest multiple that fits, for every length.
func propWide(t *rapid.T) {
	n := gen.WideLen(t, "wlen")
	var src []byte
	kind := "alias"
	var r, j *big.Int
	if rapid.IntRange(0, 2).Draw(t, "plain") == 0 {
		src, kind = wideBytes(t, n), "pattern"
	} else {
		src, r, j = gen.WideAlias(t, P, n, "w")
	}
	orig := append([]byte(nil), src...)
	v := ref.Int(src)
	want := ref.Mod(v, P)
	classes := []string{"kind:" + kind, fmt.Sprintf("widelen:%d", n)}
	top := 0
	for top < len(src) && src[top] == 0xff {
		top++
	}
	if top >= 2 {
		classes = append(classes, "top-bytes-all-ones")
	}
	if r != nil && j.Sign() > 0 {
		classes = append(classes, "proper-alias")
	}
	lowLimb := new(big.Int).And(want, new(big.Int).SetUint64(^uint64(0)))
	nearLimb := lowLimb.Cmp(big.NewInt(1<<33)) < 0 || lowLimb.Cmp(new(big.Int).SetUint64(^uint64(0)-(1<<33))) > 0
	if nearLimb {
		classes = append(classes, "residue-next-to-a-limb-boundary")
	}
	stat.Case("wide", classes, v.Cmp(P) >= 0 && (nearLimb || top >= 2 || (n != 32 && n != 48 && n != 64)), append([]byte{byte(n)}, src...), func() any {
		return map[string]any{"len": n, "src": hex.EncodeToString(src), "residue": want.Text(16)}
	})
	for _, rcv := range []*field.Element{field.NewElement(), lib.Fe(big.NewInt(7))} {
		if ret := rcv.SetWideBytes(src); ret != rcv {
			t.Fatal("SetWideBytes: returned pointer is not the receiver")
		}
		if got := lib.FeInt(rcv); got.Cmp(want) != 0 {
			t.Fatalf("SetWideBytes(len %d, %x): got %x want %x", n, src, got, want)
		}
		checkInternal(t, rcv)
	}
	if !bytes.Equal(src, orig) {
		t.Fatal("SetWideBytes modified its input")
	}
}

func TestC01_Wide(t *testing.T) { rapid.Check(t, propWide) }
