//go:build verif

package c01

import (
	"fmt"
	"math/big"
	"testing"

	"pgregory.net/rapid"

	"gitlab.com/yawning/secp256k1-voi/internal/field"
	"gitlab.com/yawning/secp256k1-voi/verifharness/gen"
	"gitlab.com/yawning/secp256k1-voi/verifharness/lib"
	"gitlab.com/yawning/secp256k1-voi/verifharness/ref"
	"gitlab.com/yawning/secp256k1-voi/verifharness/stat"
)

// checkInternal looks at the internal (Montgomery) representation.  A value
// that is not fully reduced is not by itself a violation of the property
// (which speaks about results and encodings), but it is exactly the state in
// which the limb-comparing observers drift, so it triggers the observable
// checks: the element must still be Equal to a freshly decoded element of the
// same value (both ways), and IsZero / IsOdd / Bytes must agree with the value.
func checkInternal(t *rapid.T, fe *field.Element) {
	raw := ref.FromLimbs(fe.VerifRawLimbs())
	if raw.Cmp(P) < 0 {
		return
	}
	stat.Note("ops", "a non-reduced internal representation was observed; observers were cross-checked")
	b := fe.Bytes()
	v := ref.Int(b)
	if v.Cmp(P) >= 0 {
		t.Fatalf("internal representation %x not reduced and Bytes() = %x is not canonical", raw, b)
	}
	fresh := lib.Fe(v)
	var wz, wo uint64
	if v.Sign() == 0 {
		wz = 1
	}
	wo = uint64(v.Bit(0))
	if fe.Equal(fresh) != 1 || fresh.Equal(fe) != 1 || fe.IsZero() != wz || fe.IsOdd() != wo {
		t.Fatalf("internal representation not reduced (%x) and the observers disagree with the value %x: Equal(fresh)=%d/%d IsZero=%d IsOdd=%d",
			raw, v, fe.Equal(fresh), fresh.Equal(fe), fe.IsZero(), fe.IsOdd())
	}
}

func propHooks(t *rapid.T) {
	which := gen.Sampled([]string{"pow3mod4", "setshort", "reducesat", "rawlimbs"}).Draw(t, "which")
	switch which {
	case "pow3mod4":
		a, _, kind := gen.Pair(t, P, "p")
		alias := rapid.Bool().Draw(t, "alias")
		stat.Case("hooks", []string{"hook:" + which, "pair:" + kind}, true, []byte(fmt.Sprintf("p3|%x|%v", a, alias)), func() any {
			return map[string]any{"which": which, "a": a.Text(16), "alias": alias}
		})
		ea := lib.Fe(a)
		er := field.NewElement()
		if alias {
			er = ea
		}
		er.VerifPow3Mod4(ea)
		e := new(big.Int).Rsh(new(big.Int).Sub(P, big.NewInt(3)), 2)
		if got, want := lib.FeInt(er), ref.ExpM(a, e, P); got.Cmp(want) != 0 {
			t.Fatalf("pow3mod4(%x) = %x want %x", a, got, want)
		}
		checkInternal(t, er)
	case "setshort":
		n := rapid.IntRange(0, 31).Draw(t, "n")
		src := gen.Bytes(t, n, n, "src")
		if rapid.Bool().Draw(t, "ones") {
			for i := range src {
				src[i] = 0xff
			}
		}
		stat.Case("hooks", []string{"hook:" + which, fmt.Sprintf("shortlen:%d", n)}, true, append([]byte("ss"), src...), func() any {
			return map[string]any{"which": which, "len": n, "src": stat.Hex(src)}
		})
		fe := lib.Fe(gen.Int256(t, P, "prev"))
		fe.VerifSetShortBytes(src)
		if got := lib.FeInt(fe); got.Cmp(ref.Int(src)) != 0 {
			t.Fatalf("setShortBytes(%x) = %x", src, got)
		}
		checkInternal(t, fe)
		if p := lib.Catch(func() { field.NewElement().VerifSetShortBytes(make([]byte, 32+rapid.IntRange(0, 3).Draw(t, "extra"))) }); p == nil {
			t.Fatal("setShortBytes accepted >= 32 bytes")
		}
	case "reducesat":
		src := gen.Bytes32Any(t, P, "src")
		v := ref.Int(src)
		in := ref.Limbs(v)
		alias := rapid.Bool().Draw(t, "alias")
		cl := []string{"hook:" + which}
		if v.Cmp(P) >= 0 {
			cl = append(cl, "non-canonical")
		}
		stat.Case("hooks", cl, v.Cmp(P) >= 0 || nearBoundary(v), append([]byte("rs"), src...), func() any {
			return map[string]any{"which": which, "src": stat.Hex(src), "alias": alias}
		})
		var out [4]uint64
		dst := &out
		if alias {
			dst = &in
		}
		flag := field.VerifReduceSaturated(dst, &in)
		var wantFlag uint64
		if v.Cmp(P) >= 0 {
			wantFlag = 1
		}
		if flag != wantFlag || ref.FromLimbs(*dst).Cmp(ref.Mod(v, P)) != 0 {
			t.Fatalf("reduceSaturated(%x): flag %d out %x", v, flag, ref.FromLimbs(*dst))
		}
	case "rawlimbs":
		a := gen.Int256(t, P, "a")
		stat.Case("hooks", []string{"hook:" + which}, nearBoundary(a), []byte(fmt.Sprintf("rl|%x", a)), nil)
		raw := ref.FromLimbs(lib.Fe(a).VerifRawLimbs())
		if raw.Cmp(ref.ToM(a, P)) != 0 {
			t.Fatalf("internal representation of %x is %x, want a*R mod p", a, raw)
		}
	}
}

func TestC01_Hooks(t *testing.T) { rapid.Check(t, propHooks) }
