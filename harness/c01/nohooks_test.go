//go:build !verif

package c01

import (
	"pgregory.net/rapid"

	"gitlab.com/yawning/secp256k1-voi/internal/field"
)

func checkInternal(_ *rapid.T, _ *field.Element) {}
