// Package c20: keys, points, scalars and the package-level tables are safe
// for concurrent read-only use.
//
// The package is built with -race.  A rapid-generated workload (a list of
// read-only operations over a small set of shared objects, partitioned over
// a drawn number of goroutines released by a barrier) is executed; the
// oracle is (1) the race detector stays silent and (2) every concurrent
// result equals the result of the same operation run alone before, and run
// alone again afterwards.
package c20

import (
	"bytes"
	"crypto"
	"encoding/hex"
	"errors"
	"fmt"
	"io"
	"math/big"
	"os"
	"os/exec"
	"runtime"
	"strconv"
	"strings"
	"sync"
	"testing"

	"pgregory.net/rapid"

	secp256k1 "gitlab.com/yawning/secp256k1-voi"
	"gitlab.com/yawning/secp256k1-voi/secec"
	"gitlab.com/yawning/secp256k1-voi/secec/bitcoin"
	"gitlab.com/yawning/secp256k1-voi/secec/h2c"
	"gitlab.com/yawning/secp256k1-voi/verifharness/gen"
	"gitlab.com/yawning/secp256k1-voi/verifharness/lib"
	"gitlab.com/yawning/secp256k1-voi/verifharness/ref"
	"gitlab.com/yawning/secp256k1-voi/verifharness/stat"
)

func TestMain(m *testing.M) { stat.Main(m) }

// env is the set of shared objects of one workload.
type env struct {
	priv  []*secec.PrivateKey
	pub   []*secec.PublicKey
	spriv []*bitcoin.SchnorrPrivateKey
	spub  []*bitcoin.SchnorrPublicKey
	pts   []*secp256k1.Point
	scs   []*secp256k1.Scalar
	dig   [][]byte
	sigs  [][]byte // ASN.1 signatures by priv[i] over dig[i]
	ssigs [][]byte // Schnorr signatures by spriv[i] over dig[i]
	dst   [][]byte // shared domain separation tags (two tags that share a prefix and a backing array)
	// longDst: tags over 255 bytes, used by the hash-to-curve operations whose C parameter is odd
	longDst [][]byte
	rs      [][3][]byte
	// operand lists that all goroutines hand to the multi-scalar routines as they are (the slices themselves are
	// shared read-only operands, not only the objects in them); a zero scalar and an identity point sit in the
	// middle.  shS0 / shP0 remember which objects the lists held when they were built.
	shS, shS0 []*secp256k1.Scalar
	shP, shP0 []*secp256k1.Point
}

// raw is the drawn material an env is built from; building twice gives two
// sets of equal but distinct objects.
type raw struct {
	d, sd []*big.Int
	dig   [][]byte
	pts   []ref.Pt
	scs   []*big.Int
}

func drawRaw(t *rapid.T) raw {
	var r raw
	for i := 0; i < 2; i++ {
		r.d = append(r.d, gen.NonZero256(t, ref.N, fmt.Sprintf("d%d", i)))
		r.sd = append(r.sd, gen.NonZero256(t, ref.N, fmt.Sprintf("sd%d", i)))
		r.dig = append(r.dig, gen.Bytes(t, 32, 32, fmt.Sprintf("digest%d", i)))
	}
	for i := 0; i < 3; i++ {
		r.pts = append(r.pts, gen.Point(t, fmt.Sprintf("P%d", i)).P)
		r.scs = append(r.scs, gen.Int256(t, ref.N, fmt.Sprintf("s%d", i)))
	}
	return r
}

type fataler interface{ Fatalf(string, ...any) }

// spare returns a copy of b with room to spare behind it: every byte slice
// the goroutines share is a sub-slice of a larger buffer, as slices cut out of
// network buffers, hex.DecodeString results or append-built tags are.  A callee
// that appends to a read-only operand then writes shared memory.
func spare(b []byte) []byte {
	buf := make([]byte, len(b), len(b)+24)
	copy(buf, b)
	return buf
}

// build creates fresh library objects from r.  Apart from the constructors
// (and one signing call per key to obtain signatures to verify) nothing has
// been called on them yet, so lazily initialised state inside an object is
// still untouched when the concurrent phase starts.
func build(t fataler, r raw, sigsFrom *env) *env {
	e := &env{}
	for i := 0; i < 2; i++ {
		k := lib.PrivKey(r.d[i])
		e.priv = append(e.priv, k)
		e.pub = append(e.pub, k.PublicKey())
		sk, err := bitcoin.NewSchnorrPrivateKey(ref.B32(r.sd[i]))
		if err != nil {
			t.Fatalf("schnorr key: %v", err)
		}
		e.spriv = append(e.spriv, sk)
		e.spub = append(e.spub, sk.PublicKey())
		e.dig = append(e.dig, spare(r.dig[i]))
	}
	tags := spare([]byte("verif-c20-dst/extended"))
	e.dst = [][]byte{tags[:13], tags} // "verif-c20-dst" and the longer tag, one backing array
	// two tags over 255 bytes (RFC 9380 shortens those by hashing them first: one more step with state of its
	// own), one a prefix of the other in the same backing array
	long := spare(bytes.Repeat([]byte("verif-c20-oversize-dst/"), 20))
	e.longDst = [][]byte{long[:300], long}
	for i := 0; i < 3; i++ {
		lp := lib.Pt(r.pts[i])
		if i == 1 { // a point in a non-trivial projective representation
			lp = secp256k1.NewIdentityPoint().Add(lp, secp256k1.NewGeneratorPoint())
		}
		e.pts = append(e.pts, lp)
		e.scs = append(e.scs, lib.Sc(r.scs[i]))
	}
	_ = sigsFrom
	e.shS = []*secp256k1.Scalar{e.scs[0], secp256k1.NewScalar(), e.scs[1], e.scs[2], e.scs[0]}
	e.shP = []*secp256k1.Point{e.pts[0], e.pts[1], secp256k1.NewIdentityPoint(), e.pts[2], e.pts[1]}
	e.shS0, e.shP0 = append([]*secp256k1.Scalar(nil), e.shS...), append([]*secp256k1.Point(nil), e.shP...)
	// The signatures the verify operations consume are made by the reference, so that setting up an
	// env never calls into the library's signing / hashing code (a lazily initialised package-level
	// cache must still be cold when the concurrent phase of a fresh process starts).
	for i := range e.priv {
		r, s, id, _ := ref.RFC6979Sign(r.d[i], e.dig[i])
		if ls, neg := ref.LowS(s); neg {
			s, id = ls, id^1
		}
		e.sigs = append(e.sigs, spare(ref.EncodeDERSig(r, s)))
		e.rs = append(e.rs, [3][]byte{ref.B32(r), ref.B32(s), {byte(id)}})
	}
	for i := range e.spriv {
		ss, ok := ref.BIP340Sign(r.sd[i], make([]byte, 32), e.dig[i])
		if !ok {
			t.Fatalf("reference schnorr sign failed")
		}
		e.ssigs = append(e.ssigs, spare(ss))
	}
	return e
}

type op struct {
	Kind    string
	A, B, C int
}

func (o op) String() string { return fmt.Sprintf("%s(%d,%d,%d)", o.Kind, o.A, o.B, o.C) }

var kinds = []string{
	"ecdsa.signraw.rfc6979", "ecdsa.sign.hedged", "ecdsa.verify", "ecdsa.verifyraw", "ecdsa.recover", "ecdsa.ecdh",
	"ecdsa.priv.accessors", "ecdsa.pub.accessors", "ecdsa.bitcoin.verifyasn1",
	"schnorr.sign", "schnorr.verify", "schnorr.accessors",
	"point.scalarmult", "point.basemult", "point.multimult", "point.multimult.vartime", "point.doublemult.vartime",
	"point.arith", "point.encode", "point.observe",
	"scalar.arith", "scalar.observe",
	"h2c.ro", "h2c.nu", "point.uniform",
	"keys.derive", "keys.schnorr.derive",
	// calls the library must refuse (they may leave pooled / cached state behind for the others), and
	// aliasing calls on goroutine-private objects (a contended fast path may fall back to a slower one)
	"rejected.calls", "private.alias",
	// a caller-supplied entropy source that panics inside Read; the caller recovers.  Whatever the library
	// holds across the call into the caller's code (a lock, a pooled buffer) must not stay held
	"reader.panics",
	// signing with the process-wide default entropy source (a nil reader): whatever sits between the library and
	// crypto/rand is shared by all goroutines.  The signatures differ from call to call; each must verify
	"sign.default-entropy",
	// a caller-supplied entropy source that runs dry / fails part-way through a signing call on a shared key
	// (the call must fail), after which the same key objects sign with a working source: the signature is the
	// function of (key, digest, entropy) it always is - what a pristine object of the same key returns
	"reader.fails",
	// the multi-scalar routines on operand lists that every goroutine passes as they are: the lists belong to
	// the caller and are read-only operands like the objects in them
	"point.multimult.shared-lists",
}

// selfCheckFailed prefixes the result of an operation whose own oracle failed (in whichever phase it ran).
const selfCheckFailed = "SELF-CHECK-FAILED: "

// dryReader delivers n bytes and then reports err (io.EOF when nil).
type dryReader struct {
	n   int
	err error
}

func (r *dryReader) Read(p []byte) (int, error) {
	if r.n <= 0 {
		if r.err != nil {
			return 0, r.err
		}
		return 0, io.EOF
	}
	n := r.n
	if n > len(p) {
		n = len(p)
	}
	for i := 0; i < n; i++ {
		p[i] = 0xa5
	}
	r.n -= n
	return n, nil
}

type panickingReader struct{ after int }

func (r *panickingReader) Read(p []byte) (int, error) {
	if r.after <= 0 {
		panic("entropy source panicked")
	}
	n := r.after
	if n > len(p) {
		n = len(p)
	}
	for i := 0; i < n; i++ {
		p[i] = 0x5a
	}
	r.after -= n
	return n, nil
}

// longList: list lengths of the multi-scalar operations by the op's C
// parameter (0: the two / three term call).  Batch verification is where
// these routines are used concurrently, and pooled or chunked scratch state
// only comes into play from some length on.
var longList = []int{0, 0, 32, 40, 70, 260}

// list builds an n-term list out of the shared scalars and points.
func (e *env) list(n, a, b int) ([]*secp256k1.Scalar, []*secp256k1.Point) {
	ss, ps := make([]*secp256k1.Scalar, n), make([]*secp256k1.Point, n)
	for i := range ss {
		ss[i], ps[i] = e.scs[(a+i)%3], e.pts[(b+i/3)%3]
	}
	return ss, ps
}

func b2(bs ...[]byte) []byte {
	var out []byte
	for _, b := range bs {
		out = append(out, byte(len(b)))
		out = append(out, b...)
	}
	return out
}

func flag(ok bool) []byte {
	if ok {
		return []byte{1}
	}
	return []byte{0}
}

// exec performs one read-only operation on the shared objects and renders
// its result.  All receivers are fresh; shared objects are only operands.
func (e *env) exec(o op) []byte {
	i, j, k := o.A%2, o.B%2, o.C%2
	a3, b3, c3 := o.A%3, o.B%3, o.C%3
	switch o.Kind {
	case "ecdsa.signraw.rfc6979":
		r, s, v, err := e.priv[i].SignRaw(secec.RFC6979SHA256(), e.dig[j])
		if err != nil {
			return []byte("error:" + err.Error())
		}
		return b2(r.Bytes(), s.Bytes(), []byte{v})
	case "ecdsa.sign.hedged":
		ent := bytes.Repeat([]byte{byte(o.C)}, 32)
		enc := secec.SignatureEncoding(o.C % 3)
		sig, err := e.priv[i].Sign(bytes.NewReader(ent), e.dig[j], &secec.ECDSAOptions{Hash: crypto.SHA256, Encoding: enc, SelfVerify: o.B%4 >= 2})
		if err != nil {
			return []byte("error:" + err.Error())
		}
		return sig
	case "ecdsa.verify":
		return flag(e.pub[i].Verify(e.dig[j], e.sigs[k], &secec.ECDSAOptions{Hash: crypto.SHA256, Encoding: secec.EncodingASN1, RejectMalleable: true}))
	case "ecdsa.verifyraw":
		return flag(e.pub[i].VerifyRaw(e.dig[j], lib.Sc(ref.Int(e.rs[k][0])), lib.Sc(ref.Int(e.rs[k][1]))))
	case "ecdsa.recover":
		q, err := secec.RecoverPublicKey(e.dig[j], lib.Sc(ref.Int(e.rs[k][0])), lib.Sc(ref.Int(e.rs[k][1])), e.rs[k][2][0]^byte(o.A%2))
		if err != nil {
			return []byte("error")
		}
		return q.CompressedBytes()
	case "ecdsa.ecdh":
		sec, err := e.priv[i].ECDH(e.pub[j])
		if err != nil {
			return []byte("error")
		}
		return sec
	case "ecdsa.priv.accessors":
		pk := e.priv[i].PublicKey()
		return b2(e.priv[i].Bytes(), e.priv[i].Scalar().Bytes(), pk.Bytes(), flag(e.priv[i].Equal(e.priv[j])))
	case "ecdsa.pub.accessors":
		p := e.pub[i]
		return b2(p.Bytes(), p.CompressedBytes(), p.ASN1Bytes(), p.Point().CompressedBytes(), flag(p.Equal(e.pub[j])))
	case "ecdsa.bitcoin.verifyasn1":
		sig := append(append([]byte(nil), e.sigs[k]...), 1)
		return flag(bitcoin.VerifyASN1(e.pub[i], e.dig[j], sig))
	case "schnorr.sign":
		aux := bytes.Repeat([]byte{byte(o.C)}, 32)
		sig, err := e.spriv[i].Sign(bytes.NewReader(aux), e.dig[j], nil)
		if err != nil {
			return []byte("error")
		}
		return sig
	case "schnorr.verify":
		return flag(e.spub[i].Verify(e.dig[j], e.ssigs[k]))
	case "schnorr.accessors":
		return b2(e.spriv[i].Bytes(), e.spriv[i].Scalar().Bytes(), e.spub[i].Bytes(), e.spub[i].Point().CompressedBytes(), e.spriv[i].PublicKey().Bytes(), flag(e.spub[i].Equal(e.spub[j])))
	case "point.scalarmult":
		return secp256k1.NewIdentityPoint().ScalarMult(e.scs[a3], e.pts[b3]).CompressedBytes()
	case "point.basemult":
		return secp256k1.NewIdentityPoint().ScalarBaseMult(e.scs[a3]).CompressedBytes()
	case "point.multimult":
		if n := longList[o.C%len(longList)]; n > 0 {
			ss, ps := e.list(n, o.A, o.B)
			return secp256k1.NewIdentityPoint().MultiScalarMult(ss, ps).CompressedBytes()
		}
		return secp256k1.NewIdentityPoint().MultiScalarMult([]*secp256k1.Scalar{e.scs[a3], e.scs[b3], e.scs[c3]}, []*secp256k1.Point{e.pts[c3], e.pts[a3], e.pts[b3]}).CompressedBytes()
	case "point.multimult.vartime":
		if n := longList[o.C%len(longList)]; n > 0 {
			ss, ps := e.list(n, o.A, o.B)
			return secp256k1.NewIdentityPoint().MultiScalarMultVartime(ss, ps).CompressedBytes()
		}
		return secp256k1.NewIdentityPoint().MultiScalarMultVartime([]*secp256k1.Scalar{e.scs[a3], e.scs[b3]}, []*secp256k1.Point{e.pts[c3], e.pts[a3]}).CompressedBytes()
	case "point.doublemult.vartime":
		return secp256k1.NewIdentityPoint().DoubleScalarMultBasepointVartime(e.scs[a3], e.scs[b3], e.pts[c3]).CompressedBytes()
	case "point.arith":
		r := secp256k1.NewIdentityPoint().Add(e.pts[a3], e.pts[b3])
		r.Subtract(r, e.pts[c3])
		d := secp256k1.NewIdentityPoint().Double(e.pts[a3])
		n := secp256k1.NewIdentityPoint().Negate(e.pts[b3])
		cs := secp256k1.NewIdentityPoint().ConditionalSelect(e.pts[a3], e.pts[b3], uint64(o.C%2))
		return b2(r.CompressedBytes(), d.CompressedBytes(), n.CompressedBytes(), cs.CompressedBytes(), secp256k1.NewPointFrom(e.pts[c3]).CompressedBytes())
	case "point.encode":
		x, _ := e.pts[a3].XBytes()
		return b2(e.pts[a3].CompressedBytes(), e.pts[a3].UncompressedBytes(), x)
	case "point.observe":
		out := []byte{byte(e.pts[a3].Equal(e.pts[b3])), byte(e.pts[a3].IsIdentity())}
		if e.pts[a3].IsIdentity() == 0 {
			out = append(out, byte(e.pts[a3].IsYOdd()))
		}
		return out
	case "scalar.arith":
		r := secp256k1.NewScalar().Add(e.scs[a3], e.scs[b3])
		r.Multiply(r, e.scs[c3])
		inv := secp256k1.NewScalar().Invert(e.scs[a3])
		sum := secp256k1.NewScalar().Sum(e.scs[a3], e.scs[b3], e.scs[c3])
		return b2(r.Bytes(), inv.Bytes(), sum.Bytes(), secp256k1.NewScalarFrom(e.scs[b3]).Bytes())
	case "scalar.observe":
		return []byte{byte(e.scs[a3].Equal(e.scs[b3])), byte(e.scs[a3].IsZero()), byte(e.scs[a3].IsGreaterThanHalfN()), e.scs[c3].Bytes()[31]}
	case "sign.default-entropy":
		var out []byte
		sig, err := e.priv[i].Sign(nil, e.dig[j], &secec.ECDSAOptions{Hash: crypto.SHA256, Encoding: secec.EncodingCompact})
		out = append(out, flag(err == nil && e.priv[i].PublicKey().Verify(e.dig[j], sig, &secec.ECDSAOptions{Hash: crypto.SHA256, Encoding: secec.EncodingCompact, RejectMalleable: true}))...)
		r, sc, _, err := e.priv[j].SignRaw(nil, e.dig[k])
		out = append(out, flag(err == nil && e.priv[j].PublicKey().VerifyRaw(e.dig[k], r, sc))...)
		ssig, err := e.spriv[i].Sign(nil, e.dig[j], nil)
		out = append(out, flag(err == nil && e.spriv[i].PublicKey().Verify(e.dig[j], ssig))...)
		return out
	case "point.multimult.shared-lists":
		r := secp256k1.NewIdentityPoint()
		if o.C%2 == 0 {
			r.MultiScalarMultVartime(e.shS, e.shP)
		} else {
			r.MultiScalarMult(e.shS, e.shP)
		}
		for x := range e.shS0 {
			if e.shS[x] != e.shS0[x] || e.shP[x] != e.shP0[x] {
				return []byte(selfCheckFailed + fmt.Sprintf("element %d of the operand lists passed to MultiScalarMult[Vartime] is another object than before the call: the routine rearranged its caller's slices", x))
			}
		}
		return r.CompressedBytes()
	case "reader.fails":
		var out []byte
		_, err := e.priv[i].Sign(&dryReader{n: (o.C*7 + o.A) % 32}, e.dig[j], nil)
		out = append(out, flag(err != nil)...)
		_, _, _, err = e.priv[j].SignRaw(&dryReader{n: (o.B*6 + o.C) % 32, err: errors.New("entropy source failed")}, e.dig[i])
		out = append(out, flag(err != nil)...)
		_, err = e.spriv[i].Sign(&dryReader{n: (o.A*6 + o.B) % 32}, e.dig[j], nil)
		out = append(out, flag(err != nil)...)
		ent := bytes.Repeat([]byte{byte(0x30 + o.C)}, 32)
		for _, k := range []*secec.PrivateKey{e.priv[i], e.priv[j]} {
			sig, err := k.Sign(bytes.NewReader(ent), e.dig[j], nil)
			pristine, err2 := secec.NewPrivateKey(k.Bytes())
			if err != nil || err2 != nil {
				return []byte(selfCheckFailed + fmt.Sprintf("Sign / NewPrivateKey failed after a failed entropy source: %v / %v", err, err2))
			}
			want, err := pristine.Sign(bytes.NewReader(ent), e.dig[j], nil)
			if err != nil || !bytes.Equal(sig, want) {
				return []byte(selfCheckFailed + fmt.Sprintf("a key object on which an earlier signing call ran out of entropy signs %x with entropy %x over %x, a pristine object of the same key signs %x (err=%v)", sig, ent, e.dig[j], want, err))
			}
			out = append(out, sig...)
		}
		ssig, err := e.spriv[i].Sign(bytes.NewReader(ent), e.dig[j], nil)
		spristine, err2 := bitcoin.NewSchnorrPrivateKey(e.spriv[i].Bytes())
		if err != nil || err2 != nil {
			return []byte(selfCheckFailed + fmt.Sprintf("Schnorr Sign / key import failed after a failed aux source: %v / %v", err, err2))
		}
		swant, err := spristine.Sign(bytes.NewReader(ent), e.dig[j], nil)
		if err != nil || !bytes.Equal(ssig, swant) {
			return []byte(selfCheckFailed + fmt.Sprintf("a Schnorr key object on which an earlier signing call ran out of aux bytes signs %x, a pristine object of the same key signs %x (err=%v)", ssig, swant, err))
		}
		return append(out, ssig...)
	case "reader.panics":
		var out []byte
		try := func(f func()) {
			out = append(out, flag(lib.Catch(f) != nil)...)
		}
		try(func() { _, _ = e.priv[i].Sign(&panickingReader{after: o.C * 5}, e.dig[j], nil) })
		try(func() { _, _, _, _ = e.priv[j].SignRaw(&panickingReader{after: o.B * 6}, e.dig[i]) })
		try(func() { _, _ = e.spriv[i].Sign(&panickingReader{after: o.A * 6}, e.dig[j], nil) })
		// and the keys go on working
		sig, err := e.spriv[i].Sign(bytes.NewReader(bytes.Repeat([]byte{byte(o.C)}, 32)), e.dig[j], nil)
		out = append(out, flag(err == nil)...)
		out = append(out, sig...)
		sig, err = e.priv[i].Sign(bytes.NewReader(bytes.Repeat([]byte{byte(o.B)}, 32)), e.dig[j], nil)
		out = append(out, flag(err == nil)...)
		return append(out, sig...)
	case "rejected.calls":
		var out []byte
		rej := func(refused bool) {
			out = append(out, flag(refused)...)
		}
		_, err := h2c.Secp256k1_XMD_SHA256_SSWU_RO(nil, e.dig[i])
		rej(err != nil)
		_, err = h2c.Secp256k1_XMD_SHA256_SSWU_NU([]byte{}, e.dig[j])
		rej(err != nil)
		twist := append([]byte{2}, make([]byte, 31)...)
		twist = append(twist, 5) // x = 5: x^3 + 7 is not a square
		_, err = secec.NewPublicKey(twist)
		rej(err != nil)
		_, err = secp256k1.NewPointFromBytes(twist)
		rej(err != nil)
		_, err = secec.ParseASN1PublicKey(e.dig[i])
		rej(err != nil)
		_, err = secec.NewPrivateKey(make([]byte, 32))
		rej(err != nil)
		_, err = e.priv[i].Sign(bytes.NewReader(bytes.Repeat([]byte{byte(o.C)}, 32)), e.dig[j][:31], nil)
		rej(err != nil)
		_, _, _, err = e.priv[i].SignRaw(bytes.NewReader(nil), e.dig[j]) // entropy source drained
		rej(err != nil)
		rej(!e.pub[i].VerifyRaw(e.dig[j][:31], e.scs[a3], e.scs[b3]))
		rej(!e.pub[i].Verify(e.dig[j], e.dig[i], nil)) // not a DER signature
		_, err = secec.RecoverPublicKey(e.dig[j], e.scs[a3], e.scs[b3], 7)
		rej(err != nil)
		_, err = bitcoin.NewSchnorrPublicKey(twist[1:])
		rej(err != nil)
		rej(!e.spub[i].Verify(e.dig[j], e.dig[i])) // 32-byte "signature"
		return out
	case "private.alias":
		// this goroutine's own objects, used as receiver and operand at once
		R := secp256k1.NewPointFrom(e.pts[c3])
		R.DoubleScalarMultBasepointVartime(e.scs[a3], e.scs[b3], R)
		S := secp256k1.NewPointFrom(e.pts[a3])
		S.ScalarMult(e.scs[c3], S)
		T := secp256k1.NewPointFrom(e.pts[b3])
		T.MultiScalarMultVartime([]*secp256k1.Scalar{e.scs[a3], e.scs[b3]}, []*secp256k1.Point{T, e.pts[c3]})
		U := secp256k1.NewPointFrom(e.pts[b3])
		U.Add(U, U).Subtract(U, e.pts[a3])
		k := secp256k1.NewScalarFrom(e.scs[a3])
		k.Multiply(k, k).Add(k, e.scs[b3])
		return b2(R.CompressedBytes(), S.CompressedBytes(), T.CompressedBytes(), U.CompressedBytes(), k.Bytes())
	case "h2c.ro":
		tag := e.dst[j]
		if o.C%2 == 1 {
			tag = e.longDst[j]
		}
		p, err := h2c.Secp256k1_XMD_SHA256_SSWU_RO(tag, e.dig[i])
		if err != nil {
			return []byte("error")
		}
		return p.CompressedBytes()
	case "h2c.nu":
		tag := e.dst[j]
		if o.C%2 == 1 {
			tag = e.longDst[j]
		}
		p, err := h2c.Secp256k1_XMD_SHA256_SSWU_NU(tag, e.dig[i])
		if err != nil {
			return []byte("error")
		}
		return p.CompressedBytes()
	case "point.uniform":
		src := append(append([]byte(nil), e.dig[i]...), e.dig[j][:16]...)
		return secp256k1.NewIdentityPoint().SetUniformBytes(src).CompressedBytes()
	case "keys.derive":
		k2, err := secec.NewPrivateKeyFromScalar(e.priv[i].Scalar())
		if err != nil {
			return []byte("error")
		}
		p2, err := secec.NewPublicKeyFromPoint(e.pub[j].Point())
		if err != nil {
			return []byte("error")
		}
		p3, err := secec.ParseASN1PublicKey(e.pub[j].ASN1Bytes())
		if err != nil {
			return []byte("error")
		}
		return b2(k2.PublicKey().CompressedBytes(), p2.CompressedBytes(), p3.CompressedBytes())
	case "keys.schnorr.derive":
		sk := bitcoin.NewSchnorrPrivateKeyFromECDSA(e.priv[i])
		pk := bitcoin.NewSchnorrPublicKeyFromECDSA(e.pub[j])
		pk2, err := bitcoin.NewSchnorrPublicKeyFromPoint(e.pub[j].Point())
		if err != nil {
			return []byte("error")
		}
		return b2(sk.PublicKey().Bytes(), pk.Bytes(), pk2.Bytes())
	}
	panic("unknown op kind " + o.Kind)
}

func drawOps(t *rapid.T, minKinds, maxKinds int) []op {
	n := rapid.IntRange(24, 96).Draw(t, "nops")
	// a workload focuses on a few kinds so that the same objects are hit by different operations at once
	nk := rapid.IntRange(minKinds, maxKinds).Draw(t, "nkinds")
	var ks []string
	for i := 0; i < nk; i++ {
		ks = append(ks, gen.Sampled(kinds).Draw(t, fmt.Sprintf("kind%d", i)))
	}
	return drawOpsOf(t, n, ks)
}

func drawOpsOf(t *rapid.T, n int, ks []string) []op {
	ops := make([]op, n)
	for i := range ops {
		ops[i] = op{Kind: ks[rapid.IntRange(0, len(ks)-1).Draw(t, "k")], A: rapid.IntRange(0, 5).Draw(t, "a"), B: rapid.IntRange(0, 5).Draw(t, "b"), C: rapid.IntRange(0, 5).Draw(t, "c")}
	}
	return ops
}

func propWorkload(t *rapid.T) { workload(t, false) }

// workload runs one generated workload.  coldStart=false: every operation is
// first run alone on a twin set of objects (so package-level state is warm but
// the shared objects themselves are untouched), then concurrently, then alone
// again.  coldStart=true (fresh child process): the concurrent phase is the
// very first use of the library in the process, the sequential runs follow.
func workload(t *rapid.T, coldStart bool) {
	material := drawRaw(t)
	var alone *env
	if !coldStart {
		alone = build(t, material, nil) // used for the sequential baseline only
	}
	e := build(t, material, alone) // objects that nothing has touched yet: used concurrently
	var ops []op
	var g int
	if coldStart {
		// A first-use race (a lazily filled package-level cache) is one early write against later reads.
		// The detector keeps only the last few accesses per memory word, so the write is forgotten once
		// several goroutines have read the word: such races are found by *small* workloads -- a handful of
		// operations of one or two kinds on two to four goroutines -- repeated in many fresh processes,
		// not by large ones.  The parent cycles the focus kind over all operation kinds.
		ks := []string{kinds[rapid.IntRange(0, len(kinds)-1).Draw(t, "focus")]}
		if f, err := strconv.Atoi(os.Getenv("VERIF_C20_FOCUS")); err == nil {
			ks[0] = kinds[f%len(kinds)]
		}
		if rapid.IntRange(0, 2).Draw(t, "second-kind") == 0 {
			ks = append(ks, gen.Sampled(kinds).Draw(t, "kind2"))
		}
		g = rapid.IntRange(2, 4).Draw(t, "goroutines")
		if startProcs := runtime.GOMAXPROCS(0); startProcs <= 2 && rapid.Bool().Draw(t, "oversubscribe") {
			g = 3*startProcs + 3 // more goroutines in flight than the process was started with processors
		}
		ops = drawOpsOf(t, g*rapid.IntRange(1, 3).Draw(t, "ops-per-goroutine"), ks)
	} else if rapid.IntRange(0, 3).Draw(t, "contended") == 0 {
		// contention: several times more goroutines than processors, nearly all inside the same expensive
		// routine, a few doing aliasing calls on objects of their own.  Code that bounds its helpers by the
		// processor count (worker slots, try-lock fast paths) takes its fallback branch only here.
		heavy := gen.Sampled([]string{"ecdsa.verify", "ecdsa.verifyraw", "ecdsa.recover", "schnorr.verify", "ecdsa.bitcoin.verifyasn1",
			"point.doublemult.vartime", "point.multimult.vartime", "point.scalarmult", "ecdsa.sign.hedged", "schnorr.sign", "h2c.ro"}).Draw(t, "heavy")
		g = 3*runtime.GOMAXPROCS(0) + 2
		if g > 64 {
			g = 64
		}
		ops = drawOpsOf(t, 3*g, []string{heavy, heavy, heavy, "private.alias"})
	} else if rapid.IntRange(0, 2).Draw(t, "small") == 0 {
		// small workloads on fresh objects: first-use races inside an object (see above)
		ks := []string{gen.Sampled(kinds).Draw(t, "kind0")}
		if rapid.Bool().Draw(t, "second-kind") {
			ks = append(ks, gen.Sampled(kinds).Draw(t, "kind1"))
		}
		g = rapid.IntRange(2, 4).Draw(t, "goroutines")
		ops = drawOpsOf(t, g*rapid.IntRange(1, 3).Draw(t, "ops-per-goroutine"), ks)
	} else {
		ops = drawOps(t, 2, 6)
		g = gen.Sampled([]int{2, 3, 4, 8, 16, 32}).Draw(t, "goroutines")
	}
	procs := gen.Sampled([]int{2, 4, 16}).Draw(t, "gomaxprocs")
	yield := rapid.Bool().Draw(t, "gosched")
	// record the workload so that a race report (which halts the process) can be tied to it
	desc := fmt.Sprintf("goroutines=%d gomaxprocs=%d gosched=%v ops=%v", g, procs, yield, ops)
	if p := os.Getenv("VERIF_C20_CURRENT"); p != "" {
		_ = os.WriteFile(p, []byte(desc+"\n"), 0o644)
	}
	// 1. every operation alone
	want := make([][]byte, len(ops))
	if !coldStart {
		for i, o := range ops {
			want[i] = alone.exec(o)
		}
	}
	// 2. concurrently
	old := runtime.GOMAXPROCS(procs)
	defer runtime.GOMAXPROCS(old)
	got := make([][]byte, len(ops))
	var wg sync.WaitGroup
	start := make(chan struct{})
	for w := 0; w < g; w++ {
		wg.Add(1)
		go func(w int) {
			defer wg.Done()
			<-start
			for i := w; i < len(ops); i += g {
				got[i] = e.exec(ops[i])
				if yield {
					runtime.Gosched()
				}
			}
		}(w)
	}
	close(start)
	if returned, _, stuck := lib.Watch(wg.Wait); !returned {
		t.Fatalf("the concurrent phase never ends: every goroutine still inside the library is parked and nobody is left to wake them\n  waiting: %s\n  workload: %s", stuck, desc)
	}
	if coldStart {
		alone = build(t, material, nil)
		for i, o := range ops {
			want[i] = alone.exec(o)
		}
	}
	kindsUsed := map[string]bool{}
	for i, o := range ops {
		kindsUsed[o.Kind] = true
		for _, res := range [][]byte{got[i], want[i]} {
			if bytes.HasPrefix(res, []byte(selfCheckFailed)) {
				t.Fatalf("operation %v: %s\n  workload: %s", o, res, desc)
			}
		}
		if !bytes.Equal(got[i], want[i]) {
			t.Fatalf("operation %v returned %x when run concurrently but %x when run alone\n  workload: %s", o, got[i], want[i], desc)
		}
	}
	// 3. alone again: the shared objects were not changed by concurrent use
	for i, o := range ops {
		if again := e.exec(o); !bytes.Equal(again, want[i]) {
			t.Fatalf("operation %v returns %x after the concurrent phase but returned %x before it\n  workload: %s", o, again, want[i], desc)
		}
	}
	cl := []string{fmt.Sprintf("goroutines:%d", g), fmt.Sprintf("gomaxprocs:%d", procs)}
	for k := range kindsUsed {
		cl = append(cl, "op:"+k)
	}
	sub := "workload"
	if coldStart {
		sub = "cold-start-workload"
	}
	stat.Case(sub, cl, len(kindsUsed) >= 2 && g >= 2, []byte(desc), func() any {
		var os []string
		for _, o := range ops {
			os = append(os, o.String())
		}
		return map[string]any{"goroutines": g, "gomaxprocs": procs, "gosched": yield, "ops": strings.Join(os, " ")}
	})
}

func TestC20_Workload(t *testing.T) { rapid.Check(t, propWorkload) }

// ---- fresh-process fan-out: table initialisation is complete before any call ----

var fanoutScalars = []string{
	"0000000000000000000000000000000000000000000000000000000000000001",
	"f0f0f0f0f0f0f0f0f0f0f0f0f0f0f0f0f0f0f0f0f0f0f0f0f0f0f0f0f0f0f0f0",
	"00ff00ff00ff00ff00ff00ff00ff00ff00ff00ff00ff00ff00ff00ff00ff00ff",
	"7fffffffffffffffffffffffffffffff5d576e7357a4501ddfe92f46681b20a0",
}

// TestC20_FanoutChild is the body of the child process: its very first use
// of the library is 32 goroutines entering the table-using entry points at
// once.  It only runs when started by TestC20_FreshProcess.
func TestC20_FanoutChild(t *testing.T) {
	if os.Getenv("VERIF_C20_CHILD") == "workload" {
		// the first library use of this process is the concurrent phase of one generated workload
		rapid.Check(t, func(t *rapid.T) { workload(t, true) })
		return
	}
	if os.Getenv("VERIF_C20_CHILD") != "1" {
		t.Skip("only runs as a child of TestC20_FreshProcess")
	}
	const n = 32
	res := make([]string, n)
	var wg sync.WaitGroup
	start := make(chan struct{})
	for w := 0; w < n; w++ {
		wg.Add(1)
		go func(w int) {
			defer wg.Done()
			sb, _ := hex.DecodeString(fanoutScalars[w%len(fanoutScalars)])
			<-start
			s, _ := secp256k1.NewScalarFromCanonicalBytes((*[32]byte)(sb))
			var p *secp256k1.Point
			switch (w / len(fanoutScalars)) % 4 {
			case 0:
				p = secp256k1.NewIdentityPoint().ScalarBaseMult(s)
			case 1:
				p = secp256k1.NewIdentityPoint().DoubleScalarMultBasepointVartime(s, secp256k1.NewScalar(), secp256k1.NewGeneratorPoint())
			case 2:
				p = secp256k1.NewIdentityPoint().ScalarMult(s, secp256k1.NewGeneratorPoint())
			default:
				k, err := secec.NewPrivateKey(sb)
				if err != nil {
					res[w] = "error"
					return
				}
				p = k.PublicKey().Point()
			}
			res[w] = hex.EncodeToString(p.CompressedBytes())
		}(w)
	}
	close(start)
	wg.Wait()
	for w := 0; w < n; w++ {
		sb, _ := hex.DecodeString(fanoutScalars[w%len(fanoutScalars)])
		want := hex.EncodeToString(ref.BaseMul(new(big.Int).SetBytes(sb)).Compressed())
		if res[w] != want {
			t.Fatalf("goroutine %d (first use of the library in this process): got %s want %s", w, res[w], want)
		}
	}
	// hash-to-curve and signing right after
	p, err := h2c.Secp256k1_XMD_SHA256_SSWU_RO([]byte("dst"), []byte("msg"))
	if err != nil || p.IsIdentity() != 0 {
		t.Fatalf("h2c in fresh process: %v", err)
	}
}

// TestC20_FreshProcess starts fresh processes of this (race-enabled) test
// binary whose first library use is the concurrent fan-out above.
func TestC20_FreshProcess(t *testing.T) {
	n := 4 * len(kinds) * 4 / 3 // 3 of every 4 children are workloads: 4 rounds over all kinds
	if os.Getenv("VERIF_TIER") == "thorough" {
		n *= 12
	}
	base, _ := strconv.ParseUint(os.Getenv("VERIF_RAPID_SEED"), 10, 64)
	if base == 0 {
		base = 1
	}
	type result struct {
		i     int
		mode  string
		args  []string
		focus int
		procs int
		out   string
		err   error
	}
	results := make([]result, n)
	var wg sync.WaitGroup
	sem := make(chan struct{}, 8)
	focus := 0
	for i := 0; i < n; i++ {
		r := result{i: i, mode: "workload", procs: []int{16, 4, 2, 64, 7, 128, 1, 32}[i%8], focus: -1}
		if i%4 == 3 {
			r.mode = "1"
		} else {
			r.focus = focus
			focus++
			r.args = []string{"-rapid.checks=1", fmt.Sprintf("-rapid.seed=%d", (base+uint64(i)*0x9e3779b97f4a7c15)|1), "-rapid.nofailfile"}
		}
		results[i] = r
		wg.Add(1)
		sem <- struct{}{}
		go func(r *result) {
			defer wg.Done()
			defer func() { <-sem }()
			cmd := exec.Command(os.Args[0], append([]string{"-test.run", "^TestC20_FanoutChild$", "-test.count=1", "-test.v"}, r.args...)...)
			cmd.Env = append(os.Environ(), "VERIF_C20_CHILD="+r.mode, "VERIF_STATS=", "VERIF_C20_CURRENT=", fmt.Sprintf("GOMAXPROCS=%d", r.procs), fmt.Sprintf("VERIF_C20_FOCUS=%d", r.focus))
			out, err := cmd.CombinedOutput()
			r.out, r.err = string(out), err
		}(&results[i])
	}
	wg.Wait()
	for _, r := range results {
		what := fmt.Sprintf("child %d (mode %s, focus %d, args %v, GOMAXPROCS %d)", r.i, r.mode, r.focus, r.args, r.procs)
		if r.focus >= 0 {
			what += " focus kind " + kinds[r.focus%len(kinds)]
		}
		if strings.Contains(r.out, "DATA RACE") {
			t.Fatalf("data race on first concurrent use of the library in a fresh process, %s:\n%s", what, r.out)
		}
		if r.err != nil || !strings.Contains(r.out, "--- PASS: TestC20_FanoutChild") {
			if strings.Contains(r.out, "--- FAIL") || strings.Contains(r.out, "fatal error:") || strings.Contains(r.out, "panic:") {
				t.Fatalf("fresh-process %s failed:\n%s", what, r.out)
			}
			t.Fatalf("HARNESS-INCONCLUSIVE: child process: %v\n%s", r.err, r.out)
		}
		cl := []string{"mode:table-fanout", fmt.Sprintf("gomaxprocs:%d", r.procs)}
		if r.focus >= 0 {
			cl = []string{"mode:cold-start-workload", "focus:" + kinds[r.focus%len(kinds)], fmt.Sprintf("gomaxprocs:%d", r.procs)}
		}
		stat.Case("fresh-process", cl, true, []byte(what), func() any {
			return map[string]any{"child": r.i, "mode": r.mode, "focus": r.focus, "args": r.args}
		})
	}
}
