//go:build verif && linux

package c17

import (
	"fmt"
	"os"
	"runtime/debug"
	"syscall"
	"testing"
	"unsafe"

	secp256k1 "gitlab.com/yawning/secp256k1-voi"
	"gitlab.com/yawning/secp256k1-voi/verifharness/stat"
)

// Observable (c): which table entries a secret-indexed lookup touches.  The
// block counters and the index trace cannot look inside the SSE2 routines,
// so the lookup is run (through a hook) on a table placed across a page
// boundary with one side of the boundary made inaccessible: the call faults
// iff it touches an entry on that side.  Moving the boundary over all 14
// entry gaps and protecting either side yields, for every index, the lowest
// and the highest entry read.  A secret-independent scan reads entries 0..14
// for every index; an indexed load, or a scan that stops at the index, does
// not.  Exhaustive over idx x boundary x side, in whichever build the test
// binary is (the driver runs it for the assembly and the purego build).

type guarded struct {
	mem  []byte
	page int
}

func newGuarded(t *testing.T) *guarded {
	page := os.Getpagesize()
	mem, err := syscall.Mmap(-1, 0, 4*page, syscall.PROT_READ|syscall.PROT_WRITE, syscall.MAP_ANON|syscall.MAP_PRIVATE)
	if err != nil {
		t.Fatalf("HARNESS-INCONCLUSIVE: mmap: %v", err)
	}
	return &guarded{mem, page}
}

func (g *guarded) close() { _ = syscall.Munmap(g.mem) }

// place copies a table image so that byte `split` of it sits exactly on the
// boundary between page 1 and page 2, and protects pages [2,3] (high=true)
// or pages [0,1] (high=false).  It returns the table address.
func (g *guarded) place(t *testing.T, img []byte, split int, high bool) unsafe.Pointer {
	if err := syscall.Mprotect(g.mem, syscall.PROT_READ|syscall.PROT_WRITE); err != nil {
		t.Fatalf("HARNESS-INCONCLUSIVE: mprotect: %v", err)
	}
	for i := range g.mem {
		g.mem[i] = 0
	}
	start := 2*g.page - split
	if start < 0 || start+len(img) > len(g.mem) {
		t.Fatalf("HARNESS-INCONCLUSIVE: table does not fit the guard area")
	}
	copy(g.mem[start:], img)
	var err error
	if high {
		err = syscall.Mprotect(g.mem[2*g.page:], syscall.PROT_NONE)
	} else {
		err = syscall.Mprotect(g.mem[:2*g.page], syscall.PROT_NONE)
	}
	if err != nil {
		t.Fatalf("HARNESS-INCONCLUSIVE: mprotect: %v", err)
	}
	return unsafe.Pointer(&g.mem[start])
}

func faults(f func()) (faulted bool) {
	old := debug.SetPanicOnFault(true)
	defer debug.SetPanicOnFault(old)
	defer func() {
		if r := recover(); r != nil {
			faulted = true
		}
	}()
	f()
	return false
}

func TestC17_LookupAccessRange(t *testing.T) {
	projTable, projEntry, affTable, affEntry := secp256k1.VerifTableLayout()
	g := newGuarded(t)
	defer g.close()
	build := os.Getenv("VERIF_BUILD")
	for _, tc := range []struct {
		name         string
		table, entry int
		call         func(p unsafe.Pointer, idx uint64)
	}{
		{"lookupProjectivePoint", int(projTable), int(projEntry), secp256k1.VerifLookupProjectiveAt},
		{"lookupAffinePoint", int(affTable), int(affEntry), secp256k1.VerifLookupAffineAt},
	} {
		if tc.table != 15*tc.entry {
			t.Fatalf("HARNESS-INCONCLUSIVE: unexpected table layout for %s: %d bytes, entry %d", tc.name, tc.table, tc.entry)
		}
		img := make([]byte, tc.table) // all-zero limbs are fine: the lookup only moves data
		// self-check of the observable: with nothing protected beyond the table the call must not fault,
		// and with the whole table protected it must.
		p := g.place(t, img, tc.table, true) // table entirely below the boundary
		if faults(func() { tc.call(p, 7) }) {
			t.Fatalf("HARNESS-INCONCLUSIVE: %s faults although its whole table is accessible (it reads outside the table?)", tc.name)
		}
		p = g.place(t, img, 0, true) // table entirely above the boundary (protected)
		if !faults(func() { tc.call(p, 7) }) {
			t.Fatalf("HARNESS-INCONCLUSIVE: %s does not fault on a fully protected table", tc.name)
		}
		for idx := uint64(0); idx <= 15; idx++ {
			lowest, highest := 15, -1
			for k := 1; k <= 14; k++ { // boundary between entries k-1 and k
				pHigh := g.place(t, img, k*tc.entry, true)
				if faults(func() { tc.call(pHigh, idx) }) && 14 > highest {
					// touched some entry >= k
					if k > highest {
						highest = k
					}
				}
				pLow := g.place(t, img, k*tc.entry, false)
				if faults(func() { tc.call(pLow, idx) }) {
					// touched some entry <= k-1
					if k-1 < lowest {
						lowest = k - 1
					}
				}
			}
			// refine: highest = largest k whose upper side faulted; lowest = smallest k-1 whose lower side faulted
			stat.Case("lookup-access-range", []string{tc.name, "build:" + build}, true, []byte(fmt.Sprintf("%s/%s/%d", build, tc.name, idx)), func() any {
				return map[string]any{"routine": tc.name, "build": build, "idx": idx, "lowest_entry_touched_at_most": lowest, "highest_entry_touched_at_least": highest}
			})
			if highest != 14 || lowest != 0 {
				t.Fatalf("[%s build] %s(idx=%d) touches table entries %d..%d only; a secret-independent lookup reads all of 0..14 for every index",
					build, tc.name, idx, lowest, highest)
			}
		}
	}
	stat.Exhaustive("lookup-access-range")
}
