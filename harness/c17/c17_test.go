// Package c17: secret-handling operations run a secret-independent control
// and lookup pattern.
//
// Observable (a): per-basic-block execution counters of all library packages
// for exactly one call (cover build of cmd/opserver).  Observable (b): the
// sequence of data-dependent indices, slice bounds and branch decisions of
// exactly one call (cmd/idxinstr-instrumented copy of the library).  Both are
// pure functions of the executed path, so the oracle is exact equality across
// alternative secrets with all public inputs held fixed.
package c17

import (
	"encoding/hex"
	"encoding/json"
	"fmt"
	"go/ast"
	"go/parser"
	"go/token"
	"os"
	"os/exec"
	"path/filepath"
	"sort"
	"strconv"
	"strings"
	"sync"
	"testing"

	"pgregory.net/rapid"

	"gitlab.com/yawning/secp256k1-voi/verifharness/gen"
	"gitlab.com/yawning/secp256k1-voi/verifharness/opclient"
	"gitlab.com/yawning/secp256k1-voi/verifharness/opgen"
	"gitlab.com/yawning/secp256k1-voi/verifharness/stat"
)

const modPrefix = "gitlab.com/yawning/secp256k1-voi/"

type server struct {
	kind, build string // cover|trace, asm|purego
	c           *opclient.Client
}

var (
	startOnce  sync.Once
	all        []*server
	startError error
)

func TestMain(m *testing.M) {
	code := m.Run()
	for _, s := range all {
		s.c.Close()
	}
	stat.Flush()
	os.Exit(code)
}

type tb interface {
	Fatalf(string, ...any)
	Skip(...any)
}

func servers(t tb, kind string) []*server {
	startOnce.Do(func() {
		for _, spec := range []struct{ env, kind, build string }{
			{"VERIF_OPSERVER_COVER_ASM", "cover", "asm"},
			{"VERIF_OPSERVER_COVER_PUREGO", "cover", "purego"},
			{"VERIF_OPSERVER_TRACE_ASM", "trace", "asm"},
			{"VERIF_OPSERVER_TRACE_PUREGO", "trace", "purego"},
		} {
			path := os.Getenv(spec.env)
			if path == "" {
				continue
			}
			c, err := opclient.Start(path)
			if err != nil {
				startError = err
				return
			}
			if !strings.Contains(c.Info, spec.kind) || !strings.Contains(c.Info, spec.build) {
				startError = fmt.Errorf("%w: op-server %s reports build %q", opclient.ErrHarness, spec.env, c.Info)
				return
			}
			all = append(all, &server{spec.kind, spec.build, c})
		}
	})
	if startError != nil {
		t.Fatalf("%v", startError)
	}
	var out []*server
	for _, s := range all {
		if s.kind == kind {
			out = append(out, s)
		}
	}
	if len(out) == 0 {
		if os.Getenv("VERIF_OPSERVER_COVER_ASM") == "" {
			t.Skip("op-servers not available (run through ./check)")
		}
		t.Fatalf("%v: no %s op-server", opclient.ErrHarness, kind)
	}
	return out
}

// outputShape is what the published result of an operation lets everybody see about how it was encoded: for an
// ASN.1 signature the lengths of the two DER integers and whether each starts with a pad byte (a function of the
// leading bytes of r and s), for everything
// else the length of the result.  Alternatives are compared within one shape only (see secretIndependence).
func outputShape(op string, rep opclient.Reply) string {
	if op != "sign" || len(rep.Results) != 1 {
		return ""
	}
	sig := rep.Results[0]
	if len(sig) > 8 && sig[0] == 0x30 && sig[2] == 0x02 && int(sig[3])+6 < len(sig) {
		// the length of each integer and whether it starts with a 0x00 pad byte: together they say how many
		// leading zero bytes the 32-byte value had and whether its first significant byte has the top bit set
		lr := int(sig[3])
		return fmt.Sprintf("der:%d:%d/%v:%d/%v", len(sig), lr, sig[4] == 0, sig[5+lr], sig[6+lr] == 0)
	}
	return fmt.Sprintf("len:%d", len(sig))
}

// stableDifference re-measures two requests whose observations differed, three times each.  The
// difference counts only if it is a function of the request: every repetition of A gives one observation, every
// repetition of B another.  Library code whose path depends on the process history rather than on its inputs (the
// New function of a sync.Pool that the collector emptied, a cache that was evicted) gives different observations
// for the *same* request; that is not what C17 is about, and it must not be reported as a secret-dependent path.
func stableDifference(s *server, lineA, lineB string, ext bool) bool {
	var obsA, obsB []string
	for i := 0; i < 3; i++ {
		// the same order as the measurement that differed: A unmeasured (warm-up), A, B - so that state keyed by
		// the *secret* of the previous call (which is a secret-dependent path) reproduces as well
		for k, line := range []string{lineA, lineA, lineB} {
			rep, err := s.c.CallLine(line)
			if err != nil {
				return true // the server died: let the caller's own handling report what it saw
			}
			o := rep.Cov
			if ext {
				o = rep.CovExt
			}
			switch k {
			case 1:
				obsA = append(obsA, o)
			case 2:
				obsB = append(obsB, o)
			}
		}
	}
	for i := range obsA {
		if obsA[i] != obsA[0] || obsB[i] != obsB[0] {
			return false
		}
	}
	return obsA[0] != obsB[0]
}

// bigOnPublicOutput: secret-handling operations that encode a public result with math/big.
var bigOnPublicOutput = map[string]bool{"sign": true}

func validObs(kind, cov string) bool {
	if kind == "cover" {
		return len(cov) == 32 && !strings.HasPrefix(cov, "raw") && !strings.HasPrefix(cov, "coverr")
	}
	return strings.Contains(cov, ".") && len(cov) > 17
}

// nibble features of the secret arguments: a variable-time table walk skips
// zero windows and a secret-indexed load depends on every window value.
func features(req opgen.Request) string {
	z, f, n := 0, 0, 0
	for _, i := range req.Secret {
		for _, b := range req.Args[i] {
			for _, nib := range []byte{b >> 4, b & 15} {
				n++
				if nib == 0 {
					z++
				}
				if nib == 15 {
					f++
				}
			}
		}
	}
	return fmt.Sprintf("z%d/f%d/%d", z, f, n)
}

// drawSecretOp picks the operation: three quarters of the cases go to the
// high-level operations (multiplications, keys, ECDH, signing), the rest to
// field / scalar arithmetic, uniformly within each group (an index drawn with
// IntRange rather than SampledFrom, whose shrink-friendly bias favours the
// first elements).
func drawSecretOp(t *rapid.T) string {
	var arith, high []string
	for _, o := range opgen.SecretOps {
		if strings.HasPrefix(o, "fe.") || strings.HasPrefix(o, "sc.") {
			arith = append(arith, o)
		} else {
			high = append(high, o)
		}
	}
	grp := high
	if rapid.IntRange(0, 3).Draw(t, "group") == 0 {
		grp = arith
	}
	return grp[rapid.Uint32Range(0, uint32(len(grp)-1)).Draw(t, "op")]
}

func secretIndependence(t *rapid.T, kind, sub string) {
	srv := servers(t, kind)
	op := drawSecretOp(t)
	base := opgen.Draw(t, op, "base")
	k := rapid.IntRange(2, 5).Draw(t, "alternatives")
	reqs := []opgen.Request{base}
	for i := 0; i < k; i++ {
		reqs = append(reqs, opgen.Alternative(t, base, fmt.Sprintf("alt%d", i)))
	}
	feats := map[string]bool{}
	distinct := map[string]bool{}
	shapeSkips, unstable := 0, 0
	var key []byte
	for _, r := range reqs {
		feats[features(r)] = true
		line := opclient.Line(r.Op, r.Args...)
		distinct[line] = true
		key = append(key, line...)
		key = append(key, '\n')
	}
	for _, s := range srv {
		var first opclient.Reply
		var firstLine string
		// the representative of every published-output shape seen so far (see outputShape)
		reps := map[string]opclient.Reply{}
		repLines := map[string]string{}
		// Warm-up: run the first request once without looking at it.  State that depends on the call
		// history and the *public* inputs only (a lazily filled, properly synchronised cache keyed by a
		// tag or a public key) is then the same for every measured call; state keyed by secret data is
		// not, and still shows up as a difference between the alternatives.
		if _, err := s.c.CallLine(opclient.Line(reqs[0].Op, reqs[0].Args...)); err != nil {
			t.Fatalf("%v", err)
		}
		for i, r := range reqs {
			line := opclient.Line(r.Op, r.Args...)
			rep, err := s.c.CallLine(line)
			if err != nil {
				t.Fatalf("%v", err)
			}
			if rep.Status == "err" {
				t.Fatalf("%v: request rejected by the op-server (harness bug): %s -> %s", opclient.ErrHarness, line, rep.Raw)
			}
			if rep.Status == "ok" && !validObs(kind, rep.Cov) {
				t.Fatalf("%v: %s/%s op-server returned no usable observation: %q", opclient.ErrHarness, kind, s.build, rep.Cov)
			}
			if i == 0 {
				first, firstLine = rep, line
				reps[outputShape(op, rep)], repLines[outputShape(op, rep)] = rep, line
				continue
			}
			if rep.Status == first.Status {
				// Compare with the first request whose *published* output has the same shape.  The
				// property lets published outputs (unlike the secrets they were computed from) steer
				// branches: a variable-length encoding of r and s takes a different path for a 32- and
				// a 33-byte integer, in the standard library today and in the library's own packages
				// if it ever encodes by hand.  Within one shape every block count must be equal.
				sh := outputShape(op, rep)
				if r0, ok := reps[sh]; ok {
					first, firstLine = r0, repLines[sh]
				} else {
					reps[sh], repLines[sh] = rep, line
					shapeSkips++
					continue
				}
			}
			if rep.Status != first.Status {
				t.Fatalf("[%s/%s] %s: outcome depends on the secret: %q -> %s but %q -> %s", kind, s.build, op, firstLine, first.Status, line, rep.Status)
			}
			if rep.Cov != first.Cov && !stableDifference(s, firstLine, line, false) {
				// the two requests do not differ *reproducibly*: the same request gives different observations
				// when it is repeated (a pool refilled after a garbage collection, a cache evicted), so the
				// difference seen is not a function of the secret
				unstable++
				continue
			}
			if rep.Cov != first.Cov {
				t.Fatalf("[%s/%s] %s: executed path depends on the secret (public inputs identical)\n  A: %s\n  B: %s\n  observation A=%s B=%s\n%s",
					kind, s.build, op, firstLine, line, first.Cov, rep.Cov, explain(s, firstLine, line))
			}
			// the cover build also instruments math/big: the library's own blocks can be secret-independent while
			// a documented variable-time routine of the standard library runs on the secret.  Operations whose
			// result is a public value encoded with math/big (the ASN.1 signature) are exempt: there the path
			// through math/big legitimately follows the (secret-dependent, but published) r and s.
			if kind == "cover" && !bigOnPublicOutput[op] && rep.CovExt != first.CovExt && stableDifference(s, firstLine, line, true) {
				t.Fatalf("[%s/%s] %s: the path executed inside math/big depends on the secret (public inputs identical)\n  A: %s\n  B: %s\n  math/big observation A=%s B=%s\n%s",
					kind, s.build, op, firstLine, line, first.CovExt, rep.CovExt, explain(s, firstLine, line))
			}
		}
	}
	nontrivial := len(feats) >= 2
	cls := []string{"op:" + op, fmt.Sprintf("secrets:%d", len(distinct))}
	if shapeSkips > 0 {
		cls = append(cls, "alternatives-with-another-published-output-shape")
	}
	if unstable > 0 {
		cls = append(cls, "difference-not-reproducible")
	}
	stat.Case(sub, cls, nontrivial, key, func() any {
		var lines []string
		for _, r := range reqs {
			lines = append(lines, fmt.Sprintf("%.200s [%s]", opclient.Line(r.Op, r.Args...), features(r)))
		}
		return map[string]any{"requests": lines}
	})
}

// TestC17_Counters: equal basic-block counters across secrets (asm and purego cover builds).
func TestC17_Counters(t *testing.T) {
	rapid.Check(t, func(t *rapid.T) { secretIndependence(t, "cover", "block-counters") })
}

// TestC17_IndexTrace: equal index / branch traces across secrets (instrumented copy, asm and purego).
func TestC17_IndexTrace(t *testing.T) {
	rapid.Check(t, func(t *rapid.T) { secretIndependence(t, "trace", "index-branch-trace") })
}

// ---- explanation of a mismatch (diagnostics only) ----

func explain(s *server, lineA, lineB string) string {
	defer func() { _ = recover() }()
	if s.kind == "cover" {
		pa, ea := profile(s, lineA)
		pb, eb := profile(s, lineB)
		if ea != nil || eb != nil {
			return fmt.Sprintf("  (no block-level explanation: %v %v)", ea, eb)
		}
		var keys []string
		for k := range pa {
			keys = append(keys, k)
		}
		for k := range pb {
			if _, ok := pa[k]; !ok {
				keys = append(keys, k)
			}
		}
		sort.Strings(keys)
		var sb strings.Builder
		n := 0
		for _, k := range keys {
			if pa[k] != pb[k] {
				if n < 12 {
					fmt.Fprintf(&sb, "  block %s: executed %d times for A, %d times for B\n", k, pa[k], pb[k])
				}
				n++
			}
		}
		fmt.Fprintf(&sb, "  (%d blocks differ)", n)
		return sb.String()
	}
	ta, ea := trace(s, lineA)
	tb, eb := trace(s, lineB)
	if ea != nil || eb != nil {
		return fmt.Sprintf("  (no trace-level explanation: %v %v)", ea, eb)
	}
	sites := loadSites()
	for i := 0; i+1 < len(ta) && i+1 < len(tb); i += 2 {
		if ta[i] != tb[i] || ta[i+1] != tb[i+1] {
			return fmt.Sprintf("  first divergence at trace event %d: A: site %s value %d; B: site %s value %d", i/2, sites[ta[i]], ta[i+1], sites[tb[i]], tb[i+1])
		}
	}
	return fmt.Sprintf("  traces have different lengths (%d vs %d events), common prefix identical", len(ta)/2, len(tb)/2)
}

var (
	sitesOnce sync.Once
	siteNames = map[uint64]string{}
)

func loadSites() map[uint64]string {
	sitesOnce.Do(func() {
		b, err := os.ReadFile(os.Getenv("VERIF_TRACE_SITES"))
		if err != nil {
			return
		}
		var ss []struct {
			ID              uint64
			Pos, Kind, Expr string
		}
		if json.Unmarshal(b, &ss) == nil {
			for _, s := range ss {
				siteNames[s.ID] = fmt.Sprintf("#%d %s (%s `%s`)", s.ID, s.Pos, s.Kind, s.Expr)
			}
		}
	})
	return siteNames
}

func scratch() string {
	d := os.Getenv("VERIF_WORK")
	if d == "" {
		d = os.TempDir()
	}
	dir, _ := os.MkdirTemp(d, "c17-dump-")
	return dir
}

func trace(s *server, line string) ([]uint64, error) {
	dir := scratch()
	defer os.RemoveAll(dir)
	if _, err := s.c.CallLine("dumpcov " + hex.EncodeToString([]byte(dir)) + " " + line); err != nil {
		return nil, err
	}
	b, err := os.ReadFile(filepath.Join(dir, "trace.json"))
	if err != nil {
		return nil, err
	}
	var v []uint64
	return v, json.Unmarshal(b, &v)
}

// profile runs one request with a counter dump and converts it to
// "file:range" -> count with `go tool covdata textfmt`.
func profile(s *server, line string) (map[string]int, error) {
	dir := scratch()
	defer os.RemoveAll(dir)
	rep, err := s.c.CallLine("dumpcov " + hex.EncodeToString([]byte(dir)) + " " + line)
	if err != nil {
		return nil, err
	}
	if rep.Status != "ok" {
		return nil, fmt.Errorf("dump request failed: %.200s", rep.Raw)
	}
	out := filepath.Join(dir, "profile.txt")
	cmd := exec.Command("go", "tool", "covdata", "textfmt", "-i="+dir, "-o="+out)
	cmd.Env = append(os.Environ(), "GOFLAGS=")
	if b, err := cmd.CombinedOutput(); err != nil {
		return nil, fmt.Errorf("covdata: %v: %.300s", err, b)
	}
	b, err := os.ReadFile(out)
	if err != nil {
		return nil, err
	}
	res := map[string]int{}
	for _, l := range strings.Split(string(b), "\n") {
		f := strings.Fields(l)
		if len(f) != 3 || strings.HasPrefix(l, "mode:") {
			continue
		}
		n, _ := strconv.Atoi(f[2])
		res[f[0]] += n
	}
	if len(res) == 0 {
		return nil, fmt.Errorf("empty profile")
	}
	return res, nil
}

// ---- "never calls the routines documented as variable-time" ----

type lineRange struct {
	file       string // module-relative
	name       string
	start, end int
}

var (
	vtOnce   sync.Once
	vtRanges []lineRange
	vtErr    error
)

// vartimeRanges parses the current library sources and returns the line
// ranges of every function whose name contains "vartime" (any case).
func vartimeRanges() ([]lineRange, error) {
	vtOnce.Do(func() {
		root := os.Getenv("VERIF_REPO")
		if root == "" {
			root = "/repo"
		}
		fset := token.NewFileSet()
		vtErr = filepath.Walk(root, func(p string, info os.FileInfo, err error) error {
			if err != nil {
				return err
			}
			if info.IsDir() {
				if strings.HasPrefix(info.Name(), ".") && p != root || info.Name() == "testdata" {
					return filepath.SkipDir
				}
				return nil
			}
			if !strings.HasSuffix(p, ".go") || strings.HasSuffix(p, "_test.go") {
				return nil
			}
			f, err := parser.ParseFile(fset, p, nil, 0)
			if err != nil {
				return nil // a file that does not parse would already have failed the build
			}
			rel, _ := filepath.Rel(root, p)
			for _, d := range f.Decls {
				fd, ok := d.(*ast.FuncDecl)
				if !ok || fd.Body == nil || !strings.Contains(strings.ToLower(fd.Name.Name), "vartime") {
					continue
				}
				vtRanges = append(vtRanges, lineRange{filepath.ToSlash(rel), fd.Name.Name, fset.Position(fd.Pos()).Line, fset.Position(fd.End()).Line})
			}
			return nil
		})
	})
	return vtRanges, vtErr
}

// vartimeBlocks returns the executed blocks of prof that lie inside a
// function named *Vartime*.
func vartimeBlocks(prof map[string]int) []string {
	rs, _ := vartimeRanges()
	var hits []string
	for k, n := range prof {
		if n == 0 {
			continue
		}
		// k = import/path/file.go:L.C,L.C
		i := strings.LastIndex(k, ":")
		if i < 0 || !strings.HasPrefix(k, modPrefix) {
			continue
		}
		file := strings.TrimPrefix(k[:i], modPrefix)
		var l0 int
		fmt.Sscanf(k[i+1:], "%d.", &l0)
		for _, r := range rs {
			if r.file == file && l0 >= r.start && l0 <= r.end {
				hits = append(hits, fmt.Sprintf("%s (in %s, executed %d times)", k, r.name, n))
			}
		}
	}
	sort.Strings(hits)
	return hits
}

func propNoVartime(t *rapid.T) {
	srv := servers(t, "cover")
	rs, err := vartimeRanges()
	if err != nil || len(rs) == 0 {
		t.Fatalf("%v: no *Vartime* functions found in the sources (%v)", opclient.ErrHarness, err)
	}
	op := drawSecretOp(t)
	req := opgen.Draw(t, op, "r")
	line := opclient.Line(req.Op, req.Args...)
	s := gen.Sampled(srv).Draw(t, "build")
	prof, err := profile(s, line)
	if err != nil {
		t.Fatalf("%v: %v", opclient.ErrHarness, err)
	}
	hits := vartimeBlocks(prof)
	stat.Case("no-vartime-blocks", []string{"op:" + op, "build:" + s.build}, true, []byte(s.build+" "+line), func() any {
		return map[string]any{"request": fmt.Sprintf("%.200s", line), "build": s.build, "executed_blocks": len(prof), "vartime_functions_known": len(rs)}
	})
	if len(hits) > 0 {
		t.Fatalf("[cover/%s] secret-handling operation %q executed variable-time routines:\n  %s\n  request: %s", s.build, op, strings.Join(hits, "\n  "), line)
	}
}

// TestC17_NoVartime: no block of a *Vartime* function runs during a secret-handling operation.
func TestC17_NoVartime(t *testing.T) { rapid.Check(t, propNoVartime) }

// TestC17_Discriminates is a self-check of the observables: on public
// variable-time operations they must differ between inputs, and the Vartime
// rule must see the variable-time blocks.  A failure here means the harness
// cannot see what it claims to see (inconclusive, not a violation).
func TestC17_Discriminates(t *testing.T) {
	g := "0479be667ef9dcbbac55a06295ce870b07029bfcdb2dce28d959f2815b16f81798483ada7726a3c4655da4fbfc0e1108a8fd17b448a68554199c47d08ffb10d4b8"
	u := []string{
		"0000000000000000000000000000000000000000000000000000000000000001",
		"f0f0f0f0f0f0f0f0f0f0f0f0f0f0f0f0f0f0f0f0f0f0f0f0f0f0f0f0f0f0f0f0",
		"00ff00ff00ff00ff00ff00ff00ff00ff00ff00ff00ff00ff00ff00ff00ff00ff",
	}
	for _, kind := range []string{"cover", "trace"} {
		if kind == "trace" && os.Getenv("VERIF_OPSERVER_TRACE_ASM") == "" {
			continue
		}
		for _, s := range servers(t, kind) {
			seen := map[string]bool{}
			for _, x := range u {
				rep, err := s.c.CallLine("doublemult.vartime " + x + " " + u[2] + " " + g)
				if err != nil || rep.Status != "ok" || !validObs(kind, rep.Cov) {
					t.Fatalf("%v: %v %s", opclient.ErrHarness, err, rep.Raw)
				}
				seen[rep.Cov] = true
			}
			if len(seen) != len(u) {
				t.Fatalf("%v: %s/%s observable does not discriminate variable-time executions", opclient.ErrHarness, kind, s.build)
			}
			if kind == "cover" {
				prof, err := profile(s, "doublemult.vartime "+u[1]+" "+u[2]+" "+g)
				if err != nil {
					t.Fatalf("%v: %v", opclient.ErrHarness, err)
				}
				if len(vartimeBlocks(prof)) == 0 {
					t.Fatalf("%v: Vartime rule does not see the blocks of DoubleScalarMultBasepointVartime", opclient.ErrHarness)
				}
			}
			stat.Case("observable-self-check", []string{kind + "/" + s.build}, true, []byte(kind+s.build), func() any {
				return map[string]any{"server": kind + "/" + s.build, "distinct_observations_on_vartime_op": len(seen)}
			})
		}
	}
}
