// Package opgen draws op-server requests: an operation, its public inputs and
// one or more alternative values for its secret inputs.
package opgen

import (
	"fmt"
	"math/big"

	"pgregory.net/rapid"

	"gitlab.com/yawning/secp256k1-voi/verifharness/gen"
	"gitlab.com/yawning/secp256k1-voi/verifharness/ref"
)

// Request is one op-server call; Secret marks which argument positions hold
// secret data.
type Request struct {
	Op     string
	Args   [][]byte
	Secret []int
}

// SecretOps are the operations whose listed arguments are secrets and that
// must therefore run a secret-independent control/lookup pattern (C17).
var SecretOps = []string{
	"fe.add", "fe.sub", "fe.mul", "fe.square", "fe.neg", "fe.invert", "fe.sqrt", "fe.sqrtratio", "fe.equal", "fe.condneg", "fe.bytes",
	"sc.add", "sc.sub", "sc.mul", "sc.square", "sc.neg", "sc.invert", "sc.condneg", "sc.condsel", "sc.sumprod", "sc.bytes", "sc.frombytes",
	"scalarmult", "basemult", "multimult", "newpriv", "newpriv.scalar", "ecdh",
	"signraw", "sign", "signrfc6979", "schnorr.newpriv", "schnorr.sign",
	"fe.preds", "sc.preds", "point.cond", "priv.equal", "schnorr.priv.equal", "schnorr.fromecdsa",
}

// PublicOps operate on public data only (variable time allowed).
var PublicOps = []string{"doublemult.vartime", "multimult.vartime", "verify", "schnorr.verify", "h2c", "uniform"}

// FaultOps are calls that cannot complete (see the op-server's "faulted"); only the cross-build comparison uses
// them.
var FaultOps = []string{"faulted"}

var nibbleFills = []byte{0x00, 0xff, 0x0f, 0xf0, 0x11, 0x88}

// SecretScalar draws a secret in [1,n) from the patterns the property names:
// 0-heavy / F-heavy nibble patterns, 1, n-1, single nibbles, GLV-steered
// values (half signs), boundary-biased values.
func SecretScalar(t *rapid.T, label string) (*big.Int, string) {
	kind := gen.Sampled([]string{"nibble-pattern", "nibble-pattern", "1", "n-1", "single-nibble", "glv", "glv", "biased", "2^k"}).Draw(t, label+"_kind")
	var v *big.Int
	switch kind {
	case "nibble-pattern":
		b := make([]byte, 32)
		fill := gen.Sampled(nibbleFills).Draw(t, label+"_fill")
		for i := range b {
			b[i] = fill
		}
		for k := rapid.IntRange(0, 4).Draw(t, label+"_holes"); k > 0; k-- {
			b[rapid.IntRange(0, 31).Draw(t, label+"_pos")] = rapid.Byte().Draw(t, label+"_val")
		}
		v = ref.Int(b)
	case "1":
		v = big.NewInt(1)
	case "n-1":
		v = new(big.Int).Sub(ref.N, big.NewInt(1))
	case "single-nibble":
		v = new(big.Int).Lsh(big.NewInt(int64(rapid.IntRange(1, 15).Draw(t, label+"_dig"))), uint(4*rapid.IntRange(0, 63).Draw(t, label+"_nib")))
	case "glv":
		v, _ = gen.GLVScalar(t, label+"_glv")
	case "2^k":
		v = new(big.Int).Lsh(big.NewInt(1), uint(rapid.IntRange(0, 255).Draw(t, label+"_k")))
	default:
		v = gen.Int256(t, ref.N, label)
	}
	v = ref.Mod(v, ref.N)
	if v.Sign() == 0 {
		v.SetInt64(1)
		kind = "1"
	}
	return v, kind
}

// SecretBytes draws n secret bytes with pattern-heavy content.
func SecretBytes(t *rapid.T, n int, label string) []byte {
	b, _ := gen.EntropyContent(t, n, label)
	return b
}

func pointEnc(t *rapid.T, label string) []byte {
	return gen.NonIdentityPoint(t, label).P.Uncompressed()
}

// Draw draws a request for op with freshly drawn public inputs and one value
// for each secret input.
func Draw(t *rapid.T, op string, label string) Request {
	r := Request{Op: op}
	sec := func(i int) { r.Secret = append(r.Secret, i) }
	scalar := func(l string) []byte { v, _ := SecretScalar(t, label+l); return ref.B32(v) }
	switch op {
	case "fe.preds", "fe.add", "fe.sub", "fe.mul", "fe.square", "fe.neg", "fe.invert", "fe.sqrt", "fe.sqrtratio", "fe.equal", "fe.condneg", "fe.bytes":
		a, b, _ := gen.Pair(t, ref.P, label+"_fe")
		if op == "fe.sqrtratio" && b.Sign() == 0 {
			b = big.NewInt(1)
		}
		r.Args = [][]byte{ref.B32(a), ref.B32(b)}
		sec(0)
		sec(1)
	case "priv.equal", "schnorr.priv.equal":
		// two private keys: equal, neighbours, related by negation, or unrelated
		a, b, _ := gen.Pair(t, ref.N, label+"_keys")
		for _, v := range []*big.Int{a, b} {
			if v.Sign() == 0 {
				v.SetInt64(1)
			}
		}
		r.Args = [][]byte{ref.B32(a), ref.B32(b)}
		sec(0)
		sec(1)
	case "point.cond":
		r.Args = [][]byte{gen.Point(t, label+"_P").P.Uncompressed(), gen.Point(t, label+"_Q").P.Uncompressed(), {byte(rapid.IntRange(0, 1).Draw(t, label+"_ctrl"))}}
		sec(2)
	case "sc.preds", "sc.add", "sc.sub", "sc.mul", "sc.square", "sc.neg", "sc.invert", "sc.condneg", "sc.condsel", "sc.sumprod", "sc.bytes":
		a, b, _ := gen.Pair(t, ref.N, label+"_sc")
		r.Args = [][]byte{ref.B32(a), ref.B32(b)}
		sec(0)
		sec(1)
	case "sc.frombytes":
		r.Args = [][]byte{gen.Bytes32Any(t, ref.N, label+"_raw")}
		sec(0)
	case "scalarmult":
		r.Args = [][]byte{scalar("_s"), pointEnc(t, label+"_P")}
		sec(0)
	case "basemult", "newpriv", "newpriv.scalar", "schnorr.newpriv", "schnorr.fromecdsa":
		r.Args = [][]byte{scalar("_s")}
		sec(0)
	case "multimult", "multimult.vartime":
		n := rapid.IntRange(0, 4).Draw(t, label+"_n")
		for i := 0; i < n; i++ {
			r.Args = append(r.Args, scalar(fmt.Sprintf("_s%d", i)), gen.Point(t, fmt.Sprintf("%s_P%d", label, i)).P.Uncompressed())
			if op == "multimult" {
				sec(2 * i)
			}
		}
	case "doublemult.vartime":
		r.Args = [][]byte{scalar("_u1"), scalar("_u2"), gen.Point(t, label+"_P").P.Uncompressed()}
	case "ecdh":
		r.Args = [][]byte{scalar("_d"), pointEnc(t, label+"_Q")}
		sec(0)
	case "signraw":
		r.Args = [][]byte{scalar("_d"), gen.Bytes(t, 32, 32, label+"_digest"), SecretBytes(t, 32, label+"_ent")}
		sec(0)
		sec(2)
	case "sign":
		r.Args = [][]byte{scalar("_d"), gen.Bytes(t, 32, 32, label+"_digest"), SecretBytes(t, 32, label+"_ent"),
			{byte(rapid.IntRange(0, 2).Draw(t, label+"_enc"))}, {byte(rapid.IntRange(0, 1).Draw(t, label+"_sv"))}}
		sec(0)
		sec(2)
	case "signrfc6979":
		r.Args = [][]byte{scalar("_d"), gen.Bytes(t, 32, 32, label+"_digest")}
		sec(0)
	case "schnorr.sign":
		r.Args = [][]byte{scalar("_d"), SecretBytes(t, 32, label+"_aux"), gen.Message(t, label+"_msg")}
		sec(0)
		sec(1)
	case "verify":
		d, _ := SecretScalar(t, label+"_d")
		k, _ := SecretScalar(t, label+"_k")
		digest := gen.Bytes(t, 32, 32, label+"_digest")
		rr, ss, _, ok := ref.ECDSASignWithNonce(d, k, digest)
		if !ok {
			rr, ss = big.NewInt(1), big.NewInt(1)
		}
		if rapid.Bool().Draw(t, label+"_bad") {
			ss = ref.Mod(new(big.Int).Add(ss, big.NewInt(1)), ref.N)
		}
		r.Args = [][]byte{ref.BaseMul(d).Uncompressed(), digest, ref.B32(rr), ref.B32(ss)}
	case "schnorr.verify":
		d, _ := SecretScalar(t, label+"_d")
		msg := gen.Message(t, label+"_msg")
		sig, ok := ref.BIP340Sign(d, gen.Bytes(t, 32, 32, label+"_aux"), msg)
		if !ok {
			sig = make([]byte, 64)
		}
		if rapid.Bool().Draw(t, label+"_bad") {
			sig[40] ^= 1
		}
		r.Args = [][]byte{ref.B32(ref.BaseMul(d).X), msg, sig}
	case "faulted":
		r.Args = [][]byte{{byte(rapid.IntRange(0, 7).Draw(t, label+"_kind"))}, {byte(rapid.IntRange(0, 2).Draw(t, label+"_where"))}, scalar("_s"), pointEnc(t, label+"_P")}
	case "h2c":
		r.Args = [][]byte{{byte(rapid.IntRange(0, 1).Draw(t, label+"_ro"))}, gen.Bytes(t, 1, 300, label+"_dst"), gen.Message(t, label+"_msg")}
	case "uniform":
		n := rapid.IntRange(32, 64).Draw(t, label+"_len")
		r.Args = [][]byte{gen.Bytes(t, n, n, label+"_src")}
	default:
		panic("opgen: unknown op " + op)
	}
	return r
}

// Alternative returns a copy of r with every secret argument redrawn (same
// public inputs).
func Alternative(t *rapid.T, r Request, label string) Request {
	alt := Draw(t, r.Op, label)
	out := Request{Op: r.Op, Secret: r.Secret, Args: make([][]byte, len(r.Args))}
	copy(out.Args, r.Args)
	if len(alt.Args) != len(r.Args) { // variable-arity ops: keep arity, redraw secrets only
		for _, i := range r.Secret {
			v, _ := SecretScalar(t, fmt.Sprintf("%s_alt%d", label, i))
			out.Args[i] = ref.B32(v)
		}
		return out
	}
	for _, i := range r.Secret {
		out.Args[i] = alt.Args[i]
	}
	return out
}
