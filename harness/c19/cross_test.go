package c19

import (
	"encoding/binary"
	"fmt"
	"math/big"
	"os"
	"sort"
	"strings"
	"sync"
	"testing"

	"pgregory.net/rapid"

	"gitlab.com/yawning/secp256k1-voi/verifharness/gen"
	"gitlab.com/yawning/secp256k1-voi/verifharness/opclient"
	"gitlab.com/yawning/secp256k1-voi/verifharness/opgen"
	"gitlab.com/yawning/secp256k1-voi/verifharness/ref"
	"gitlab.com/yawning/secp256k1-voi/verifharness/stat"
)

func TestMain(m *testing.M) {
	stat.ApplyEnv()
	code := m.Run()
	if asm != nil {
		asm.Close()
	}
	if pure != nil {
		pure.Close()
	}
	for _, x := range extra {
		x.Close()
	}
	stat.Flush()
	os.Exit(code)
}

var (
	startOnce  sync.Once
	asm, pure  *opclient.Client
	extra      []*opclient.Client // further build configurations the driver discovered in the tree's build constraints
	extraNames []string
	startError error
)

type skipFataler interface {
	Fatalf(string, ...any)
	Skip(...any)
}

func servers(tb skipFataler) (*opclient.Client, *opclient.Client) {
	startOnce.Do(func() {
		a, p := os.Getenv("VERIF_OPSERVER_ASM"), os.Getenv("VERIF_OPSERVER_PUREGO")
		if a == "" || p == "" {
			startError = fmt.Errorf("op-server binaries not provided")
			return
		}
		if asm, startError = opclient.Start(a); startError != nil {
			return
		}
		if pure, startError = opclient.Start(p); startError != nil {
			return
		}
		for _, kv := range strings.Split(os.Getenv("VERIF_OPSERVER_EXTRA"), ",") {
			if name, path, ok := strings.Cut(kv, "="); ok && path != "" {
				// "<name>=<path>[|K=V...]": @ASM@ stands for the assembly op-server binary; K=V pairs are
				// added to the child's environment (e.g. GODEBUG=cpu.all=off)
				parts := strings.Split(path, "|")
				if parts[0] == "@ASM@" {
					parts[0] = a
				}
				c, err := opclient.StartEnv(parts[0], parts[1:])
				if err != nil {
					startError = err
					return
				}
				extra, extraNames = append(extra, c), append(extraNames, name)
			}
		}
		if !strings.Contains(asm.Info, "asm") || !strings.Contains(pure.Info, "purego") {
			startError = fmt.Errorf("%w: op-servers report builds %q / %q", opclient.ErrHarness, asm.Info, pure.Info)
		}
	})
	if startError != nil {
		if os.Getenv("VERIF_OPSERVER_ASM") == "" {
			tb.Skip("op-servers not available (run through ./check)")
		}
		tb.Fatalf("%v", startError)
	}
	return asm, pure
}

type fataler interface {
	Fatalf(string, ...any)
}

// both sends the same request to both builds and requires identical replies.
func both(t fataler, a, p *opclient.Client, line string) opclient.Reply {
	ra, err := a.CallLine(line)
	if err != nil {
		t.Fatalf("%v", err)
	}
	rp, err := p.CallLine(line)
	if err != nil {
		t.Fatalf("%v", err)
	}
	if ra.Key() != rp.Key() {
		t.Fatalf("assembly and purego builds disagree on %q:\n  asm:    %.300s\n  purego: %.300s", line, ra.Key(), rp.Key())
	}
	for i, x := range extra {
		rx, err := x.CallLine(line)
		if err != nil {
			t.Fatalf("%v", err)
		}
		if rx.Key() != rp.Key() {
			// a disagreement of a stressed / environment-variant server may depend on the schedule and not
			// reproduce when rapid re-runs the case: put the evidence on stderr right away, with the rate at
			// which the same request disagrees when repeated
			bad := 1
			for k := 0; k < 19; k++ {
				if r2, e := x.CallLine(line); e == nil && r2.Key() != rp.Key() {
					bad++
				}
			}
			fmt.Fprintf(os.Stderr, "C19-DISAGREEMENT configuration=%s request=%q disagrees with the purego build in %d of 20 repetitions\n  %s: %.300s\n  purego: %.300s\n",
				extraNames[i], line, bad, extraNames[i], rx.Key(), rp.Key())
			t.Fatalf("build configuration %s disagrees with the purego build on %q:\n  %s: %.300s\n  purego: %.300s", extraNames[i], line, extraNames[i], rx.Key(), rp.Key())
		}
	}
	return ra
}

var crossOps = append(append(append([]string{}, opgen.SecretOps...), opgen.PublicOps...), "faulted", "faulted", "faulted")

func propCross(t *rapid.T) {
	a, p := servers(t)
	op := gen.Sampled(crossOps).Draw(t, "op")
	req := opgen.Draw(t, op, "r")
	// what the receiver of the operation holds before the call (see the op-server's rcvMode): a reused
	// receiver is the rule in callers' loops, and the two lookups differ exactly in what they leave
	// untouched in their destination
	rcv := gen.Sampled([]int{0, 0, 1, 2, 3, 4, 4}).Draw(t, "receiver")
	line := opclient.Line(fmt.Sprintf("%s@%d", req.Op, rcv), req.Args...)
	edge := false
	for _, i := range req.Secret {
		for _, by := range req.Args[i] {
			if by>>4 == 0 || by>>4 == 15 || by&15 == 0 || by&15 == 15 {
				edge = true
			}
		}
	}
	r := both(t, a, p, line)
	stat.Case("cross-build", []string{"op:" + op, "status:" + r.Status, fmt.Sprintf("receiver-before:%d", rcv)}, edge, []byte(line), func() any {
		return map[string]any{"request": fmt.Sprintf("%.300s", line), "reply": fmt.Sprintf("%.200s", r.Key())}
	})
	if r.Status == "err" {
		t.Fatalf("request rejected by the op-server (harness bug): %s -> %s", line, r.Raw)
	}
}

func TestC19_CrossBuild(t *testing.T) { rapid.Check(t, propCross) }

// TestC19_SingleNibble enumerates the scalars that select exactly one table
// window: all 64x15 single-nibble scalars through ScalarBaseMult, and all
// 2x32x15 single-nibble GLV halves through ScalarMult, in both builds.
func TestC19_SingleNibble(t *testing.T) {
	a, p := servers(t)
	pt := ref.BaseMul(big.NewInt(0xc0ffee)).Uncompressed()
	n := 0
	for nib := 0; nib < 64; nib++ {
		for d := 1; d <= 15; d++ {
			s := ref.B32(new(big.Int).Lsh(big.NewInt(int64(d)), uint(4*nib)))
			want := ref.BaseMul(ref.Int(s)).Uncompressed()
			// into a fresh receiver and into one that holds a point already
			for _, op := range []string{"basemult", "basemult@1", "basemult@2"} {
				line := opclient.Line(op, s)
				r := both(t, a, p, line)
				if r.Status != "ok" || string(r.Results[0]) != string(want) {
					t.Fatalf("%s(%x) wrong in both builds", op, s)
				}
				stat.Case("single-nibble", []string{op}, true, []byte(line), func() any { return map[string]any{"request": line} })
			}
			n++
		}
	}
	for half := 0; half < 2; half++ {
		for nib := 0; nib < 32; nib++ {
			for d := 1; d <= 15; d++ {
				h := new(big.Int).Lsh(big.NewInt(int64(d)), uint(4*nib))
				if half == 1 {
					h.Mul(h, ref.Lambda)
				}
				line := opclient.Line([]string{"scalarmult", "scalarmult@1", "scalarmult@2"}[n%3], ref.B32(ref.Mod(h, ref.N)), pt)
				both(t, a, p, line)
				stat.Case("single-nibble", []string{"scalarmult"}, true, []byte(line), func() any { return map[string]any{"request": fmt.Sprintf("%.160s", line)} })
				n++
			}
		}
	}
	stat.Exhaustive("single-nibble")
	if n != 64*15+2*32*15 {
		t.Fatalf("enumeration incomplete: %d", n)
	}
}

// TestC19_LongLists: the two builds must also agree on long multi-scalar
// lists -- one request on, before and after every power of two up to 2^15 and
// every integer constant in the library's sources (a build-specific batching
// or capping threshold is such a constant), each with the receiver somewhere
// in the list, in both the constant-time and the variable-time routine.  The
// list is built inside the servers (multimult.chain), so a request is a few
// bytes.  Only the assembly and the portable server are compared here: the
// slower extra configurations would take minutes on 2^15 terms.
func TestC19_LongLists(t *testing.T) {
	a, p := servers(t)
	lens := map[int]bool{}
	for k := 9; k <= 15; k++ {
		for d := -1; d <= 1; d++ {
			lens[1<<k+d] = true
		}
	}
	for _, v := range gen.SourceIntLiterals(300, 70000) {
		for d := -1; d <= 1; d++ {
			lens[v+d] = true
		}
	}
	var sorted []int
	for n := range lens {
		sorted = append(sorted, n)
	}
	sort.Ints(sorted)
	k := ref.B32(ref.Mod(ref.Int([]byte("verif/c19/long-lists/k")), ref.N))
	for i, n := range sorted {
		var nb, rb [4]byte
		binary.BigEndian.PutUint32(nb[:], uint32(n))
		rcv := uint32(0xffffffff)
		switch i % 3 { // receiver: fresh, the last element, one in the middle
		case 1:
			rcv = uint32(n - 1)
		case 2:
			rcv = uint32(n / 2)
		}
		binary.BigEndian.PutUint32(rb[:], rcv)
		vartime := byte(i % 2)
		line := opclient.Line("multimult.chain", nb[:], k, []byte(fmt.Sprintf("seed-%d", n)), rb[:], []byte{vartime})
		var ra, rp opclient.Reply
		var ea, ep error
		var wg sync.WaitGroup
		wg.Add(2)
		go func() { defer wg.Done(); ra, ea = a.CallLine(line) }()
		go func() { defer wg.Done(); rp, ep = p.CallLine(line) }()
		wg.Wait()
		if ea != nil || ep != nil {
			t.Fatalf("%v / %v", ea, ep)
		}
		stat.Case("long-lists", []string{fmt.Sprintf("vartime:%d", vartime), fmt.Sprintf("receiver-in-list:%v", rcv != 0xffffffff)}, true, []byte(line), func() any {
			return map[string]any{"terms": n, "receiver_index": int32(rcv), "vartime": vartime == 1}
		})
		if ra.Status != "ok" || ra.Key() != rp.Key() {
			t.Fatalf("assembly and purego builds disagree on a %d-term multi-scalar multiplication (receiver index %d, vartime=%d):\n  asm:    %.200s\n  purego: %.200s", n, int32(rcv), vartime, ra.Key(), rp.Key())
		}
	}
	stat.Exhaustive("long-lists")
}
