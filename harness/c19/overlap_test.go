package c19

import (
	"fmt"
	"testing"

	"pgregory.net/rapid"

	secp256k1 "gitlab.com/yawning/secp256k1-voi"
	"gitlab.com/yawning/secp256k1-voi/verifharness/gen"
	"gitlab.com/yawning/secp256k1-voi/verifharness/lib"
	"gitlab.com/yawning/secp256k1-voi/verifharness/ref"
	"gitlab.com/yawning/secp256k1-voi/verifharness/stat"
)

// propOverlapping: "the same result for every public operation on every input" holds for calls that overlap in
// time too, in each build.  The multiplication entry points (the users of the table lookups, which are the code
// that differs between the builds) are called from 2-8 goroutines at once on generated scalars and points; every
// result must be the reference's, whichever build this test binary is (it runs as both).  A lookup that keeps
// state outside its arguments in one build only shows here, not in one-request-at-a-time comparisons.
func propOverlapping(t *rapid.T) {
	n := rapid.IntRange(3, 8).Draw(t, "calls")
	var calls []func() string
	var want []string
	var key []byte
	enc := func(p *secp256k1.Point) string { return fmt.Sprintf("%x", p.CompressedBytes()) }
	refEnc := func(p ref.Pt) string {
		if p.Inf {
			return "00"
		}
		return fmt.Sprintf("%x", p.Compressed())
	}
	for i := 0; i < n; i++ {
		s := gen.Int256(t, ref.N, fmt.Sprintf("s%d", i))
		P := gen.Point(t, fmt.Sprintf("P%d", i)).P
		kind := gen.Sampled([]string{"base", "base", "mult", "mult", "multi2", "multi1", "double-vartime"}).Draw(t, fmt.Sprintf("kind%d", i))
		key = append(key, []byte(fmt.Sprintf("%s|%x|%v;", kind, s, P))...)
		ls, lp := lib.Sc(s), lib.Pt(P)
		switch kind {
		case "base":
			want = append(want, refEnc(ref.BaseMul(s)))
			calls = append(calls, func() string { return enc(secp256k1.NewIdentityPoint().ScalarBaseMult(ls)) })
		case "mult":
			want = append(want, refEnc(P.Mul(s)))
			calls = append(calls, func() string { return enc(secp256k1.NewIdentityPoint().ScalarMult(ls, lp)) })
		case "multi1":
			want = append(want, refEnc(P.Mul(s)))
			calls = append(calls, func() string {
				return enc(secp256k1.NewIdentityPoint().MultiScalarMult([]*secp256k1.Scalar{ls}, []*secp256k1.Point{lp}))
			})
		case "multi2":
			s2 := gen.Int256(t, ref.N, fmt.Sprintf("t%d", i))
			ls2 := lib.Sc(s2)
			want = append(want, refEnc(P.Mul(s).Add(ref.BaseMul(s2))))
			calls = append(calls, func() string {
				return enc(secp256k1.NewIdentityPoint().MultiScalarMult([]*secp256k1.Scalar{ls, ls2}, []*secp256k1.Point{lp, secp256k1.NewGeneratorPoint()}))
			})
		default:
			s2 := gen.Int256(t, ref.N, fmt.Sprintf("u%d", i))
			ls2 := lib.Sc(s2)
			want = append(want, refEnc(ref.BaseMul(s).Add(P.Mul(s2))))
			calls = append(calls, func() string {
				return enc(secp256k1.NewIdentityPoint().DoubleScalarMultBasepointVartime(ls, ls2, lp))
			})
		}
	}
	g := gen.Sampled([]int{2, 3, 4, 8}).Draw(t, "goroutines")
	stat.Case("overlapping", []string{fmt.Sprintf("goroutines:%d", g), fmt.Sprintf("calls:%d", n), "build-portable:" + fmt.Sprint(portableBuild)}, true, key, func() any {
		return map[string]any{"calls": n, "goroutines": g}
	})
	if msg := lib.Overlap(calls, want, g, 3); msg != "" {
		t.Fatalf("multiplication (portable lookups: %v): %s", portableBuild, msg)
	}
}

func TestC19_Overlapping(t *testing.T) { rapid.Check(t, propOverlapping) }
