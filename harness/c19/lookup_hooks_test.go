//go:build verif

// Package c19: assembly and pure-Go builds are observationally identical.
package c19

import (
	"fmt"
	"testing"

	"pgregory.net/rapid"

	secp256k1 "gitlab.com/yawning/secp256k1-voi"
	"gitlab.com/yawning/secp256k1-voi/verifharness/gen"
	"gitlab.com/yawning/secp256k1-voi/verifharness/stat"
)

const (
	sentinel = 0xa5a5a5a5a5a5a5a5
	guardPat = 0x5ac35ac35ac35ac3
)

// montOne is 1 in the Montgomery domain (2^256 mod p) as raw limbs.
var montOne = [4]uint64{0x1000003d1, 0, 0, 0}

func isPurego() bool { return portableBuild }

// lookupProjective runs the lookup under test with a sentinel-filled
// destination between two guard points and checks the specification.
func lookupProjective(tbl *[15][3][4]uint64, idx uint64, preValid bool) error {
	var buf [3][3][4]uint64
	for c := 0; c < 3; c++ {
		for l := 0; l < 4; l++ {
			buf[0][c][l], buf[2][c][l] = guardPat, guardPat^uint64(c*4+l)
			buf[1][c][l] = sentinel
		}
	}
	guards := buf
	valid := [3]bool{true, preValid, false}
	secp256k1.VerifLookupProjective(tbl, &buf, &valid, idx)
	var want [3][4]uint64
	if idx == 0 {
		want[1] = montOne
	} else {
		want = tbl[idx-1]
	}
	if buf[1] != want {
		return fmt.Errorf("projective lookup idx=%d: got %x want %x", idx, buf[1], want)
	}
	if buf[0] != guards[0] || buf[2] != guards[2] || valid[0] != true || valid[2] != false {
		return fmt.Errorf("projective lookup idx=%d wrote outside the destination", idx)
	}
	if !isPurego() && valid[1] != preValid {
		// the SSE2 routine must write only the coordinate bytes
		return fmt.Errorf("projective lookup idx=%d changed the destination's validity flag (%v -> %v)", idx, preValid, valid[1])
	}
	return nil
}

func lookupAffine(tbl *[15][2][4]uint64, idx uint64) error {
	var buf [3][2][4]uint64
	for c := 0; c < 2; c++ {
		for l := 0; l < 4; l++ {
			buf[0][c][l], buf[2][c][l] = guardPat, guardPat^uint64(c*4+l)
			// destination zeroed: the precondition every caller establishes
		}
	}
	guards := buf
	secp256k1.VerifLookupAffine(tbl, &buf, idx)
	var want [2][4]uint64
	if idx != 0 {
		want = tbl[idx-1]
	}
	if buf[1] != want {
		return fmt.Errorf("affine lookup idx=%d: got %x want %x", idx, buf[1], want)
	}
	if buf[0] != guards[0] || buf[2] != guards[2] {
		return fmt.Errorf("affine lookup idx=%d wrote outside the destination", idx)
	}
	return nil
}

// TestC19_LookupEnumeration: every idx x slot x limb position with the limb
// all-ones and with each single bit set, table otherwise zero.
func TestC19_LookupEnumeration(t *testing.T) {
	patterns := []uint64{^uint64(0)}
	for b := 0; b < 64; b++ {
		patterns = append(patterns, 1<<uint(b))
	}
	n := 0
	for slot := 0; slot < 15; slot++ {
		for limb := 0; limb < 12; limb++ {
			for pi, pat := range patterns {
				var tbl [15][3][4]uint64
				tbl[slot][limb/4][limb%4] = pat
				for idx := uint64(0); idx < 16; idx++ {
					if err := lookupProjective(&tbl, idx, (int(idx)+pi)%2 == 0); err != nil {
						t.Fatalf("slot %d limb %d pattern %x: %v", slot, limb, pat, err)
					}
					n++
				}
				if limb < 8 {
					var at [15][2][4]uint64
					at[slot][limb/4][limb%4] = pat
					for idx := uint64(0); idx < 16; idx++ {
						if err := lookupAffine(&at, idx); err != nil {
							t.Fatalf("slot %d limb %d pattern %x: %v", slot, limb, pat, err)
						}
						n++
					}
				}
				if pi < 2 {
					stat.Case("lookup-enum", []string{fmt.Sprintf("slot:%d", slot)}, true, []byte(fmt.Sprintf("%d/%d/%d", slot, limb, pi)), func() any {
						return map[string]any{"slot": slot, "limb": limb, "pattern": fmt.Sprintf("%x", pat), "indices": "0..15"}
					})
				} else {
					stat.Case("lookup-enum", nil, true, []byte(fmt.Sprintf("%d/%d/%d", slot, limb, pi)), nil)
				}
			}
		}
	}
	stat.Exhaustive("lookup-enum")
	if n != 15*12*65*16+15*8*65*16 {
		t.Fatalf("enumeration incomplete: %d", n)
	}
}

func propLookupRandom(t *rapid.T) {
	var tbl [15][3][4]uint64
	var at [15][2][4]uint64
	for s := 0; s < 15; s++ {
		for c := 0; c < 3; c++ {
			for l := 0; l < 4; l++ {
				tbl[s][c][l] = gen.Limb(t, "limb")
				if c < 2 {
					at[s][c][l] = tbl[s][c][l] ^ 0x1111
				}
			}
		}
	}
	idx := uint64(rapid.IntRange(0, 15).Draw(t, "idx"))
	pre := rapid.Bool().Draw(t, "prevalid")
	stat.Case("lookup-random", []string{fmt.Sprintf("idx:%d", idx)}, true, []byte(fmt.Sprint(tbl, idx, pre)), func() any {
		return map[string]any{"idx": idx, "slot0": fmt.Sprintf("%x", tbl[0])}
	})
	if err := lookupProjective(&tbl, idx, pre); err != nil {
		t.Fatal(err)
	}
	if err := lookupAffine(&at, idx); err != nil {
		t.Fatal(err)
	}
}

func TestC19_LookupRandom(t *testing.T) { rapid.Check(t, propLookupRandom) }
