//go:build verif

package c19

import (
	"fmt"
	"runtime/debug"
	"testing"
	"unsafe"

	secp256k1 "gitlab.com/yawning/secp256k1-voi"
	"gitlab.com/yawning/secp256k1-voi/verifharness/stat"
)

// TestC19_LookupAlignment: the Go types only guarantee 8-byte alignment for
// the tables and the destination, and the portable lookup works at any such
// address; so must the assembly.  Every combination of table and destination
// address modulo 16 in {0, 8} x every index, on a table of distinct limbs,
// with guard words around the destination (finite enumeration).
func TestC19_LookupAlignment(t *testing.T) {
	projTable, projEntry, affTable, affEntry := secp256k1.VerifTableLayout()
	if projEntry != 104 || affEntry != 64 || projTable != 15*projEntry || affTable != 15*affEntry {
		if portableBuild {
			// a 32-bit target lays the structs out differently; this enumeration addresses memory in 8-byte
			// words the way the amd64 assembly does and has nothing to say about such a build
			t.Skipf("table layout %d/%d %d/%d is not the amd64 one (portable build on another target)", projTable, projEntry, affTable, affEntry)
		}
		t.Fatalf("HARNESS-INCONCLUSIVE: unexpected table layout %d/%d %d/%d", projTable, projEntry, affTable, affEntry)
	}
	backing := make([]uint64, 4096) // 8-byte aligned words
	base := uintptr(unsafe.Pointer(&backing[0]))
	first := 0
	if base%16 != 0 {
		first = 1 // &backing[first] is 16-byte aligned
	}
	word := func(i int) unsafe.Pointer { return unsafe.Pointer(&backing[first+i]) }
	old := debug.SetPanicOnFault(true)
	defer debug.SetPanicOnFault(old)
	n := 0
	for _, tc := range []struct {
		name        string
		entryWords  int
		coordWords  int
		call        func(tbl, out unsafe.Pointer, idx uint64)
		identityOne bool
	}{
		{"lookupProjectivePoint", 13, 12, secp256k1.VerifLookupProjectiveRaw, true},
		{"lookupAffinePoint", 8, 8, secp256k1.VerifLookupAffineRaw, false},
	} {
		for tOff := 0; tOff < 2; tOff++ {
			for oOff := 0; oOff < 2; oOff++ {
				for idx := uint64(0); idx < 16; idx++ {
					for i := range backing {
						backing[i] = 0
					}
					tblAt := 16 + tOff       // word index: address = 16-aligned + 8*tOff
					outAt := 1024 + 2 + oOff // leave two guard words before
					for s := 0; s < 15; s++ {
						for w := 0; w < tc.coordWords; w++ {
							backing[first+tblAt+s*tc.entryWords+w] = 0x0101010101010101*uint64(s+1) ^ uint64(w)<<56 ^ 0x00f0f0f0f0f0f0f0
						}
					}
					if tc.identityOne { // projective destination holds a sentinel; affine must be zero (callers' precondition)
						for w := 0; w < tc.coordWords; w++ {
							backing[first+outAt+w] = sentinel
						}
					}
					backing[first+outAt-1], backing[first+outAt-2] = guardPat, guardPat
					backing[first+outAt+tc.entryWords], backing[first+outAt+tc.entryWords+1] = guardPat, guardPat
					var fault any
					func() {
						defer func() { fault = recover() }()
						tc.call(word(tblAt), word(outAt), idx)
					}()
					what := fmt.Sprintf("%s(idx=%d) with the table at an address = %d mod 16 and the destination at %d mod 16", tc.name, idx, 8*tOff, (8*(2+oOff))%16)
					if fault != nil {
						t.Fatalf("%s faulted: %v", what, fault)
					}
					for w := 0; w < tc.coordWords; w++ {
						var want uint64
						switch {
						case idx != 0:
							want = backing[first+tblAt+int(idx-1)*tc.entryWords+w]
						case tc.identityOne && w == 4:
							want = montOne[0]
						}
						if got := backing[first+outAt+w]; got != want {
							t.Fatalf("%s: coordinate word %d = %x, want %x", what, w, got, want)
						}
					}
					if backing[first+outAt-1] != guardPat || backing[first+outAt-2] != guardPat ||
						backing[first+outAt+tc.entryWords] != guardPat || backing[first+outAt+tc.entryWords+1] != guardPat {
						t.Fatalf("%s wrote outside its destination", what)
					}
					n++
					stat.Case("lookup-alignment", []string{tc.name, fmt.Sprintf("table:%dmod16", 8*tOff), fmt.Sprintf("dst:%dmod16", (8*(2+oOff))%16)}, true,
						[]byte(fmt.Sprintf("%s/%d/%d/%d", tc.name, tOff, oOff, idx)), func() any {
							return map[string]any{"routine": tc.name, "table_addr_mod16": 8 * tOff, "dst_addr_mod16": (8 * (2 + oOff)) % 16, "idx": idx}
						})
				}
			}
		}
	}
	stat.Exhaustive("lookup-alignment")
	if n != 2*2*2*16 {
		t.Fatalf("enumeration incomplete: %d", n)
	}
}
