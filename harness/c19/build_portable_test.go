//go:build !amd64 || purego

package c19

// portableBuild: see build_asm_test.go.
const portableBuild = true
