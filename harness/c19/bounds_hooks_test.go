//go:build verif && linux

package c19

import (
	"fmt"
	"os"
	"runtime/debug"
	"syscall"
	"testing"
	"unsafe"

	secp256k1 "gitlab.com/yawning/secp256k1-voi"
	"gitlab.com/yawning/secp256k1-voi/verifharness/stat"
)

// TestC19_LookupBounds: the portable lookup touches the 15 table entries and the destination and nothing else, so it
// works on a table (or a destination) whose neighbouring page is not mapped; so must the assembly ("observationally
// identical": a fault is an observation).  The table and the destination are placed flush against an inaccessible
// page, once below and once above, for every index (finite enumeration); the result must also be the right entry.
func TestC19_LookupBounds(t *testing.T) {
	projTable, projEntry, affTable, affEntry := secp256k1.VerifTableLayout()
	page := os.Getpagesize()
	if int(projTable) > page || projTable != 15*projEntry || affTable != 15*affEntry {
		t.Fatalf("HARNESS-INCONCLUSIVE: unexpected table layout %d/%d %d/%d", projTable, projEntry, affTable, affEntry)
	}
	// two independent areas of three pages each; the middle page is the accessible one
	area := func() []byte {
		mem, err := syscall.Mmap(-1, 0, 3*page, syscall.PROT_READ|syscall.PROT_WRITE, syscall.MAP_ANON|syscall.MAP_PRIVATE)
		if err != nil {
			t.Fatalf("HARNESS-INCONCLUSIVE: mmap: %v", err)
		}
		if err := syscall.Mprotect(mem[:page], syscall.PROT_NONE); err != nil {
			t.Fatalf("HARNESS-INCONCLUSIVE: mprotect: %v", err)
		}
		if err := syscall.Mprotect(mem[2*page:], syscall.PROT_NONE); err != nil {
			t.Fatalf("HARNESS-INCONCLUSIVE: mprotect: %v", err)
		}
		return mem
	}
	tArea, oArea := area(), area()
	defer syscall.Munmap(tArea)
	defer syscall.Munmap(oArea)
	old := debug.SetPanicOnFault(true)
	defer debug.SetPanicOnFault(old)
	// self-check of the observable: touching the guard pages does fault
	probe := func(p *byte) (faulted bool) {
		defer func() { faulted = recover() != nil }()
		return *p == 0xff && false
	}
	if !probe(&tArea[page-1]) || !probe(&oArea[2*page]) || probe(&tArea[page]) {
		t.Fatalf("HARNESS-INCONCLUSIVE: guard pages do not behave as expected")
	}
	n := 0
	for _, tc := range []struct {
		name                 string
		table, entry, coords int
		call                 func(tbl, out unsafe.Pointer, idx uint64)
		projective           bool
	}{
		{"lookupProjectivePoint", int(projTable), int(projEntry), 96, secp256k1.VerifLookupProjectiveRaw, true},
		{"lookupAffinePoint", int(affTable), int(affEntry), 64, secp256k1.VerifLookupAffineRaw, false},
	} {
		if tc.coords > tc.entry {
			t.Skipf("entry layout %d is not the 64-bit one", tc.entry)
		}
		for _, tblHigh := range []bool{false, true} {
			for _, outHigh := range []bool{false, true} {
				for idx := uint64(0); idx < 16; idx++ {
					mid := tArea[page : 2*page]
					for i := range mid {
						mid[i] = 0
					}
					tOff := 0
					if tblHigh {
						tOff = page - tc.table
					}
					for s := 0; s < 15; s++ {
						for b := 0; b < tc.coords; b++ {
							mid[tOff+s*tc.entry+b] = byte(17*(s+1) + b)
						}
					}
					omid := oArea[page : 2*page]
					for i := range omid {
						omid[i] = 0
					}
					oOff := 0
					if outHigh {
						oOff = page - tc.entry
					}
					var fault any
					func() {
						defer func() { fault = recover() }()
						tc.call(unsafe.Pointer(&mid[tOff]), unsafe.Pointer(&omid[oOff]), idx)
					}()
					side := map[bool]string{false: "starts right after", true: "ends right before"}
					what := fmt.Sprintf("%s(idx=%d) on a table that %s an unmapped page, into a destination that %s one", tc.name, idx, side[tblHigh], side[outHigh])
					if fault != nil {
						t.Fatalf("%s: fault (%v): the routine touches memory outside the table / the destination", what, fault)
					}
					if idx != 0 {
						for b := 0; b < tc.coords; b++ {
							if omid[oOff+b] != mid[tOff+int(idx-1)*tc.entry+b] {
								t.Fatalf("%s: destination byte %d = %#x, want %#x", what, b, omid[oOff+b], mid[tOff+int(idx-1)*tc.entry+b])
							}
						}
					}
					n++
					stat.Case("lookup-bounds", []string{tc.name, fmt.Sprintf("table-high:%v", tblHigh), fmt.Sprintf("dst-high:%v", outHigh)}, true,
						[]byte(fmt.Sprintf("%s/%v/%v/%d", tc.name, tblHigh, outHigh, idx)), func() any {
							return map[string]any{"routine": tc.name, "table_flush_against_unmapped_page_above": tblHigh, "dst_flush_above": outHigh, "idx": idx}
						})
				}
			}
		}
	}
	stat.Exhaustive("lookup-bounds")
	if n != 2*2*2*16 {
		t.Fatalf("enumeration incomplete: %d", n)
	}
}
