//go:build amd64 && !purego

package c19

// portableBuild reports whether this binary contains the portable (pure Go)
// table lookups rather than the assembly ones.  It mirrors the library's own
// build constraints (point_mul_table_amd64.go / point_mul_table_ref.go), so it
// is right for every configuration the driver builds (purego tag, 32-bit
// targets, GOAMD64 levels), whatever the driver calls it.
const portableBuild = false
