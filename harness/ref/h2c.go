package ref

import (
	"crypto/sha256"
	"crypto/sha512"
	"hash"
	"math/big"
)

// RFC 9380, secp256k1_XMD:SHA-256_SSWU_{RO,NU}_ (section 8.7).
var (
	IsoA = hexInt("3f8731abdd661adca08a5558f0f5d272e953d363cb6f0e5d405447c01a444533")
	IsoB = big.NewInt(1771)
	SwuZ = new(big.Int).Sub(P, big.NewInt(11))

	// Appendix E.1 3-isogeny map constants.
	k10 = hexInt("8e38e38e38e38e38e38e38e38e38e38e38e38e38e38e38e38e38e38daaaaa8c7")
	k11 = hexInt("07d3d4c80bc321d5b9f315cea7fd44c5d595d2fc0bf63b92dfff1044f17c6581")
	k12 = hexInt("534c328d23f234e6e2a413deca25caece4506144037c40314ecbd0b53d9dd262")
	k13 = hexInt("8e38e38e38e38e38e38e38e38e38e38e38e38e38e38e38e38e38e38daaaaa88c")
	k20 = hexInt("d35771193d94918a9ca34ccbb7b640dd86cd409542f8487d9fe6b745781eb49b")
	k21 = hexInt("edadc6f64383dc1df7c4b2d51b54225406d36b641f5e41bbc52a56612a8c6d14")
	k30 = hexInt("4bda12f684bda12f684bda12f684bda12f684bda12f684bda12f684b8e38e23c")
	k31 = hexInt("c75e0c32d5cb7c0fa9d0a54b12a0a6d5647ab046d686da6fdffc90fc201d71a3")
	k32 = hexInt("29a6194691f91a73715209ef6512e576722830a201be2018a765e85a9ecee931")
	k33 = hexInt("2f684bda12f684bda12f684bda12f684bda12f684bda12f684bda12f38e38d84")
	k40 = hexInt("fffffffffffffffffffffffffffffffffffffffffffffffffffffffefffff93b")
	k41 = hexInt("7a06534bb8bdb49fd5e9e6632722c2989467c1bfc8e8d978dfb425d2685c2573")
	k42 = hexInt("6484aa716545ca2cf3a70c3fa8fe337e0a3d21162f0d6299a7bf8192bfd2a76f")
)

// ExpandMessageXMD is RFC 9380 5.3.1 (with 5.3.3 for oversize DSTs).
// which = 256 or 512 selects SHA-256 / SHA-512.  ok=false on ABORT.
func ExpandMessageXMD(which int, msg, dst []byte, lenInBytes int) ([]byte, bool) {
	var newH func() hash.Hash
	var bInBytes, sInBytes int
	switch which {
	case 256:
		newH, bInBytes, sInBytes = sha256.New, 32, 64
	case 512:
		newH, bInBytes, sInBytes = sha512.New, 64, 128
	default:
		panic("ref: unknown hash")
	}
	H := func(parts ...[]byte) []byte {
		h := newH()
		for _, p := range parts {
			h.Write(p)
		}
		return h.Sum(nil)
	}
	if len(dst) > 255 {
		dst = H([]byte("H2C-OVERSIZE-DST-"), dst)
	}
	ell := (lenInBytes + bInBytes - 1) / bInBytes
	if ell > 255 || lenInBytes > 65535 || len(dst) > 255 {
		return nil, false
	}
	dstPrime := append(append([]byte(nil), dst...), byte(len(dst)))
	zPad := make([]byte, sInBytes)
	lib := []byte{byte(lenInBytes >> 8), byte(lenInBytes)}
	b0 := H(zPad, msg, lib, []byte{0}, dstPrime)
	bs := make([][]byte, ell+1)
	if ell >= 1 {
		bs[1] = H(b0, []byte{1}, dstPrime)
	}
	for i := 2; i <= ell; i++ {
		x := make([]byte, len(b0))
		for j := range x {
			x[j] = b0[j] ^ bs[i-1][j]
		}
		bs[i] = H(x, []byte{byte(i)}, dstPrime)
	}
	var uniform []byte
	for i := 1; i <= ell; i++ {
		uniform = append(uniform, bs[i]...)
	}
	return uniform[:lenInBytes], true
}

// HashToField is RFC 9380 5.2 for F_p, m = 1, L = 48.
func HashToField(msg, dst []byte, count int) ([]*big.Int, bool) {
	const L = 48
	ub, ok := ExpandMessageXMD(256, msg, dst, count*L)
	if !ok {
		return nil, false
	}
	out := make([]*big.Int, count)
	for i := 0; i < count; i++ {
		out[i] = Mod(Int(ub[i*L:(i+1)*L]), P)
	}
	return out, true
}

// Sgn0 for m = 1.
func Sgn0(x *big.Int) uint { return Mod(x, P).Bit(0) }

// MapToCurveSimpleSWU is the *generic* (non straight-line) simplified SWU
// of RFC 9380 6.6.2 for the curve y^2 = x^3 + A x + B with Z.
func MapToCurveSimpleSWU(u *big.Int) (x, y *big.Int) {
	A, B, Z := IsoA, IsoB, SwuZ
	g := func(x *big.Int) *big.Int {
		return AddM(AddM(MulM(MulM(x, x, P), x, P), MulM(A, x, P), P), B, P)
	}
	u = Mod(u, P)
	u2 := MulM(u, u, P)
	zu2 := MulM(Z, u2, P)
	// tv1 = inv0(Z^2 u^4 + Z u^2)
	tv1 := Inv0(AddM(MulM(zu2, zu2, P), zu2, P), P)
	// x1 = (-B/A) (1 + tv1); if tv1 == 0, x1 = B / (Z A)
	var x1 *big.Int
	if tv1.Sign() == 0 {
		x1 = MulM(B, Inv0(MulM(Z, A, P), P), P)
	} else {
		x1 = MulM(MulM(NegM(B, P), Inv0(A, P), P), AddM(one, tv1, P), P)
	}
	gx1 := g(x1)
	x2 := MulM(zu2, x1, P)
	gx2 := g(x2)
	if IsSquareP(gx1) {
		x = x1
		y, _ = SqrtP(gx1)
	} else {
		x = x2
		var ok bool
		y, ok = SqrtP(gx2)
		if !ok {
			panic("ref: SWU: neither gx1 nor gx2 is square")
		}
	}
	if Sgn0(u) != Sgn0(y) {
		y = NegM(y, P)
	}
	return x, y
}

// IsoMap is the 3-isogeny map of RFC 9380 appendix E.1.  ok=false when a
// denominator vanishes (the result is then the identity on E).
func IsoMap(xp, yp *big.Int) (x, y *big.Int, ok bool) {
	x2 := MulM(xp, xp, P)
	x3 := MulM(x2, xp, P)
	poly := func(c0, c1, c2, c3 *big.Int) *big.Int {
		r := new(big.Int).Set(c0)
		r = AddM(r, MulM(c1, xp, P), P)
		r = AddM(r, MulM(c2, x2, P), P)
		r = AddM(r, MulM(c3, x3, P), P)
		return r
	}
	xNum := poly(k10, k11, k12, k13)
	xDen := poly(k20, k21, one, zero)
	yNum := poly(k30, k31, k32, k33)
	yDen := poly(k40, k41, k42, one)
	if xDen.Sign() == 0 || yDen.Sign() == 0 {
		return nil, nil, false
	}
	x = MulM(xNum, Inv0(xDen, P), P)
	y = MulM(yp, MulM(yNum, Inv0(yDen, P), P), P)
	return x, y, true
}

// MapToCurve is map_to_curve for the secp256k1 suites: SWU on E' then the
// isogeny.
func MapToCurve(u *big.Int) Pt {
	xp, yp := MapToCurveSimpleSWU(u)
	x, y, ok := IsoMap(xp, yp)
	if !ok {
		return Infinity()
	}
	return Pt{X: x, Y: y}
}

// HashToCurveRO is secp256k1_XMD:SHA-256_SSWU_RO_.
func HashToCurveRO(msg, dst []byte) (Pt, bool) {
	u, ok := HashToField(msg, dst, 2)
	if !ok {
		return Pt{}, false
	}
	return MapToCurve(u[0]).Add(MapToCurve(u[1])), true
}

// EncodeToCurveNU is secp256k1_XMD:SHA-256_SSWU_NU_.
func EncodeToCurveNU(msg, dst []byte) (Pt, bool) {
	u, ok := HashToField(msg, dst, 1)
	if !ok {
		return Pt{}, false
	}
	return MapToCurve(u[0]), true
}

// OnIsoCurve reports y^2 = x^3 + A' x + B'.
func OnIsoCurve(x, y *big.Int) bool {
	rhs := AddM(AddM(MulM(MulM(x, x, P), x, P), MulM(IsoA, x, P), P), IsoB, P)
	return MulM(y, y, P).Cmp(rhs) == 0
}

// SWUFirstCandidateIsSquare reports whether g(x1) is a square for u (which
// branch of the simplified SWU map is taken).
func SWUFirstCandidateIsSquare(u *big.Int) bool {
	A, B, Z := IsoA, IsoB, SwuZ
	u = Mod(u, P)
	zu2 := MulM(Z, MulM(u, u, P), P)
	tv1 := Inv0(AddM(MulM(zu2, zu2, P), zu2, P), P)
	var x1 *big.Int
	if tv1.Sign() == 0 {
		x1 = MulM(B, Inv0(MulM(Z, A, P), P), P)
	} else {
		x1 = MulM(MulM(NegM(B, P), Inv0(A, P), P), AddM(one, tv1, P), P)
	}
	gx1 := AddM(AddM(MulM(MulM(x1, x1, P), x1, P), MulM(A, x1, P), P), B, P)
	return IsSquareP(gx1)
}
