package ref

import (
	"bytes"
	"math/big"
)

// derInt is the minimal two's-complement DER content of a non-negative integer.
func derInt(v *big.Int) []byte {
	if v.Sign() < 0 {
		panic("ref: negative DER integer")
	}
	b := v.Bytes()
	if len(b) == 0 {
		return []byte{0}
	}
	if b[0]&0x80 != 0 {
		b = append([]byte{0}, b...)
	}
	return b
}

func derLen(n int) []byte {
	switch {
	case n < 0x80:
		return []byte{byte(n)}
	case n < 0x100:
		return []byte{0x81, byte(n)}
	default:
		return []byte{0x82, byte(n >> 8), byte(n)}
	}
}

// DERTLV builds tag || minimal length || content.
func DERTLV(tag byte, content []byte) []byte {
	out := append([]byte{tag}, derLen(len(content))...)
	return append(out, content...)
}

// EncodeDERSig is the unique strict-DER encoding of SEQUENCE{INTEGER r, INTEGER s}.
func EncodeDERSig(r, s *big.Int) []byte {
	body := append(DERTLV(0x02, derInt(r)), DERTLV(0x02, derInt(s))...)
	return DERTLV(0x30, body)
}

// ParseDERSigStrict accepts x iff there are r,s in [1,n) with
// EncodeDERSig(r,s) == x (unique-encoding oracle).
func ParseDERSigStrict(x []byte) (r, s *big.Int, ok bool) {
	// Any accepted x is at most 2+2+33+2+33 = 72 bytes with short-form lengths.
	if len(x) < 8 || len(x) > 72 || x[0] != 0x30 || int(x[1]) != len(x)-2 {
		return nil, nil, false
	}
	if x[2] != 0x02 {
		return nil, nil, false
	}
	lr := int(x[3])
	if lr == 0 || 4+lr+2 > len(x) {
		return nil, nil, false
	}
	rb := x[4 : 4+lr]
	if x[4+lr] != 0x02 {
		return nil, nil, false
	}
	ls := int(x[5+lr])
	if ls == 0 || 6+lr+ls != len(x) {
		return nil, nil, false
	}
	sb := x[6+lr:]
	r, s = Int(rb), Int(sb)
	if r.Sign() == 0 || s.Sign() == 0 || r.Cmp(N) >= 0 || s.Cmp(N) >= 0 {
		return nil, nil, false
	}
	if !bytes.Equal(EncodeDERSig(r, s), x) {
		return nil, nil, false
	}
	return r, s, true
}

// ParseCompactStrict: 64 bytes, both halves in [1,n).
func ParseCompactStrict(x []byte) (r, s *big.Int, ok bool) {
	if len(x) != 64 {
		return nil, nil, false
	}
	r, s = Int(x[:32]), Int(x[32:])
	if r.Sign() == 0 || s.Sign() == 0 || r.Cmp(N) >= 0 || s.Cmp(N) >= 0 {
		return nil, nil, false
	}
	return r, s, true
}

// ParseCompactRecoverableStrict: 65 bytes, [r|s|v]; v is passed through.
func ParseCompactRecoverableStrict(x []byte) (r, s *big.Int, v byte, ok bool) {
	if len(x) != 65 {
		return nil, nil, 0, false
	}
	r, s, ok = ParseCompactStrict(x[:64])
	return r, s, x[64], ok
}

// cursor is a tiny structural reader for the BIP-66 recogniser.
type cursor struct {
	b   []byte
	bad bool
}

func (c *cursor) byte() byte {
	if len(c.b) == 0 {
		c.bad = true
		return 0
	}
	v := c.b[0]
	c.b = c.b[1:]
	return v
}

func (c *cursor) take(n int) []byte {
	if n > len(c.b) {
		c.bad = true
		return nil
	}
	v := c.b[:n]
	c.b = c.b[n:]
	return v
}

func bip66Int(c *cursor) bool {
	if c.byte() != 0x02 {
		return false
	}
	l := int(c.byte())
	v := c.take(l)
	if c.bad || l == 0 {
		return false
	}
	if v[0]&0x80 != 0 {
		return false // negative
	}
	if l > 1 && v[0] == 0 && v[1]&0x80 == 0 {
		return false // non-minimal
	}
	return true
}

// IsBIP66 recognises the BIP-66 grammar structurally:
// 0x30 [len] 0x02 [lenR] R 0x02 [lenS] S [sighash], 9..73 bytes,
// len covering everything but the sighash byte, minimal non-negative integers.
func IsBIP66(x []byte) bool {
	if len(x) < 9 || len(x) > 73 {
		return false
	}
	c := &cursor{b: x}
	if c.byte() != 0x30 {
		return false
	}
	total := int(c.byte())
	if total != len(x)-3 {
		return false
	}
	body := &cursor{b: c.take(total)}
	if c.bad {
		return false
	}
	if !bip66Int(body) || !bip66Int(body) || body.bad || len(body.b) != 0 {
		return false
	}
	// exactly one sighash byte must remain
	return len(c.b) == 1
}

// SPKI prefixes: SEQUENCE{SEQUENCE{OID ecPublicKey, OID secp256k1}, BIT STRING(0 unused)}.
var (
	spkiAlg = []byte{0x30, 0x10,
		0x06, 0x07, 0x2a, 0x86, 0x48, 0xce, 0x3d, 0x02, 0x01,
		0x06, 0x05, 0x2b, 0x81, 0x04, 0x00, 0x0a}
	SPKIPrefixUncompressed = append(append([]byte{0x30, 0x56}, spkiAlg...), 0x03, 0x42, 0x00)
	SPKIPrefixCompressed   = append(append([]byte{0x30, 0x36}, spkiAlg...), 0x03, 0x22, 0x00)
)

// ParseSPKIStrict accepts exactly prefix || valid SEC 1 encoding of a
// non-identity point (uncompressed or compressed).
func ParseSPKIStrict(x []byte) (Pt, bool) {
	for _, pre := range [][]byte{SPKIPrefixUncompressed, SPKIPrefixCompressed} {
		if bytes.HasPrefix(x, pre) {
			rest := x[len(pre):]
			want := 65
			if len(pre) > 0 && pre[1] == 0x36 {
				want = 33
			}
			if len(rest) != want {
				return Pt{}, false
			}
			p, ok := DecodePoint(rest)
			if !ok || p.Inf {
				return Pt{}, false
			}
			return p, true
		}
	}
	return Pt{}, false
}

// EncodeSPKI returns the canonical SubjectPublicKeyInfo of p (uncompressed).
func EncodeSPKI(p Pt) []byte {
	return append(append([]byte(nil), SPKIPrefixUncompressed...), p.Uncompressed()...)
}
