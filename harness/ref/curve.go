// Package ref holds independent reference models written from the
// standards with math/big only.  It shares no code with the library under
// test and is the trusted base of every oracle in this harness.
package ref

import (
	"math/big"
	"sync"
)

func hexInt(s string) *big.Int {
	v, ok := new(big.Int).SetString(s, 16)
	if !ok {
		panic("ref: bad hex constant " + s)
	}
	return v
}

var (
	// P is the field prime 2^256 - 2^32 - 977.
	P = hexInt("fffffffffffffffffffffffffffffffffffffffffffffffffffffffefffffc2f")
	// N is the group order.
	N = hexInt("fffffffffffffffffffffffffffffffebaaedce6af48a03bbfd25e8cd0364141")
	// Gx, Gy are the generator coordinates (SEC 2 2.4.1).
	Gx = hexInt("79be667ef9dcbbac55a06295ce870b07029bfcdb2dce28d959f2815b16f81798")
	Gy = hexInt("483ada7726a3c4655da4fbfc0e1108a8fd17b448a68554199c47d08ffb10d4b8")

	// Lambda, Beta: the GLV endomorphism constants (lambda^3 = 1 mod n, beta^3 = 1 mod p).
	Lambda = hexInt("5363ad4cc05c30e0a5261c028812645a122e22ea20816678df02967c1b23bd72")
	Beta   = hexInt("7ae96a2b657c07106e64479eac3434e99cf0497512f58995c1396c28719501ee")

	Two256 = new(big.Int).Lsh(big.NewInt(1), 256)
	HalfN  = new(big.Int).Rsh(N, 1) // (n-1)/2

	zero  = big.NewInt(0)
	one   = big.NewInt(1)
	two   = big.NewInt(2)
	three = big.NewInt(3)
	seven = big.NewInt(7)
)

// Mod returns a mod m in [0,m).
func Mod(a, m *big.Int) *big.Int { return new(big.Int).Mod(a, m) }

// AddM, SubM, MulM, NegM are arithmetic modulo m.
func AddM(a, b, m *big.Int) *big.Int { return Mod(new(big.Int).Add(a, b), m) }
func SubM(a, b, m *big.Int) *big.Int { return Mod(new(big.Int).Sub(a, b), m) }
func MulM(a, b, m *big.Int) *big.Int { return Mod(new(big.Int).Mul(a, b), m) }
func NegM(a, m *big.Int) *big.Int    { return Mod(new(big.Int).Neg(a), m) }
func ExpM(a, e, m *big.Int) *big.Int { return new(big.Int).Exp(a, e, m) }

// Inv0 returns a^-1 mod m with Inv0(0) = 0 (m prime).
func Inv0(a, m *big.Int) *big.Int {
	a = Mod(a, m)
	if a.Sign() == 0 {
		return new(big.Int)
	}
	return new(big.Int).ModInverse(a, m)
}

// IsSquareP is Euler's criterion over F_p (0 counts as a square).
func IsSquareP(a *big.Int) bool {
	a = Mod(a, P)
	if a.Sign() == 0 {
		return true
	}
	e := new(big.Int).Rsh(new(big.Int).Sub(P, one), 1)
	return ExpM(a, e, P).Cmp(one) == 0
}

// SqrtP returns a square root of a mod p if one exists (p = 3 mod 4).
func SqrtP(a *big.Int) (*big.Int, bool) {
	a = Mod(a, P)
	e := new(big.Int).Rsh(new(big.Int).Add(P, one), 2)
	r := ExpM(a, e, P)
	if MulM(r, r, P).Cmp(a) != 0 {
		return nil, false
	}
	return r, true
}

// CbrtP returns the cube roots of a mod p (p = 7 mod 9, so a^((p+2)/9)
// is a cube root when a is a cubic residue); zero, one or three results.
func CbrtP(a *big.Int) []*big.Int {
	a = Mod(a, P)
	if a.Sign() == 0 {
		return []*big.Int{new(big.Int)}
	}
	e := new(big.Int).Div(new(big.Int).Add(P, two), big.NewInt(9))
	r := ExpM(a, e, P)
	var out []*big.Int
	w := big.NewInt(1)
	for i := 0; i < 3; i++ {
		c := MulM(r, w, P)
		if ExpM(c, three, P).Cmp(a) == 0 {
			out = append(out, c)
		}
		w = MulM(w, Beta, P)
	}
	return out
}

// Pt is an affine point; Inf marks the point at infinity.
type Pt struct {
	X, Y *big.Int
	Inf  bool
}

// Infinity returns the identity.
func Infinity() Pt { return Pt{Inf: true} }

// G returns the generator.
func G() Pt { return Pt{X: new(big.Int).Set(Gx), Y: new(big.Int).Set(Gy)} }

// OnCurve reports y^2 = x^3 + 7 for canonical x,y.
func OnCurve(x, y *big.Int) bool {
	if x.Sign() < 0 || y.Sign() < 0 || x.Cmp(P) >= 0 || y.Cmp(P) >= 0 {
		return false
	}
	return MulM(y, y, P).Cmp(RHS(x)) == 0
}

// RHS returns x^3 + 7 mod p.
func RHS(x *big.Int) *big.Int {
	return AddM(MulM(MulM(x, x, P), x, P), seven, P)
}

// Valid reports whether a is the identity or on the curve.
func (a Pt) Valid() bool { return a.Inf || OnCurve(a.X, a.Y) }

// Eq is equality of abstract points.
func (a Pt) Eq(b Pt) bool {
	if a.Inf || b.Inf {
		return a.Inf && b.Inf
	}
	return a.X.Cmp(b.X) == 0 && a.Y.Cmp(b.Y) == 0
}

// Neg returns -a.
func (a Pt) Neg() Pt {
	if a.Inf {
		return a
	}
	return Pt{X: new(big.Int).Set(a.X), Y: NegM(a.Y, P)}
}

// Double returns 2a (textbook affine).
func (a Pt) Double() Pt {
	if a.Inf || a.Y.Sign() == 0 {
		return Infinity()
	}
	// l = 3x^2 / 2y
	num := MulM(three, MulM(a.X, a.X, P), P)
	den := Inv0(MulM(two, a.Y, P), P)
	l := MulM(num, den, P)
	x3 := SubM(MulM(l, l, P), MulM(two, a.X, P), P)
	y3 := SubM(MulM(l, SubM(a.X, x3, P), P), a.Y, P)
	return Pt{X: x3, Y: y3}
}

// Add returns a+b (textbook affine, all cases).
func (a Pt) Add(b Pt) Pt {
	if a.Inf {
		return b
	}
	if b.Inf {
		return a
	}
	if a.X.Cmp(b.X) == 0 {
		if a.Y.Cmp(b.Y) == 0 {
			return a.Double()
		}
		return Infinity()
	}
	l := MulM(SubM(b.Y, a.Y, P), Inv0(SubM(b.X, a.X, P), P), P)
	x3 := SubM(SubM(MulM(l, l, P), a.X, P), b.X, P)
	y3 := SubM(MulM(l, SubM(a.X, x3, P), P), a.Y, P)
	return Pt{X: x3, Y: y3}
}

// Sub returns a-b.
func (a Pt) Sub(b Pt) Pt { return a.Add(b.Neg()) }

// jac is a Jacobian point used only to make Mul fast; it is validated
// against the affine textbook law by the self-test.
type jac struct{ x, y, z *big.Int }

func (a Pt) toJac() jac {
	if a.Inf {
		return jac{big.NewInt(1), big.NewInt(1), big.NewInt(0)}
	}
	return jac{new(big.Int).Set(a.X), new(big.Int).Set(a.Y), big.NewInt(1)}
}

func (j jac) toAff() Pt {
	if j.z.Sign() == 0 {
		return Infinity()
	}
	zi := Inv0(j.z, P)
	zi2 := MulM(zi, zi, P)
	return Pt{X: MulM(j.x, zi2, P), Y: MulM(j.y, MulM(zi2, zi, P), P)}
}

func (j jac) dbl() jac {
	if j.z.Sign() == 0 || j.y.Sign() == 0 {
		return jac{big.NewInt(1), big.NewInt(1), big.NewInt(0)}
	}
	// a = 0: standard dbl-2009-l style formulas written with plain mod ops.
	ysq := MulM(j.y, j.y, P)
	s := MulM(big.NewInt(4), MulM(j.x, ysq, P), P)
	m := MulM(three, MulM(j.x, j.x, P), P)
	x3 := SubM(MulM(m, m, P), MulM(two, s, P), P)
	y3 := SubM(MulM(m, SubM(s, x3, P), P), MulM(big.NewInt(8), MulM(ysq, ysq, P), P), P)
	z3 := MulM(two, MulM(j.y, j.z, P), P)
	return jac{x3, y3, z3}
}

func (j jac) add(k jac) jac {
	if j.z.Sign() == 0 {
		return k
	}
	if k.z.Sign() == 0 {
		return j
	}
	z1z1 := MulM(j.z, j.z, P)
	z2z2 := MulM(k.z, k.z, P)
	u1 := MulM(j.x, z2z2, P)
	u2 := MulM(k.x, z1z1, P)
	s1 := MulM(j.y, MulM(z2z2, k.z, P), P)
	s2 := MulM(k.y, MulM(z1z1, j.z, P), P)
	if u1.Cmp(u2) == 0 {
		if s1.Cmp(s2) == 0 {
			return j.dbl()
		}
		return jac{big.NewInt(1), big.NewInt(1), big.NewInt(0)}
	}
	h := SubM(u2, u1, P)
	r := SubM(s2, s1, P)
	h2 := MulM(h, h, P)
	h3 := MulM(h2, h, P)
	u1h2 := MulM(u1, h2, P)
	x3 := SubM(SubM(MulM(r, r, P), h3, P), MulM(two, u1h2, P), P)
	y3 := SubM(MulM(r, SubM(u1h2, x3, P), P), MulM(s1, h3, P), P)
	z3 := MulM(h, MulM(j.z, k.z, P), P)
	return jac{x3, y3, z3}
}

// Mul returns k*a for any integer k (reduced mod n), left-to-right
// double-and-add.
func (a Pt) Mul(k *big.Int) Pt {
	k = Mod(k, N)
	acc := Infinity().toJac()
	base := a.toJac()
	for i := k.BitLen() - 1; i >= 0; i-- {
		acc = acc.dbl()
		if k.Bit(i) == 1 {
			acc = acc.add(base)
		}
	}
	return acc.toAff()
}

// MulAffine is the slow all-affine double-and-add (used to validate Mul).
func (a Pt) MulAffine(k *big.Int) Pt {
	k = Mod(k, N)
	acc := Infinity()
	for i := k.BitLen() - 1; i >= 0; i-- {
		acc = acc.Double()
		if k.Bit(i) == 1 {
			acc = acc.Add(a)
		}
	}
	return acc
}

var (
	baseOnce sync.Once
	basePow  [256]jac // 2^i * G
)

// BaseMul returns k*G (sum over the set bits of k of precomputed 2^i*G;
// checked against the generic ladder by the self-test).
func BaseMul(k *big.Int) Pt {
	baseOnce.Do(func() {
		cur := G()
		for i := range basePow {
			basePow[i] = cur.toJac()
			cur = cur.Double()
		}
	})
	k = Mod(k, N)
	acc := Infinity().toJac()
	for i := 0; i < k.BitLen(); i++ {
		if k.Bit(i) == 1 {
			acc = acc.add(basePow[i])
		}
	}
	return acc.toAff()
}

// LiftX returns the point with the given x and y parity, if x < p is on the curve.
func LiftX(x *big.Int, odd bool) (Pt, bool) {
	if x.Sign() < 0 || x.Cmp(P) >= 0 {
		return Pt{}, false
	}
	y, ok := SqrtP(RHS(x))
	if !ok {
		return Pt{}, false
	}
	if (y.Bit(0) == 1) != odd {
		y = NegM(y, P)
	}
	return Pt{X: new(big.Int).Set(x), Y: y}, true
}

// B32 is the 32-byte big-endian encoding of v (v < 2^256).
func B32(v *big.Int) []byte {
	if v.Sign() < 0 || v.BitLen() > 256 {
		panic("ref: B32 out of range")
	}
	return v.FillBytes(make([]byte, 32))
}

// Int is OS2IP.
func Int(b []byte) *big.Int { return new(big.Int).SetBytes(b) }

// Compressed returns the SEC 1 compressed (or identity) encoding.
func (a Pt) Compressed() []byte {
	if a.Inf {
		return []byte{0}
	}
	return append([]byte{byte(2 + a.Y.Bit(0))}, B32(a.X)...)
}

// Uncompressed returns the SEC 1 uncompressed (or identity) encoding.
func (a Pt) Uncompressed() []byte {
	if a.Inf {
		return []byte{0}
	}
	return append(append([]byte{4}, B32(a.X)...), B32(a.Y)...)
}

// DecodePoint is the strict SEC 1 2.3.4 decoder restricted to the formats
// the library documents: 0x00, 0x02/0x03 || X, 0x04 || X || Y.
func DecodePoint(b []byte) (Pt, bool) {
	switch len(b) {
	case 1:
		if b[0] == 0 {
			return Infinity(), true
		}
	case 33:
		if b[0] != 2 && b[0] != 3 {
			return Pt{}, false
		}
		return LiftX(Int(b[1:]), b[0] == 3)
	case 65:
		if b[0] != 4 {
			return Pt{}, false
		}
		x, y := Int(b[1:33]), Int(b[33:])
		if !OnCurve(x, y) {
			return Pt{}, false
		}
		return Pt{X: x, Y: y}, true
	}
	return Pt{}, false
}

// String for diagnostics.
func (a Pt) String() string {
	if a.Inf {
		return "O"
	}
	return "(" + a.X.Text(16) + "," + a.Y.Text(16) + ")"
}
