package ref

import (
	"bytes"
	"crypto/sha256"
	"encoding/csv"
	"encoding/hex"
	"encoding/json"
	"math/big"
	"os"
	"strings"
	"testing"
)

func mustHex(t *testing.T, s string) []byte {
	s = strings.TrimPrefix(s, "0x")
	if len(s)%2 == 1 {
		s = "0" + s
	}
	b, err := hex.DecodeString(s)
	if err != nil {
		t.Fatalf("bad hex %q", s)
	}
	return b
}

func TestSelfCurve(t *testing.T) {
	if !G().Valid() {
		t.Fatal("G not on curve")
	}
	if !BaseMul(N).Inf || !G().MulAffine(N).Inf {
		t.Fatal("nG != O")
	}
	two := G().Double()
	if two.X.Text(16) != "c6047f9441ed7d6d3045406e95c07cd85c778e4b8cef3ca7abac09b95c709ee5" {
		t.Fatal("2G wrong")
	}
	threeG := two.Add(G())
	if threeG.X.Text(16) != "f9308a019258c31049344f85f89d5229b531c845836f99b08601f113bce036f9" {
		t.Fatal("3G wrong")
	}
	// Jacobian Mul agrees with the affine textbook ladder.
	ks := []*big.Int{big.NewInt(0), big.NewInt(1), big.NewInt(2), big.NewInt(3), new(big.Int).Sub(N, one), HalfN, Lambda,
		hexInt("deadbeef0123456789abcdef00112233445566778899aabbccddeeff01020304"), new(big.Int).Add(HalfN, one)}
	pts := []Pt{G(), threeG, Infinity(), G().Neg()}
	for _, k := range ks {
		for _, p := range pts {
			if !p.Mul(k).Eq(p.MulAffine(k)) {
				t.Fatalf("Mul mismatch k=%x", k)
			}
			if !BaseMul(k).Eq(G().MulAffine(k)) {
				t.Fatalf("BaseMul mismatch k=%x", k)
			}
			if !p.Mul(k).Valid() {
				t.Fatal("Mul result invalid")
			}
		}
	}
	// endomorphism
	if ExpM(Lambda, three, N).Cmp(one) != 0 || ExpM(Beta, three, P).Cmp(one) != 0 {
		t.Fatal("lambda/beta not cube roots of unity")
	}
	lg := G().Mul(Lambda)
	if lg.X.Cmp(MulM(Beta, Gx, P)) != 0 || lg.Y.Cmp(Gy) != 0 {
		t.Fatal("lambda*G != (beta*x, y)")
	}
	// GLV basis
	for _, ab := range [][2]*big.Int{{GLVa1, GLVb1}, {GLVa2, GLVb2}} {
		if Mod(new(big.Int).Add(ab[0], new(big.Int).Mul(ab[1], Lambda)), N).Sign() != 0 {
			t.Fatal("GLV basis vector not in lattice")
		}
	}
	det := new(big.Int).Sub(new(big.Int).Mul(GLVa1, GLVb2), new(big.Int).Mul(GLVa2, GLVb1))
	if det.Cmp(N) != 0 {
		t.Fatalf("GLV det != n: %x", det)
	}
	// g1 = round(2^384*b2/n), g2 = round(2^384*(-b1)/n)
	rnd := func(num *big.Int) *big.Int {
		x := new(big.Int).Lsh(num, 385)
		x.Add(x, N)
		return x.Div(x, new(big.Int).Lsh(N, 1))
	}
	if rnd(GLVb2).Cmp(GLVg1) != 0 || rnd(new(big.Int).Neg(GLVb1)).Cmp(GLVg2) != 0 {
		t.Fatal("GLV g1/g2 constants wrong")
	}
	for _, k := range ks {
		k = Mod(k, N)
		k1, k2 := SplitGLV(k)
		if AddM(k1, MulM(k2, Lambda, N), N).Cmp(k) != 0 {
			t.Fatal("split does not recombine")
		}
		if AbsN(k1).BitLen() > 128 || AbsN(k2).BitLen() > 128 {
			t.Fatal("split half too large")
		}
	}
	// Montgomery model
	a, b := hexInt("123456789abcdef"), Gx
	tt := MontPre(ToM(a, P), ToM(b, P), P)
	if Mod(tt, P).Cmp(ToM(MulM(a, b, P), P)) != 0 {
		t.Fatal("MontPre wrong")
	}
	if FromLimbs(Limbs(Gx)).Cmp(Gx) != 0 {
		t.Fatal("limbs")
	}
	// cube roots
	for _, c := range CbrtP(big.NewInt(8)) {
		if ExpM(c, three, P).Cmp(big.NewInt(8)) != 0 {
			t.Fatal("cbrt")
		}
	}
	if len(CbrtP(big.NewInt(8))) != 3 {
		t.Fatal("cbrt count")
	}
	// point codec
	for _, p := range []Pt{G(), threeG, Infinity(), G().Neg()} {
		for _, enc := range [][]byte{p.Compressed(), p.Uncompressed()} {
			q, ok := DecodePoint(enc)
			if !ok || !q.Eq(p) {
				t.Fatal("codec roundtrip")
			}
		}
	}
}

func TestSelfBIP340(t *testing.T) {
	f, err := os.Open("testdata/bip-0340-test-vectors.csv")
	if err != nil {
		t.Fatal(err)
	}
	defer f.Close()
	rows, err := csv.NewReader(f).ReadAll()
	if err != nil {
		t.Fatal(err)
	}
	n := 0
	for _, row := range rows[1:] {
		sk, pk, aux, msg, sig, res := row[1], row[2], row[3], row[4], row[5], row[6]
		pkb, msgb, sigb := mustHex(t, pk), mustHex(t, msg), mustHex(t, sig)
		want := res == "TRUE"
		if got := BIP340Verify(pkb, msgb, sigb); got != want {
			t.Fatalf("row %s verify got %v want %v", row[0], got, want)
		}
		if sk != "" {
			d := Int(mustHex(t, sk))
			got, ok := BIP340Sign(d, mustHex(t, aux), msgb)
			if !ok || !bytes.Equal(got, sigb) {
				t.Fatalf("row %s sign mismatch", row[0])
			}
			n++
		}
	}
	if n < 4 || len(rows) < 15 {
		t.Fatalf("too few vectors %d/%d", n, len(rows))
	}
}

func TestSelfRFC6979(t *testing.T) {
	f, err := os.Open("testdata/secp256k1_rfc6979_sha256.csv")
	if err != nil {
		t.Fatal(err)
	}
	defer f.Close()
	rd := csv.NewReader(f)
	rd.Comment = '#'
	rows, err := rd.ReadAll()
	if err != nil {
		t.Fatal(err)
	}
	if len(rows) < 10 {
		t.Fatal("too few rows")
	}
	for _, row := range rows {
		d, ok := new(big.Int).SetString(row[0], 10)
		if !ok {
			t.Fatal("bad key")
		}
		h := sha256.Sum256([]byte(row[1]))
		r, s, _, _ := RFC6979Sign(d, h[:])
		s, _ = LowS(s)
		want := mustHex(t, row[2])
		if !bytes.Equal(EncodeDERSig(r, s), want) {
			t.Fatalf("rfc6979 mismatch for %q", row[1])
		}
		rr, ss, ok := ParseDERSigStrict(want)
		if !ok || rr.Cmp(r) != 0 || ss.Cmp(s) != 0 {
			t.Fatal("strict DER parse mismatch")
		}
		if !ECDSAVerify(BaseMul(d), h[:], r, s) {
			t.Fatal("ref verify rejects rfc6979 vector")
		}
	}
	// RFC 6979 A.2.5-style sanity: known secp256k1 vector (key 1, "Satoshi Nakamoto") nonce.
	h := sha256.Sum256([]byte("Satoshi Nakamoto"))
	k := Int(NewRFC6979(big.NewInt(1), h[:]).Next())
	if k.Text(16) != "8f8a276c19f4149656b280621e358cce24f5f52542772691ee69063b74f15d15" {
		t.Fatalf("rfc6979 nonce mismatch %x", k)
	}
}

type h2cVec struct {
	DST     string `json:"dst"`
	Vectors []struct {
		P   struct{ X, Y string }
		Q0  struct{ X, Y string }
		Q1  struct{ X, Y string }
		Q   struct{ X, Y string }
		Msg string   `json:"msg"`
		U   []string `json:"u"`
	} `json:"vectors"`
}

func TestSelfH2C(t *testing.T) {
	for _, name := range []string{"secp256k1_XMD_SHA-256_SSWU_RO_.json", "secp256k1_XMD_SHA-256_SSWU_NU_.json"} {
		raw, err := os.ReadFile("testdata/" + name)
		if err != nil {
			t.Fatal(err)
		}
		var v h2cVec
		if err := json.Unmarshal(raw, &v); err != nil {
			t.Fatal(err)
		}
		ro := strings.Contains(name, "_RO_")
		if len(v.Vectors) < 5 {
			t.Fatal("too few h2c vectors")
		}
		for _, vec := range v.Vectors {
			cnt := 1
			if ro {
				cnt = 2
			}
			u, ok := HashToField([]byte(vec.Msg), []byte(v.DST), cnt)
			if !ok {
				t.Fatal("hash_to_field abort")
			}
			for i := range u {
				if u[i].Cmp(Int(mustHex(t, vec.U[i]))) != 0 {
					t.Fatalf("u[%d] mismatch", i)
				}
			}
			var got Pt
			if ro {
				q0, q1 := MapToCurve(u[0]), MapToCurve(u[1])
				if q0.X.Cmp(Int(mustHex(t, vec.Q0.X))) != 0 || q0.Y.Cmp(Int(mustHex(t, vec.Q0.Y))) != 0 {
					t.Fatal("Q0 mismatch")
				}
				if q1.X.Cmp(Int(mustHex(t, vec.Q1.X))) != 0 || q1.Y.Cmp(Int(mustHex(t, vec.Q1.Y))) != 0 {
					t.Fatal("Q1 mismatch")
				}
				got, _ = HashToCurveRO([]byte(vec.Msg), []byte(v.DST))
			} else {
				got, _ = EncodeToCurveNU([]byte(vec.Msg), []byte(v.DST))
			}
			if got.X.Cmp(Int(mustHex(t, vec.P.X))) != 0 || got.Y.Cmp(Int(mustHex(t, vec.P.Y))) != 0 {
				t.Fatal("P mismatch")
			}
		}
	}
	// isogeny is a homomorphism E' -> E (validates every k_(i,j) constant).
	var pts []Pt
	for i := int64(1); len(pts) < 6; i++ {
		xp, yp := MapToCurveSimpleSWU(big.NewInt(i * 7919))
		if !OnIsoCurve(xp, yp) {
			t.Fatal("SWU output not on E'")
		}
		x, y, ok := IsoMap(xp, yp)
		if !ok || !OnCurve(x, y) {
			t.Fatal("iso output not on E")
		}
		pts = append(pts, Pt{X: xp, Y: yp})
	}
	addIso := func(a, b Pt) Pt { // textbook addition on E' (A != 0)
		if a.X.Cmp(b.X) == 0 {
			t.Fatal("unexpected equal x")
		}
		l := MulM(SubM(b.Y, a.Y, P), Inv0(SubM(b.X, a.X, P), P), P)
		x3 := SubM(SubM(MulM(l, l, P), a.X, P), b.X, P)
		y3 := SubM(MulM(l, SubM(a.X, x3, P), P), a.Y, P)
		return Pt{X: x3, Y: y3}
	}
	for i := 0; i+1 < len(pts); i++ {
		s := addIso(pts[i], pts[i+1])
		if !OnIsoCurve(s.X, s.Y) {
			t.Fatal("E' addition broken")
		}
		ix, iy, _ := IsoMap(s.X, s.Y)
		ax, ay, _ := IsoMap(pts[i].X, pts[i].Y)
		bx, by, _ := IsoMap(pts[i+1].X, pts[i+1].Y)
		if !(Pt{X: ix, Y: iy}).Eq(Pt{X: ax, Y: ay}.Add(Pt{X: bx, Y: by})) {
			t.Fatal("isogeny not a homomorphism")
		}
	}
}

type xmdVec struct {
	DST   string
	Tests []struct {
		LenInBytes   string `json:"len_in_bytes"`
		Msg          string `json:"msg"`
		UniformBytes string `json:"uniform_bytes"`
	} `json:"tests"`
}

func TestSelfExpandMessage(t *testing.T) {
	for _, name := range []string{"expand_message_xmd_SHA256_38.json", "expand_message_xmd_SHA256_256.json"} {
		raw, err := os.ReadFile("testdata/" + name)
		if err != nil {
			t.Fatal(err)
		}
		var v xmdVec
		if err := json.Unmarshal(raw, &v); err != nil {
			t.Fatal(err)
		}
		if len(v.Tests) < 5 {
			t.Fatal("too few xmd vectors")
		}
		for _, tc := range v.Tests {
			l := int(Int(mustHex(t, tc.LenInBytes)).Int64())
			got, ok := ExpandMessageXMD(256, []byte(tc.Msg), []byte(v.DST), l)
			if !ok || !bytes.Equal(got, mustHex(t, tc.UniformBytes)) {
				t.Fatalf("xmd mismatch %s len %d", name, l)
			}
		}
	}
	if _, ok := ExpandMessageXMD(256, nil, []byte("x"), 255*32+1); ok {
		t.Fatal("ell > 255 not aborted")
	}
}

func TestSelfWire(t *testing.T) {
	raw, err := os.ReadFile("testdata/bip-0066-test-vectors.json")
	if err != nil {
		t.Fatal(err)
	}
	var v struct {
		Valid   []struct{ DER, R, S string }
		Invalid struct {
			Decode []struct {
				Exception string
				DER       string
			}
		}
	}
	if err := json.Unmarshal(raw, &v); err != nil {
		t.Fatal(err)
	}
	for _, tc := range v.Valid {
		der := mustHex(t, tc.DER)
		if !IsBIP66(append(append([]byte(nil), der...), 1)) {
			t.Fatalf("valid BIP66 rejected: %s", tc.DER)
		}
	}
	n := 0
	for _, tc := range v.Invalid.Decode {
		if tc.DER == "" {
			continue
		}
		der := mustHex(t, tc.DER)
		if IsBIP66(append(append([]byte(nil), der...), 1)) {
			t.Fatalf("invalid BIP66 accepted: %s (%s)", tc.DER, tc.Exception)
		}
		n++
	}
	if n < 5 {
		t.Fatal("too few invalid BIP66 vectors")
	}
	// DER encoder spot checks.
	if hex.EncodeToString(EncodeDERSig(big.NewInt(1), big.NewInt(0x80))) != "300702010102020080" {
		t.Fatal("DER encode")
	}
	if _, _, ok := ParseDERSigStrict(mustHex(t, "300702010102020080")); !ok {
		t.Fatal("DER strict parse")
	}
	if _, _, ok := ParseDERSigStrict(mustHex(t, "30080201010203000080")); ok {
		t.Fatal("non-minimal integer accepted")
	}
	if len(SPKIPrefixUncompressed) != 23 || len(SPKIPrefixCompressed) != 23 {
		t.Fatal("SPKI prefix length")
	}
	p, ok := ParseSPKIStrict(EncodeSPKI(G()))
	if !ok || !p.Eq(G()) {
		t.Fatal("SPKI roundtrip")
	}
}
