package ref

import (
	"crypto/hmac"
	"crypto/sha256"
	"math/big"
)

// DigestToE implements SEC 1 4.1.3 step 5 for a 256-bit order: the
// leftmost 256 bits of the digest as an integer (not yet reduced).  ok is
// false for digests under 32 bytes (the library documents/implements
// rejection of those).
func DigestToE(digest []byte) (*big.Int, bool) {
	if len(digest) < 32 {
		return nil, false
	}
	return Int(digest[:32]), true
}

// ECDSAVerify is SEC 1 4.1.4 on integers r, s (any non-negative values).
func ECDSAVerify(q Pt, digest []byte, r, s *big.Int) bool {
	if q.Inf || !q.Valid() {
		return false
	}
	if r.Sign() <= 0 || s.Sign() <= 0 || r.Cmp(N) >= 0 || s.Cmp(N) >= 0 {
		return false
	}
	e, ok := DigestToE(digest)
	if !ok {
		return false
	}
	e = Mod(e, N)
	sInv := Inv0(s, N)
	u1 := MulM(e, sInv, N)
	u2 := MulM(r, sInv, N)
	R := BaseMul(u1).Add(q.Mul(u2))
	if R.Inf {
		return false
	}
	return Mod(R.X, N).Cmp(r) == 0
}

// ECDSARecover is SEC 1 4.1.6 with an explicit recovery id: bit 0 is the
// parity of R.y, bit 1 selects x = r + n.
func ECDSARecover(digest []byte, r, s *big.Int, id int) (Pt, bool) {
	if id < 0 || id > 3 {
		return Pt{}, false
	}
	if r.Sign() <= 0 || s.Sign() <= 0 || r.Cmp(N) >= 0 || s.Cmp(N) >= 0 {
		return Pt{}, false
	}
	e, ok := DigestToE(digest)
	if !ok {
		return Pt{}, false
	}
	x := new(big.Int).Set(r)
	if id&2 != 0 {
		x.Add(x, N)
	}
	if x.Cmp(P) >= 0 {
		return Pt{}, false
	}
	R, ok := LiftX(x, id&1 == 1)
	if !ok {
		return Pt{}, false
	}
	rInv := Inv0(r, N)
	// Q = r^-1 (sR - eG)
	q := R.Mul(s).Sub(BaseMul(Mod(e, N))).Mul(rInv)
	if q.Inf {
		return Pt{}, false
	}
	return q, true
}

// ECDSASignWithNonce is SEC 1 4.1.3 with a caller-chosen nonce; returns
// the raw (r, s) before low-s normalisation, and the recovery id of R.
func ECDSASignWithNonce(d, k *big.Int, digest []byte) (r, s *big.Int, id int, ok bool) {
	e, okd := DigestToE(digest)
	if !okd {
		return nil, nil, 0, false
	}
	R := BaseMul(k)
	if R.Inf {
		return nil, nil, 0, false
	}
	r = Mod(R.X, N)
	if r.Sign() == 0 {
		return nil, nil, 0, false
	}
	s = MulM(Inv0(k, N), AddM(Mod(e, N), MulM(r, d, N), N), N)
	if s.Sign() == 0 {
		return nil, nil, 0, false
	}
	id = int(R.Y.Bit(0))
	if R.X.Cmp(N) >= 0 {
		id |= 2
	}
	return r, s, id, true
}

// LowS returns (min(s, n-s), whether it was negated).
func LowS(s *big.Int) (*big.Int, bool) {
	if s.Cmp(HalfN) > 0 {
		return new(big.Int).Sub(N, s), true
	}
	return new(big.Int).Set(s), false
}

// RFC6979 is the generic RFC 6979 3.2 nonce generator for HMAC-SHA-256
// and a 256-bit q.  It yields the candidate sequence T1, T2, ... (each
// candidate is bits2int(T), not range-checked).
type RFC6979 struct {
	k, v  []byte
	first bool
}

func hmacSHA256(key []byte, parts ...[]byte) []byte {
	m := hmac.New(sha256.New, key)
	for _, p := range parts {
		m.Write(p)
	}
	return m.Sum(nil)
}

// bits2octets(h1) = int2octets(bits2int(h1) mod q), qlen = 256.
func bits2octets(h1 []byte) []byte {
	// bits2int: leftmost qlen bits.
	z := Int(h1)
	if len(h1)*8 > 256 {
		z.Rsh(z, uint(len(h1)*8-256))
	}
	return B32(Mod(z, N))
}

// NewRFC6979 initialises steps a..g with private key x and digest h1.
func NewRFC6979(x *big.Int, h1 []byte) *RFC6979 {
	v := make([]byte, 32)
	for i := range v {
		v[i] = 1
	}
	k := make([]byte, 32)
	xo := B32(x)
	ho := bits2octets(h1)
	k = hmacSHA256(k, v, []byte{0}, xo, ho)
	v = hmacSHA256(k, v)
	k = hmacSHA256(k, v, []byte{1}, xo, ho)
	v = hmacSHA256(k, v)
	return &RFC6979{k: k, v: v, first: true}
}

// Next returns the next candidate T (32 bytes).
func (g *RFC6979) Next() []byte {
	if !g.first {
		g.k = hmacSHA256(g.k, g.v, []byte{0})
		g.v = hmacSHA256(g.k, g.v)
	}
	g.first = false
	g.v = hmacSHA256(g.k, g.v)
	return append([]byte(nil), g.v...)
}

// RFC6979Sign is deterministic ECDSA per RFC 6979 (HMAC-SHA-256),
// returning raw (r,s) and the recovery id of R, walking the candidate
// sequence until a suitable k is found.
func RFC6979Sign(d *big.Int, digest []byte) (r, s *big.Int, id int, rejected int) {
	g := NewRFC6979(d, digest)
	for {
		k := Int(g.Next())
		if k.Sign() == 0 || k.Cmp(N) >= 0 {
			rejected++
			continue
		}
		var ok bool
		r, s, id, ok = ECDSASignWithNonce(d, k, digest)
		if ok {
			return
		}
		rejected++
	}
}
