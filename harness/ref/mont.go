package ref

import "math/big"

// Montgomery-domain model, R = 2^256.

// ToM returns a*R mod m.
func ToM(a, m *big.Int) *big.Int { return MulM(a, Two256, m) }

// FromM returns a~ * R^-1 mod m.
func FromM(a, m *big.Int) *big.Int {
	return MulM(a, new(big.Int).ModInverse(Two256, m), m)
}

// MontPre returns the exact value t = (a~*b~ + q*m)/R with
// q = -a~*b~*m^-1 mod R, i.e. the value a word-serial Montgomery
// multiplication holds just before its final conditional subtraction
// (for a~, b~ < m: 0 <= t < 2m).  A case "hits the window" when
// m <= t < 2^256: the subtraction is needed although the carry word is clear.
func MontPre(a, b, m *big.Int) *big.Int {
	ab := new(big.Int).Mul(a, b)
	mInv := new(big.Int).ModInverse(m, Two256)
	q := new(big.Int).Mul(ab, mInv)
	q.Neg(q).Mod(q, Two256)
	t := new(big.Int).Mul(q, m)
	t.Add(t, ab)
	if new(big.Int).Mod(t, Two256).Sign() != 0 {
		panic("ref: MontPre not divisible")
	}
	return t.Rsh(t, 256)
}

// InWindow reports m <= t < 2^256.
func InWindow(t, m *big.Int) bool { return t.Cmp(m) >= 0 && t.Cmp(Two256) < 0 }

// Limbs returns the four little-endian 64-bit limbs of v < 2^256.
func Limbs(v *big.Int) [4]uint64 {
	var out [4]uint64
	b := B32(v)
	for i := 0; i < 4; i++ {
		var w uint64
		for j := 0; j < 8; j++ {
			w = w<<8 | uint64(b[(3-i)*8+j])
		}
		out[i] = w
	}
	return out
}

// FromLimbs is the inverse of Limbs.
func FromLimbs(l [4]uint64) *big.Int {
	v := new(big.Int)
	for i := 3; i >= 0; i-- {
		v.Lsh(v, 64)
		v.Or(v, new(big.Int).SetUint64(l[i]))
	}
	return v
}

// GLV lattice basis (a1,b1), (a2,b2) with a_i + b_i*lambda = 0 mod n, and the
// rounding multipliers g1, g2 = round(2^384 * b2 / n), round(2^384 * (-b1) / n).
var (
	GLVa1 = hexInt("3086d221a7d46bcde86c90e49284eb15")
	GLVb1 = new(big.Int).Neg(hexInt("e4437ed6010e88286f547fa90abfe4c3"))
	GLVa2 = hexInt("114ca50f7a8e2f3f657c1108d9d44cfd8")
	GLVb2 = hexInt("3086d221a7d46bcde86c90e49284eb15")
	GLVg1 = hexInt("3086d221a7d46bcde86c90e49284eb153daa8a1471e8ca7fe893209a45dbb031")
	GLVg2 = hexInt("e4437ed6010e88286f547fa90abfe4c4221208ac9df506c61571b4ae8ac47f71")
)

// MulShift384Round is floor(k*g / 2^384) + bit 383 of k*g.
func MulShift384Round(k, g *big.Int) *big.Int {
	pr := new(big.Int).Mul(k, g)
	r := new(big.Int).Rsh(pr, 384)
	if pr.Bit(383) == 1 {
		r.Add(r, one)
	}
	return r
}

// SplitGLV is the reference balanced decomposition with the same rounding
// rule: c1 = round(k*g1/2^384), c2 = round(k*g2/2^384),
// k2 = -c1*b1 - c2*b2, k1 = k - k2*lambda (mod n).
func SplitGLV(k *big.Int) (k1, k2 *big.Int) {
	c1 := MulShift384Round(k, GLVg1)
	c2 := MulShift384Round(k, GLVg2)
	k2 = Mod(new(big.Int).Sub(new(big.Int).Mul(c1, new(big.Int).Neg(GLVb1)), new(big.Int).Mul(c2, GLVb2)), N)
	k1 = SubM(k, MulM(k2, Lambda, N), N)
	return
}

// AbsN returns min(v, n-v) for v in [0,n).
func AbsN(v *big.Int) *big.Int {
	o := new(big.Int).Sub(N, v)
	if o.Cmp(v) < 0 {
		return o
	}
	return new(big.Int).Set(v)
}
