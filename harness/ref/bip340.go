package ref

import (
	"crypto/sha256"
	"math/big"
)

// TaggedHash is BIP-340's hash_tag(x).
func TaggedHash(tag string, parts ...[]byte) []byte {
	th := sha256.Sum256([]byte(tag))
	h := sha256.New()
	h.Write(th[:])
	h.Write(th[:])
	for _, p := range parts {
		h.Write(p)
	}
	return h.Sum(nil)
}

// LiftXEven is BIP-340 lift_x.
func LiftXEven(x *big.Int) (Pt, bool) {
	return LiftX(x, false)
}

// BIP340Verify is the BIP-340 Verify algorithm on raw byte strings.
func BIP340Verify(pk, msg, sig []byte) bool {
	if len(pk) != 32 || len(sig) != 64 {
		return false
	}
	Pp, ok := LiftXEven(Int(pk))
	if !ok {
		return false
	}
	r := Int(sig[:32])
	s := Int(sig[32:])
	if r.Cmp(P) >= 0 || s.Cmp(N) >= 0 {
		return false
	}
	e := Mod(Int(TaggedHash("BIP0340/challenge", sig[:32], pk, msg)), N)
	R := BaseMul(s).Sub(Pp.Mul(e))
	if R.Inf || R.Y.Bit(0) == 1 || R.X.Cmp(r) != 0 {
		return false
	}
	return true
}

// BIP340Sign is the BIP-340 Sign algorithm; ok=false iff k' = 0.
func BIP340Sign(dPrime *big.Int, aux, msg []byte) (sig []byte, ok bool) {
	if dPrime.Sign() <= 0 || dPrime.Cmp(N) >= 0 || len(aux) != 32 {
		panic("ref: BIP340Sign bad input")
	}
	Pp := BaseMul(dPrime)
	d := new(big.Int).Set(dPrime)
	if Pp.Y.Bit(0) == 1 {
		d.Sub(N, d)
	}
	t := B32(d)
	ah := TaggedHash("BIP0340/aux", aux)
	for i := range t {
		t[i] ^= ah[i]
	}
	px := B32(Pp.X)
	rnd := TaggedHash("BIP0340/nonce", t, px, msg)
	kPrime := Mod(Int(rnd), N)
	if kPrime.Sign() == 0 {
		return nil, false
	}
	R := BaseMul(kPrime)
	k := new(big.Int).Set(kPrime)
	if R.Y.Bit(0) == 1 {
		k.Sub(N, k)
	}
	rx := B32(R.X)
	e := Mod(Int(TaggedHash("BIP0340/challenge", rx, px, msg)), N)
	s := AddM(k, MulM(e, d, N), N)
	return append(rx, B32(s)...), true
}

// BIP340SignWithNonce signs with a caller-chosen k' and optional skipping
// of the even-y negation of k (to construct odd-R signatures).
func BIP340SignWithNonce(dPrime, kPrime *big.Int, msg []byte, negateForEvenR bool) []byte {
	Pp := BaseMul(dPrime)
	d := new(big.Int).Set(dPrime)
	if Pp.Y.Bit(0) == 1 {
		d.Sub(N, d)
	}
	px := B32(Pp.X)
	R := BaseMul(kPrime)
	k := new(big.Int).Set(kPrime)
	if negateForEvenR && R.Y.Bit(0) == 1 {
		k.Sub(N, k)
	}
	rx := B32(R.X)
	e := Mod(Int(TaggedHash("BIP0340/challenge", rx, px, msg)), N)
	s := AddM(k, MulM(e, d, N), N)
	return append(rx, B32(s)...)
}
