// Package c12: signature and key wire formats are strict, canonical and
// parsed without panics.
package c12

import (
	"bytes"
	"fmt"
	"math/big"
	"testing"

	"pgregory.net/rapid"

	secp256k1 "gitlab.com/yawning/secp256k1-voi"
	"gitlab.com/yawning/secp256k1-voi/secec"
	"gitlab.com/yawning/secp256k1-voi/secec/bitcoin"
	"gitlab.com/yawning/secp256k1-voi/verifharness/gen"
	"gitlab.com/yawning/secp256k1-voi/verifharness/lib"
	"gitlab.com/yawning/secp256k1-voi/verifharness/ref"
	"gitlab.com/yawning/secp256k1-voi/verifharness/stat"
)

func TestMain(m *testing.M) { stat.Main(m) }

// ---- structured DER pieces -------------------------------------------------

const (
	lenMinimal = iota
	len81
	len82
	lenIndefinite
	lenPlus1
	lenMinus1
)

func encLen(n, form int) []byte {
	switch form {
	case len81:
		return []byte{0x81, byte(n)}
	case len82:
		return []byte{0x82, byte(n >> 8), byte(n)}
	case lenIndefinite:
		return []byte{0x80}
	case lenPlus1:
		n++
	case lenMinus1:
		if n > 0 {
			n--
		}
	}
	switch {
	case n < 0x80:
		return []byte{byte(n)}
	case n < 0x100:
		return []byte{0x81, byte(n)}
	default:
		return []byte{0x82, byte(n >> 8), byte(n)}
	}
}

type tlv struct {
	tag     byte
	lenForm int
	content []byte
}

func (e tlv) bytes() []byte {
	out := append([]byte{e.tag}, encLen(len(e.content), e.lenForm)...)
	return append(out, e.content...)
}

// minimalInt is the DER content of a non-negative integer.
func minimalInt(v *big.Int) []byte {
	b := v.Bytes()
	if len(b) == 0 {
		return []byte{0}
	}
	if b[0]&0x80 != 0 {
		b = append([]byte{0}, b...)
	}
	return b
}

var sigValues = []*big.Int{
	big.NewInt(0), big.NewInt(1), big.NewInt(0x7f), big.NewInt(0x80), big.NewInt(0xff), big.NewInt(0x100),
	new(big.Int).Lsh(big.NewInt(1), 255), new(big.Int).Sub(new(big.Int).Lsh(big.NewInt(1), 255), big.NewInt(1)),
	new(big.Int).Sub(ref.N, big.NewInt(1)), ref.N, new(big.Int).Add(ref.N, big.NewInt(1)),
	new(big.Int).Sub(ref.Two256, big.NewInt(1)), ref.HalfN, new(big.Int).Add(ref.HalfN, big.NewInt(1)),
}

func sigValue(t *rapid.T, label string) *big.Int {
	i := rapid.IntRange(0, len(sigValues)+3).Draw(t, label+"_sel")
	if i < len(sigValues) {
		return sigValues[i]
	}
	if i == len(sigValues) { // a short value (few bytes)
		n := rapid.IntRange(1, 31).Draw(t, label+"_short")
		return new(big.Int).SetBytes(gen.Bytes(t, n, n, label+"_sb"))
	}
	return gen.Raw256(t, ref.N, label)
}

var derMutations = []string{"none", "none", "none", "seq-len81", "seq-len82", "seq-indefinite", "seq-len+1", "seq-len-1",
	"int-len81", "int-indefinite", "extra-leading-zero", "strip-zero", "negative", "zero-length", "33-byte",
	"seq-tag", "int-tag", "trail-inner", "trail-outer", "third-int", "truncate", "one-int", "bitflip", "prepend"}

// buildDER assembles a (possibly mutated) SEQUENCE{INTEGER r, INTEGER s}.
func buildDER(t *rapid.T, r, s *big.Int) ([]byte, string) {
	m := gen.Sampled(derMutations).Draw(t, "dermut")
	ints := []tlv{{tag: 0x02, content: minimalInt(r)}, {tag: 0x02, content: minimalInt(s)}}
	seq := tlv{tag: 0x30}
	var innerTrail, outerTrail []byte
	which := rapid.IntRange(0, 1).Draw(t, "whichint")
	switch m {
	case "seq-len81":
		seq.lenForm = len81
	case "seq-len82":
		seq.lenForm = len82
	case "seq-indefinite":
		seq.lenForm = lenIndefinite
		if rapid.Bool().Draw(t, "eoc") {
			outerTrail = []byte{0, 0}
		}
	case "seq-len+1":
		seq.lenForm = lenPlus1
	case "seq-len-1":
		seq.lenForm = lenMinus1
	case "int-len81":
		ints[which].lenForm = len81
	case "int-indefinite":
		ints[which].lenForm = lenIndefinite
	case "extra-leading-zero":
		ints[which].content = append([]byte{0}, ints[which].content...)
	case "strip-zero":
		c := ints[which].content
		if len(c) > 1 && c[0] == 0 {
			ints[which].content = c[1:]
		} else {
			m = "none"
		}
	case "negative":
		c := append([]byte(nil), ints[which].content...)
		c[0] |= 0x80
		ints[which].content = c
	case "zero-length":
		ints[which].content = nil
	case "33-byte":
		c := gen.Bytes(t, 33, 33, "c33")
		c[0] = gen.Sampled([]byte{0x01, 0x7f, 0x00}).Draw(t, "c33top")
		if c[0] == 0 {
			c[1] |= 0x80 // minimal, but >= 2^255: in range only if < n
		}
		ints[which].content = c
	case "seq-tag":
		seq.tag = gen.Sampled([]byte{0x31, 0x10, 0x20, 0xb0, 0x00}).Draw(t, "seqtag")
	case "int-tag":
		ints[which].tag = gen.Sampled([]byte{0x03, 0x04, 0x22, 0x82, 0x0a, 0x00}).Draw(t, "inttag")
	case "trail-inner":
		innerTrail = gen.Bytes(t, 1, 3, "trail")
	case "trail-outer":
		outerTrail = gen.Bytes(t, 1, 3, "trail")
	case "third-int":
		ints = append(ints, tlv{tag: 0x02, content: minimalInt(sigValue(t, "third"))})
	case "one-int":
		ints = ints[:1]
	}
	for _, e := range ints {
		seq.content = append(seq.content, e.bytes()...)
	}
	seq.content = append(seq.content, innerTrail...)
	out := append(seq.bytes(), outerTrail...)
	switch m {
	case "truncate":
		out = out[:len(out)-rapid.IntRange(1, min(4, len(out))).Draw(t, "cut")]
	case "bitflip":
		bit := rapid.IntRange(0, len(out)*8-1).Draw(t, "bit")
		out[bit/8] ^= 1 << (bit % 8)
	case "prepend":
		out = append(gen.Bytes(t, 1, 2, "pre"), out...)
	}
	return out, m
}

func inRange(v *big.Int) bool { return v.Sign() > 0 && v.Cmp(ref.N) < 0 }

// checkDERSig is the oracle for one byte string (shared with the fuzz target).
func checkDERSig(fail func(string, ...any), x []byte) bool {
	// hand the parser a slice cut out of a larger caller buffer; it must neither write to it nor past it
	if adj, unchanged := gen.Adjacent(x); true {
		orig := x
		x = adj[0]
		defer func() {
			if !unchanged() {
				fail("parser modified its caller's buffer (input %x)", orig)
			}
		}()
	}
	wr, ws, ok := ref.ParseDERSigStrict(x)
	var (
		r, s *secp256k1.Scalar
		err  error
	)
	if p := lib.Catch(func() { r, s, err = secec.ParseASN1Signature(x) }); p != nil {
		fail("ParseASN1Signature(%x) panicked: %v", x, p)
		return ok
	}
	if ok {
		if err != nil || r == nil || s == nil {
			fail("ParseASN1Signature(%x): strict DER of in-range (r,s) rejected: %v", x, err)
			return ok
		}
		if lib.ScInt(r).Cmp(wr) != 0 || lib.ScInt(s).Cmp(ws) != 0 {
			fail("ParseASN1Signature(%x): got (%x,%x) want (%x,%x)", x, lib.ScInt(r), lib.ScInt(s), wr, ws)
		}
		if re := secec.BuildASN1Signature(r, s); !bytes.Equal(re, x) {
			fail("Build(Parse(%x)) = %x", x, re)
		}
	} else if err == nil || r != nil || s != nil {
		fail("ParseASN1Signature(%x): accepted, but it is not the strict DER encoding of any (r,s) in [1,n)^2", x)
	}
	return ok
}

func propDERSig(t *rapid.T) {
	var x []byte
	var mut string
	r, s := sigValue(t, "r"), sigValue(t, "s")
	if rapid.IntRange(0, 9).Draw(t, "raw") == 0 {
		x, mut = gen.Bytes(t, 0, 80, "raw"), "raw"
		if len(x) > 2 && rapid.Bool().Draw(t, "fixhdr") {
			x[0], x[1] = 0x30, byte(len(x)-2)
		}
	} else {
		x, mut = buildDER(t, r, s)
	}
	acc := "reject"
	ok := checkDERSig(func(f string, a ...any) { t.Fatalf(f, a...) }, x)
	if ok {
		acc = "accept"
	}
	stat.Case("dersig", []string{"mut:" + mut, acc}, ok || mut != "raw", append([]byte("der|"), x...), func() any {
		return map[string]any{"bytes": stat.Hex(x), "mutation": mut, "expect": acc}
	})
	// build-then-parse on in-range values is the identity and equals the reference encoding
	if inRange(r) && inRange(s) {
		enc := secec.BuildASN1Signature(lib.Sc(r), lib.Sc(s))
		if !bytes.Equal(enc, ref.EncodeDERSig(r, s)) {
			t.Fatalf("BuildASN1Signature(%x,%x) = %x, reference %x", r, s, enc, ref.EncodeDERSig(r, s))
		}
		pr, ps, err := secec.ParseASN1Signature(enc)
		if err != nil || lib.ScInt(pr).Cmp(r) != 0 || lib.ScInt(ps).Cmp(s) != 0 {
			t.Fatalf("Parse(Build(%x,%x)) failed: %v", r, s, err)
		}
		// An encoding that was built belongs to the caller, who keeps it (and appends a sighash byte to it)
		// while other signatures are built: build-then-parse stays the identity for an encoding that is
		// parsed later, too.
		want := ref.EncodeDERSig(r, s)
		other := secec.BuildASN1Signature(lib.Sc(s), lib.Sc(r))
		_ = append(enc, 0x01)
		if sp := enc[len(enc):cap(enc)]; len(sp) > 0 {
			for i := range sp {
				sp[i] = 0xa5
			}
		}
		third := secec.BuildCompactSignature(lib.Sc(r), lib.Sc(s))
		if !bytes.Equal(enc, want) || !bytes.Equal(other, ref.EncodeDERSig(s, r)) || !bytes.Equal(third, append(ref.B32(r), ref.B32(s)...)) {
			t.Fatalf("encodings built earlier changed when later ones were built / the caller appended to one: BuildASN1Signature(%x,%x) now reads %x, the one with r and s swapped %x, the compact one %x", r, s, enc, other, third)
		}
		for _, h := range heldEncodings {
			if !bytes.Equal(h.got, h.want) {
				t.Fatalf("an encoding built in an earlier case (%x) reads %x now", h.want, h.got)
			}
		}
		heldEncodings = append(heldEncodings, heldEncoding{enc, want})
		if len(heldEncodings) > 8 {
			heldEncodings = heldEncodings[1:]
		}
	}
}

// heldEncodings are signatures built in earlier cases of this process that the caller still holds.
type heldEncoding struct{ got, want []byte }

var heldEncodings []heldEncoding

func TestC12_DERSig(t *testing.T) { rapid.Check(t, propDERSig) }

func checkCompact(fail func(string, ...any), x []byte) (bool, bool) {
	// hand the parser a slice cut out of a larger caller buffer; it must neither write to it nor past it
	if adj, unchanged := gen.Adjacent(x); true {
		orig := x
		x = adj[0]
		defer func() {
			if !unchanged() {
				fail("parser modified its caller's buffer (input %x)", orig)
			}
		}()
	}
	wr, ws, ok64 := ref.ParseCompactStrict(x)
	var (
		r, s *secp256k1.Scalar
		v    byte
		err  error
	)
	if p := lib.Catch(func() { r, s, err = secec.ParseCompactSignature(x) }); p != nil {
		fail("ParseCompactSignature(%x) panicked: %v", x, p)
	}
	if ok64 {
		if err != nil || lib.ScInt(r).Cmp(wr) != 0 || lib.ScInt(s).Cmp(ws) != 0 {
			fail("ParseCompactSignature(%x): %v", x, err)
		} else if re := secec.BuildCompactSignature(r, s); !bytes.Equal(re, x) {
			fail("BuildCompact(ParseCompact(%x)) = %x", x, re)
		}
	} else if err == nil || r != nil || s != nil {
		fail("ParseCompactSignature(%x): accepted a non-canonical string", x)
	}
	wr, ws, wv, ok65 := ref.ParseCompactRecoverableStrict(x)
	r, s, err = nil, nil, nil
	if p := lib.Catch(func() { r, s, v, err = secec.ParseCompactRecoverableSignature(x) }); p != nil {
		fail("ParseCompactRecoverableSignature(%x) panicked: %v", x, p)
	}
	if ok65 {
		if err != nil || lib.ScInt(r).Cmp(wr) != 0 || lib.ScInt(s).Cmp(ws) != 0 || v != wv {
			fail("ParseCompactRecoverableSignature(%x): %v", x, err)
		} else if re := secec.BuildCompactRecoverableSignature(r, s, v); !bytes.Equal(re, x) {
			fail("BuildCompactRecoverable(Parse(%x)) = %x", x, re)
		}
	} else if err == nil || r != nil || s != nil {
		fail("ParseCompactRecoverableSignature(%x): accepted a non-canonical string", x)
	}
	return ok64, ok65
}

func propCompact(t *rapid.T) {
	r, s := sigValue(t, "r"), sigValue(t, "s")
	x := append(ref.B32(r), ref.B32(s)...)
	form := gen.Sampled([]string{"64", "65", "63", "66", "0", "raw"}).Draw(t, "form")
	switch form {
	case "65":
		x = append(x, rapid.Byte().Draw(t, "v"))
	case "63":
		x = x[:63]
	case "66":
		x = append(x, 0, 0)
	case "0":
		x = nil
	case "raw":
		x = gen.Bytes(t, 0, 70, "raw")
	}
	ok64, ok65 := checkCompact(func(f string, a ...any) { t.Fatalf(f, a...) }, x)
	acc := "reject"
	if ok64 || ok65 {
		acc = "accept"
	}
	stat.Case("compact", []string{"form:" + form, acc}, form != "raw" || ok64 || ok65, append([]byte("c|"), x...), func() any {
		return map[string]any{"bytes": stat.Hex(x), "form": form, "expect": acc}
	})
}

func TestC12_Compact(t *testing.T) { rapid.Check(t, propCompact) }

// ---- BIP-66 ------------------------------------------------------------------

func checkBIP66(fail func(string, ...any), x []byte) bool {
	// hand the parser a slice cut out of a larger caller buffer; it must neither write to it nor past it
	if adj, unchanged := gen.Adjacent(x); true {
		orig := x
		x = adj[0]
		defer func() {
			if !unchanged() {
				fail("parser modified its caller's buffer (input %x)", orig)
			}
		}()
	}
	want := ref.IsBIP66(x)
	var got bool
	if p := lib.Catch(func() { got = bitcoin.IsValidSignatureEncodingBIP0066(x) }); p != nil {
		fail("IsValidSignatureEncodingBIP0066(%x) panicked: %v", x, p)
		return want
	}
	if got != want {
		fail("IsValidSignatureEncodingBIP0066(%x) = %v, grammar says %v", x, got, want)
	}
	return want
}

// bip66Int draws integer content for the grammar generator: valid minimal
// forms of various lengths and the invalid neighbours.
func bip66Int(t *rapid.T, label string) ([]byte, string) {
	kind := gen.Sampled([]string{"minimal", "minimal", "minimal-padded", "empty", "negative", "overpadded", "long"}).Draw(t, label+"_kind")
	n := rapid.IntRange(1, 33).Draw(t, label+"_len")
	c := gen.Bytes(t, n, n, label+"_c")
	switch kind {
	case "minimal":
		c[0] &= 0x7f
		if c[0] == 0 && n > 1 {
			c[0] = 1
		}
	case "minimal-padded":
		if n < 2 {
			c = []byte{0, 0x80}
		} else {
			c[0], c[1] = 0, c[1]|0x80
		}
	case "empty":
		c = nil
	case "negative":
		c[0] |= 0x80
	case "overpadded":
		if n < 2 {
			c = []byte{0, 0x01}
		} else {
			c[0], c[1] = 0, c[1]&0x7f
		}
	case "long":
		c = gen.Bytes(t, 34, 66, label+"_long")
		c[0] = 1
	}
	return c, kind
}

func propBIP66(t *rapid.T) {
	var x []byte
	var desc string
	switch rapid.IntRange(0, 9).Draw(t, "mode") {
	case 0:
		x, desc = gen.Bytes(t, 0, 80, "raw"), "raw"
	case 1: // a DER signature from the other generator plus a sighash byte
		d, m := buildDER(t, sigValue(t, "r"), sigValue(t, "s"))
		x, desc = append(d, rapid.Byte().Draw(t, "sighash")), "der+"+m
	default:
		rc, rk := bip66Int(t, "r")
		sc, sk := bip66Int(t, "s")
		body := append(append([]byte{0x02, byte(len(rc))}, rc...), append([]byte{0x02, byte(len(sc))}, sc...)...)
		x = append([]byte{0x30, byte(len(body))}, body...)
		desc = rk + "/" + sk
		m := gen.Sampled([]string{"sighash", "sighash", "sighash", "no-sighash", "two-sighash", "len+1", "len-1",
			"lenR+1", "lenR-1", "lenS+1", "lenS-1", "tag", "rtag", "stag", "lenR=big"}).Draw(t, "bipmut")
		switch m {
		case "sighash":
			x = append(x, rapid.Byte().Draw(t, "sighash"))
		case "two-sighash":
			x = append(x, 1, 1)
		case "len+1":
			x = append(x, 1)
			x[1]++
		case "len-1":
			x = append(x, 1)
			x[1]--
		case "lenR+1":
			x = append(x, 1)
			x[3]++
		case "lenR-1":
			x = append(x, 1)
			x[3]--
		case "lenS+1":
			x = append(x, 1)
			x[5+len(rc)]++
		case "lenS-1":
			x = append(x, 1)
			x[5+len(rc)]--
		case "tag":
			x = append(x, 1)
			x[0] = gen.Sampled([]byte{0x31, 0x10, 0x00}).Draw(t, "tagv")
		case "rtag":
			x = append(x, 1)
			x[2] = 0x03
		case "stag":
			x = append(x, 1)
			x[4+len(rc)] = 0x03
		case "lenR=big":
			x = append(x, 1)
			x[3] = gen.Sampled([]byte{0x7f, 0x80, 0xff, byte(len(x) - 5), byte(len(x) - 6), byte(len(x) - 7)}).Draw(t, "bigR")
		}
		desc += "/" + m
	}
	ok := checkBIP66(func(f string, a ...any) { t.Fatalf(f, a...) }, x)
	acc := "reject"
	if ok {
		acc = "accept"
	}
	cl := []string{acc}
	if len(x) >= 8 && len(x) <= 10 || len(x) >= 72 && len(x) <= 74 {
		cl = append(cl, fmt.Sprintf("len:%d", len(x)))
	}
	stat.Case("bip66", cl, desc != "raw" || ok, append([]byte("b|"), x...), func() any {
		return map[string]any{"bytes": stat.Hex(x), "built": desc, "expect": acc}
	})
}

func TestC12_BIP66(t *testing.T) { rapid.Check(t, propBIP66) }

// ---- SubjectPublicKeyInfo ------------------------------------------------------

var (
	oidEcPublicKey = []byte{0x2a, 0x86, 0x48, 0xce, 0x3d, 0x02, 0x01}
	oidSecp256k1   = []byte{0x2b, 0x81, 0x04, 0x00, 0x0a}
	oidPrime256v1  = []byte{0x2a, 0x86, 0x48, 0xce, 0x3d, 0x03, 0x01, 0x07}
	oidEcDH        = []byte{0x2b, 0x81, 0x04, 0x01, 0x0c}
)

// shiftLeft shifts a byte string left by k bits (k < 8); ok=false if bits fall off the top.
func shiftLeft(b []byte, k uint) ([]byte, bool) {
	if k == 0 {
		return append([]byte(nil), b...), true
	}
	if len(b) == 0 || b[0]>>(8-k) != 0 {
		return nil, false
	}
	out := make([]byte, len(b))
	for i := range b {
		out[i] = b[i] << k
		if i+1 < len(b) {
			out[i] |= b[i+1] >> (8 - k)
		}
	}
	return out, true
}

func checkSPKI(fail func(string, ...any), x []byte) bool {
	// hand the parser a slice cut out of a larger caller buffer; it must neither write to it nor past it
	if adj, unchanged := gen.Adjacent(x); true {
		orig := x
		x = adj[0]
		defer func() {
			if !unchanged() {
				fail("parser modified its caller's buffer (input %x)", orig)
			}
		}()
	}
	want, ok := ref.ParseSPKIStrict(x)
	var (
		pk  *secec.PublicKey
		err error
	)
	if p := lib.Catch(func() { pk, err = secec.ParseASN1PublicKey(x) }); p != nil {
		fail("ParseASN1PublicKey(%x) panicked: %v", x, p)
		return ok
	}
	if ok {
		if err != nil || pk == nil {
			fail("ParseASN1PublicKey(%x): canonical SPKI rejected: %v", x, err)
			return ok
		}
		if !bytes.Equal(pk.Bytes(), want.Uncompressed()) {
			fail("ParseASN1PublicKey(%x): wrong key", x)
		}
		// re-encoding is the canonical uncompressed SPKI; results of separate calls (also on other keys)
		// are independent buffers that the caller may overwrite
		canon := ref.EncodeSPKI(want)
		re := pk.ASN1Bytes()
		if !bytes.Equal(re, canon) || (bytes.HasPrefix(x, ref.SPKIPrefixUncompressed) && !bytes.Equal(re, x)) {
			fail("ASN1Bytes(Parse(%x)) = %x", x, re)
		}
		otherKey, _ := secec.NewPublicKey(ref.BaseMul(big.NewInt(0xfacade)).Compressed())
		other := otherKey.ASN1Bytes()
		if !bytes.Equal(re, canon) {
			fail("ASN1Bytes(): an earlier result changed when another key was encoded: %x", re)
		}
		for i := range other {
			other[i] = 0xee
		}
		for i := range re {
			re[i] = 0x11
		}
		if again := pk.ASN1Bytes(); !bytes.Equal(again, canon) {
			fail("ASN1Bytes() = %x after the caller overwrote earlier results, want %x", again, canon)
		}
	} else if err == nil || pk != nil {
		fail("ParseASN1PublicKey(%x): accepted, but it is not <fixed prefix> || <valid SEC 1 encoding of a non-identity point>", x)
	}
	return ok
}

func propSPKI(t *rapid.T) {
	var x []byte
	desc := "raw"
	if rapid.IntRange(0, 9).Draw(t, "raw") == 0 {
		x = gen.Bytes(t, 0, 100, "rawbytes")
	} else {
		pc := gen.NonIdentityPoint(t, "pt")
		payloadKind := gen.Sampled([]string{"uncompressed", "uncompressed", "compressed", "identity", "off-curve", "hybrid", "empty", "x+p", "y+p", "y+p", "x+p-compressed", "near-curve"}).Draw(t, "payload")
		var payload []byte
		switch payloadKind {
		case "uncompressed":
			payload = pc.P.Uncompressed()
		case "compressed":
			payload = pc.P.Compressed()
		case "identity":
			payload = []byte{0}
		case "off-curve":
			payload = pc.P.Uncompressed()
			payload[64] ^= 1
		case "hybrid":
			payload = pc.P.Uncompressed()
			payload[0] = 6 + byte(pc.P.Y.Bit(0))
		case "empty":
			payload = nil
		case "x+p":
			sp := gen.SmallXPoint(t, "sx").P
			payload = sp.Uncompressed()
			copy(payload[1:33], ref.B32(new(big.Int).Add(sp.X, ref.P)))
		case "x+p-compressed":
			sp := gen.SmallXPoint(t, "sx").P
			payload = sp.Compressed()
			copy(payload[1:33], ref.B32(new(big.Int).Add(sp.X, ref.P)))
		case "y+p": // a point with y < 2^32+977 (found through a cube root), y field holding the alias y+p
			sp := gen.SmallYPoint(t, "sy").P
			payload = sp.Uncompressed()
			if v := new(big.Int).Add(sp.Y, ref.P); v.BitLen() <= 256 {
				copy(payload[33:65], ref.B32(v))
			}
		case "near-curve":
			nx, ny, _ := gen.NearCurve(t, "nc")
			payload = append(append([]byte{4}, ref.B32(nx)...), ref.B32(ny)...)
		}
		m := gen.Sampled([]string{"none", "none", "none", "unused-bits", "unused-bits", "unused-noshift", "other-curve", "other-alg",
			"explicit-null", "swap-oids", "outer-len81", "alg-len81", "bits-len81", "oid-len81", "trail-outer", "trail-inner", "trail-alg",
			"reorder", "extra-element", "bits-tag", "outer-tag", "truncate", "bitflip", "outer-indefinite"}).Draw(t, "spkimut")
		alg := tlv{tag: 0x30}
		o1 := tlv{tag: 0x06, content: oidEcPublicKey}
		o2 := tlv{tag: 0x06, content: oidSecp256k1}
		unused := byte(0)
		bitsContent := payload
		var algTrail, innerTrail, outerTrail []byte
		outer := tlv{tag: 0x30}
		bits := tlv{tag: 0x03}
		reorder := false
		switch m {
		case "unused-bits":
			k := uint(rapid.IntRange(1, 7).Draw(t, "k"))
			if sh, ok := shiftLeft(payload, k); ok {
				unused, bitsContent = byte(k), sh
			} else {
				m = "none"
			}
		case "unused-noshift":
			unused = byte(rapid.IntRange(1, 7).Draw(t, "k"))
			if len(payload) > 0 {
				bitsContent = append([]byte(nil), payload...)
				bitsContent[len(bitsContent)-1] &^= 1<<unused - 1
			}
		case "other-curve":
			o2.content = oidPrime256v1
		case "other-alg":
			o1.content = oidEcDH
		case "explicit-null":
			algTrail = []byte{0x05, 0x00}
		case "swap-oids":
			o1, o2 = o2, o1
		case "outer-len81":
			outer.lenForm = len81
		case "alg-len81":
			alg.lenForm = len81
		case "bits-len81":
			bits.lenForm = len81
		case "oid-len81":
			o2.lenForm = len81
		case "trail-outer":
			outerTrail = gen.Bytes(t, 1, 2, "trail")
		case "trail-inner":
			innerTrail = gen.Bytes(t, 1, 2, "trail")
		case "trail-alg":
			algTrail = gen.Bytes(t, 1, 2, "trail")
		case "reorder":
			reorder = true
		case "extra-element":
			innerTrail = []byte{0x02, 0x01, 0x00}
		case "bits-tag":
			bits.tag = gen.Sampled([]byte{0x04, 0x23, 0x83}).Draw(t, "bitstag")
		case "outer-tag":
			outer.tag = 0x31
		case "outer-indefinite":
			outer.lenForm = lenIndefinite
			outerTrail = []byte{0, 0}
		}
		alg.content = append(append(o1.bytes(), o2.bytes()...), algTrail...)
		bits.content = append([]byte{unused}, bitsContent...)
		if reorder {
			outer.content = append(bits.bytes(), alg.bytes()...)
		} else {
			outer.content = append(alg.bytes(), bits.bytes()...)
		}
		outer.content = append(outer.content, innerTrail...)
		x = append(outer.bytes(), outerTrail...)
		switch m {
		case "truncate":
			x = x[:len(x)-rapid.IntRange(1, 4).Draw(t, "cut")]
		case "bitflip":
			bit := rapid.IntRange(0, len(x)*8-1).Draw(t, "bit")
			x[bit/8] ^= 1 << (bit % 8)
		}
		desc = payloadKind + "/" + m
		if m == "unused-bits" {
			desc = payloadKind + "/unused-bits"
		}
	}
	ok := checkSPKI(func(f string, a ...any) { t.Fatalf(f, a...) }, x)
	acc := "reject"
	if ok {
		acc = "accept"
	}
	stat.Case("spki", []string{"built:" + desc, acc}, desc != "raw" || ok, append([]byte("k|"), x...), func() any {
		return map[string]any{"bytes": stat.Hex(x), "built": desc, "expect": acc}
	})
}

func TestC12_SPKI(t *testing.T) { rapid.Check(t, propSPKI) }

func min(a, b int) int {
	if a < b {
		return a
	}
	return b
}

// ---- consumers of the signature wire format ------------------------------------

// propVerifyEncodings: uniqueness of the accepted encoding must survive in
// every consumer of the wire format, not only in the Parse* functions: a
// verifier that extracts r and s by itself (bitcoin.VerifyASN1 is anchored in
// this property) accepts "exactly the strict-DER encodings of (r, s) with
// 1 <= r, s < n" only if it refuses every other spelling of a signature that
// is cryptographically valid.  The mutations of arbitrary (r, s) above cannot
// tell, because those signatures verify under no key; here the signature is
// valid by construction - R is lifted from a chosen abscissa (often tiny, so
// that r + n still fits in 32 bytes), s is chosen, Q = r^-1 (s R - e G) - and
// the same pair is then spelled in every non-canonical way.
func propVerifyEncodings(t *rapid.T) {
	small := new(big.Int).Sub(ref.Two256, ref.N) // values v with v + n < 2^256
	pick := func(label string) *big.Int {
		switch gen.Sampled([]string{"tiny", "below-2^256-n", "short", "any"}).Draw(t, label+"_kind") {
		case "tiny":
			return big.NewInt(int64(rapid.IntRange(1, 4096).Draw(t, label+"_tiny")))
		case "below-2^256-n":
			v := ref.Mod(gen.Raw256(t, small, label+"_b"), small)
			if v.Sign() == 0 {
				v.SetInt64(1)
			}
			return v
		case "short":
			n := rapid.IntRange(1, 31).Draw(t, label+"_short")
			v := new(big.Int).SetBytes(gen.Bytes(t, n, n, label+"_sb"))
			if v.Sign() == 0 {
				v.SetInt64(2)
			}
			return v
		}
		v := ref.Mod(gen.Raw256(t, ref.N, label), ref.N)
		if v.Sign() == 0 {
			v.SetInt64(3)
		}
		return v
	}
	// R: the first abscissa at or after the drawn one that is on the curve (and below n, so r = x)
	x := pick("x")
	var R ref.Pt
	for i := 0; ; i++ {
		if i > 64 {
			t.Skip("no curve point near the drawn abscissa")
		}
		if p, ok := ref.LiftX(x, rapid.Bool().Draw(t, "odd")); ok && x.Cmp(ref.N) < 0 {
			R = p
			break
		}
		x = new(big.Int).Add(x, big.NewInt(1))
	}
	r := new(big.Int).Set(x)
	s, _ := ref.LowS(pick("s"))
	if s.Sign() == 0 {
		s.SetInt64(1)
	}
	digest := gen.Bytes(t, 32, 32, "digest")
	e := ref.Mod(ref.Int(digest), ref.N)
	// Q = r^-1 (s R - e G)
	rinv := ref.Inv0(r, ref.N)
	q := R.Mul(s).Sub(ref.BaseMul(e)).Mul(rinv)
	if q.Inf {
		t.Skip("Q is the identity")
	}
	key := lib.PubKey(q)
	canon := ref.EncodeDERSig(r, s)
	sighash := rapid.Byte().Draw(t, "sighash")
	withSighash := func(der []byte) []byte { return append(append([]byte(nil), der...), sighash) }

	verify := func(what string, der []byte, want bool) {
		var got, got2 bool
		sig := withSighash(der)
		if p := lib.Catch(func() { got = bitcoin.VerifyASN1(key, digest, sig) }); p != nil {
			t.Fatalf("bitcoin.VerifyASN1 panicked on %s %x: %v", what, sig, p)
		}
		if got != want {
			t.Fatalf("bitcoin.VerifyASN1(Q=%v, digest=%x) = %v for %s %x of the valid signature (r=%x, s=%x); the only accepted encoding is %x", q, digest, got, what, sig, r, s, withSighash(canon))
		}
		if p := lib.Catch(func() {
			got2 = key.Verify(digest, der, &secec.ECDSAOptions{Encoding: secec.EncodingASN1})
		}); p != nil {
			t.Fatalf("PublicKey.Verify panicked on %s %x: %v", what, der, p)
		}
		if got2 != want {
			t.Fatalf("PublicKey.Verify(ASN.1) = %v for %s %x of the valid signature (r=%x, s=%x)", got2, what, der, r, s)
		}
		_, _, err := secec.ParseASN1Signature(der)
		if (err == nil) != want {
			t.Fatalf("ParseASN1Signature(%s %x): err=%v", what, der, err)
		}
	}
	verify("the canonical encoding", canon, true)

	rawInt := func(v *big.Int) []byte { // minimal non-negative DER content of any v >= 0
		b := v.Bytes()
		if len(b) == 0 || b[0]&0x80 != 0 {
			b = append([]byte{0}, b...)
		}
		return b
	}
	seq := func(rc, sc []byte) []byte {
		body := append(ref.DERTLV(0x02, rc), ref.DERTLV(0x02, sc)...)
		return ref.DERTLV(0x30, body)
	}
	rn, sn := new(big.Int).Add(r, ref.N), new(big.Int).Add(s, ref.N)
	alts := []struct {
		name string
		der  []byte
	}{
		{"r+n", seq(rawInt(rn), rawInt(s))},
		{"s+n", seq(rawInt(r), rawInt(sn))},
		{"r+n,s+n", seq(rawInt(rn), rawInt(sn))},
		{"r+2n", seq(rawInt(new(big.Int).Add(rn, ref.N)), rawInt(s))},
		{"n-s (high s)", seq(rawInt(r), rawInt(new(big.Int).Sub(ref.N, s)))},
		{"zero-padded r", seq(append([]byte{0}, rawInt(r)...), rawInt(s))},
		{"zero-padded s", seq(rawInt(r), append([]byte{0}, rawInt(s)...))},
		{"r without its sign byte", seq(r.Bytes(), rawInt(s))},
		{"long-form SEQUENCE length", append([]byte{0x30, 0x81, canon[1]}, canon[2:]...)},
		{"trailing byte inside", func() []byte { d := append(append([]byte(nil), canon...), 0); d[1]++; return d }()},
		{"trailing byte outside", append(append([]byte(nil), canon...), 0)},
	}
	fits32 := rn.BitLen() <= 256
	cl := []string{fmt.Sprintf("r-bytes:%d", len(r.Bytes())/8*8), fmt.Sprintf("s-bytes:%d", len(s.Bytes())/8*8)}
	if fits32 {
		cl = append(cl, "r+n-fits-32-bytes")
	}
	if sn.BitLen() <= 256 {
		cl = append(cl, "s+n-fits-32-bytes")
	}
	for _, a := range alts {
		if bytes.Equal(a.der, canon) {
			continue // e.g. r has no sign byte to drop
		}
		want := false
		if a.name == "n-s (high s)" {
			// a different, valid signature: the generic verifier accepts it unless asked
			// not to, the bitcoin one never does; checked separately
			sig := withSighash(a.der)
			if bitcoin.VerifyASN1(key, digest, sig) {
				t.Fatalf("bitcoin.VerifyASN1 accepted the high-s twin %x", sig)
			}
			continue
		}
		verify(a.name, a.der, want)
	}
	// compact spellings of the same valid pair
	compact := append(ref.B32(r), ref.B32(s)...)
	if !key.Verify(digest, compact, &secec.ECDSAOptions{Encoding: secec.EncodingCompact}) {
		t.Fatalf("PublicKey.Verify(compact) rejected the valid signature (r=%x, s=%x)", r, s)
	}
	if fits32 {
		alias := append(ref.B32(rn), ref.B32(s)...)
		if key.Verify(digest, alias, &secec.ECDSAOptions{Encoding: secec.EncodingCompact}) {
			t.Fatalf("PublicKey.Verify(compact) accepted r+n = %x for the valid signature (r=%x, s=%x)", rn, r, s)
		}
		if _, _, err := secec.ParseCompactSignature(alias); err == nil {
			t.Fatalf("ParseCompactSignature accepted r+n = %x", rn)
		}
	}
	if sn.BitLen() <= 256 {
		alias := append(ref.B32(r), ref.B32(sn)...)
		if key.Verify(digest, alias, &secec.ECDSAOptions{Encoding: secec.EncodingCompact}) {
			t.Fatalf("PublicKey.Verify(compact) accepted s+n = %x for the valid signature (r=%x, s=%x)", sn, r, s)
		}
	}
	stat.Case("verify-encodings", cl, true, []byte(fmt.Sprintf("%x|%x|%x", r, s, digest)), func() any {
		return map[string]any{"r": r.Text(16), "s": s.Text(16), "digest": stat.Hex(digest), "Q": q.String(), "canonical": stat.Hex(canon)}
	})
}

func TestC12_VerifyEncodings(t *testing.T) { rapid.Check(t, propVerifyEncodings) }
