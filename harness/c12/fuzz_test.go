package c12

import (
	"math/big"
	"testing"

	"gitlab.com/yawning/secp256k1-voi/verifharness/ref"
)

func sigSeeds() [][]byte {
	var out [][]byte
	vals := []*big.Int{big.NewInt(1), big.NewInt(0x7f), big.NewInt(0x80), new(big.Int).Sub(ref.N, big.NewInt(1)), ref.HalfN,
		new(big.Int).Lsh(big.NewInt(1), 255), ref.N, big.NewInt(0), new(big.Int).Sub(ref.Two256, big.NewInt(1))}
	for _, r := range vals {
		for _, s := range vals {
			out = append(out, ref.EncodeDERSig(r, s))
		}
	}
	out = append(out,
		[]byte{0x30, 0x81, 0x06, 0x02, 0x01, 0x01, 0x02, 0x01, 0x01}, // long-form length
		[]byte{0x30, 0x80, 0x02, 0x01, 0x01, 0x02, 0x01, 0x01, 0, 0}, // indefinite
		[]byte{0x30, 0x07, 0x02, 0x02, 0x00, 0x01, 0x02, 0x01, 0x01}, // leading zero
		[]byte{0x30, 0x06, 0x02, 0x01, 0x81, 0x02, 0x01, 0x01},       // negative
		[]byte{0x30, 0x05, 0x02, 0x00, 0x02, 0x01, 0x01},             // zero-length
		[]byte{0x30, 0x07, 0x02, 0x01, 0x01, 0x02, 0x01, 0x01, 0x00}, // trailing inside
		[]byte{}, []byte{0x30}, []byte{0x30, 0x00},
	)
	return out
}

func FuzzC12_DERSig(f *testing.F) {
	for _, s := range sigSeeds() {
		f.Add(s)
	}
	f.Fuzz(func(t *testing.T, x []byte) {
		checkDERSig(func(format string, a ...any) { t.Fatalf(format, a...) }, x)
		checkCompact(func(format string, a ...any) { t.Fatalf(format, a...) }, x)
	})
}

func FuzzC12_BIP66(f *testing.F) {
	for _, s := range sigSeeds() {
		f.Add(append(append([]byte(nil), s...), 1))
	}
	f.Fuzz(func(t *testing.T, x []byte) {
		checkBIP66(func(format string, a ...any) { t.Fatalf(format, a...) }, x)
	})
}

func FuzzC12_SPKI(f *testing.F) {
	g := ref.G()
	f.Add(ref.EncodeSPKI(g))
	f.Add(append(append([]byte(nil), ref.SPKIPrefixCompressed...), g.Compressed()...))
	f.Add(append(append([]byte(nil), ref.SPKIPrefixCompressed...), g.Neg().Compressed()...))
	bad := ref.EncodeSPKI(g)
	bad[len(ref.SPKIPrefixUncompressed)-1] = 1 // unused bits = 1
	f.Add(bad)
	id := append(append([]byte{0x30, 0x16}, ref.SPKIPrefixUncompressed[2:20]...), 0x03, 0x02, 0x00, 0x00)
	f.Add(id)
	f.Add([]byte{})
	f.Fuzz(func(t *testing.T, x []byte) {
		checkSPKI(func(format string, a ...any) { t.Fatalf(format, a...) }, x)
	})
}
