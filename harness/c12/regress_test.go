package c12

import (
	"encoding/hex"
	"os"
	"path/filepath"
	"strings"
	"testing"

	"gitlab.com/yawning/secp256k1-voi/verifharness/stat"
)

func regressDir() string {
	if d := os.Getenv("VERIF_ROOT"); d != "" {
		return filepath.Join(d, "regress", "C12")
	}
	return filepath.Join("..", "..", "regress", "C12")
}

// TestRegressC12_Inputs replays every committed regression input through all
// four oracles as a plain test (no generator involved).
func TestRegressC12_Inputs(t *testing.T) {
	files, _ := filepath.Glob(filepath.Join(regressDir(), "*.hex"))
	if len(files) == 0 {
		t.Skip("no regression inputs found")
	}
	for _, f := range files {
		raw, err := os.ReadFile(f)
		if err != nil {
			t.Fatal(err)
		}
		x, err := hex.DecodeString(strings.TrimSpace(string(raw)))
		if err != nil {
			t.Fatalf("%s: %v", f, err)
		}
		fail := func(format string, a ...any) { t.Errorf(filepath.Base(f)+": "+format, a...) }
		stat.Case("regress", []string{filepath.Base(f)}, true, x, func() any { return map[string]any{"file": filepath.Base(f), "bytes": stat.Hex(x)} })
		checkSPKI(fail, x)
		checkDERSig(fail, x)
		checkCompact(fail, x)
		checkBIP66(fail, x)
	}
}
