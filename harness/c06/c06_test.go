// Package c06: SEC 1 point decoding is strict and encoding is a bijection.
package c06

import (
	"bytes"
	"fmt"
	"math/big"
	"testing"

	"pgregory.net/rapid"

	secp256k1 "gitlab.com/yawning/secp256k1-voi"
	"gitlab.com/yawning/secp256k1-voi/verifharness/gen"
	"gitlab.com/yawning/secp256k1-voi/verifharness/lib"
	"gitlab.com/yawning/secp256k1-voi/verifharness/ref"
	"gitlab.com/yawning/secp256k1-voi/verifharness/stat"
)

func TestMain(m *testing.M) { stat.Main(m) }

var pMinusN = new(big.Int).Sub(ref.P, ref.N)

// mutate applies one mutation to a valid encoding of p and names it.
func mutate(t *rapid.T, p ref.Pt, compressed bool) ([]byte, string) {
	muts := []string{"none", "none", "prefix", "truncate", "extend", "bitflip", "y-neg", "y+1", "y-1", "x+p", "y+p",
		"x-nonresidue", "hybrid-ok", "hybrid-bad", "zero-padded-identity", "x=p", "swap-format-prefix", "near-curve", "near-curve"}
	m := gen.Sampled(muts).Draw(t, "mutation")
	// the +p aliases only fit in 32 bytes for tiny coordinates: build such a point
	switch m {
	case "x+p":
		p = gen.SmallXPoint(t, "sx").P
	case "y+p":
		p, compressed = gen.SmallYPoint(t, "sy").P, false
	}
	out := p.Uncompressed()
	if compressed {
		out = p.Compressed()
	}
	switch m {
	case "near-curve": // canonical coordinates on y^2 = x^3 + 7 + d, d a hostile small offset
		x, y, kind := gen.NearCurve(t, "nc")
		return append(append([]byte{4}, ref.B32(x)...), ref.B32(y)...), "near-curve:" + kind
	case "prefix":
		out[0] = rapid.Byte().Draw(t, "prefix")
	case "truncate":
		out = out[:len(out)-rapid.IntRange(1, min(len(out), 2)).Draw(t, "cut")]
	case "extend":
		out = append(out, gen.Bytes(t, 1, 2, "ext")...)
	case "bitflip":
		bit := rapid.IntRange(0, len(out)*8-1).Draw(t, "bit")
		out[bit/8] ^= 1 << (bit % 8)
	case "y-neg", "y+1", "y-1", "y+p":
		if p.Inf || len(out) != 65 {
			return out, "none"
		}
		var y *big.Int
		switch m {
		case "y-neg":
			y = ref.NegM(p.Y, ref.P)
		case "y+1":
			y = ref.AddM(p.Y, big.NewInt(1), ref.P)
		case "y-1":
			y = ref.SubM(p.Y, big.NewInt(1), ref.P)
		default:
			y = new(big.Int).Add(p.Y, ref.P)
			if y.BitLen() > 256 {
				return out, "none"
			}
		}
		copy(out[33:], ref.B32(y))
	case "x+p":
		if p.Inf {
			return out, "none"
		}
		x := new(big.Int).Add(p.X, ref.P)
		if x.BitLen() > 256 {
			return out, "none"
		}
		copy(out[1:33], ref.B32(x))
	case "x=p":
		if p.Inf {
			return out, "none"
		}
		copy(out[1:33], ref.B32(new(big.Int).Add(ref.P, gen.Small(t, "xoff"))))
	case "x-nonresidue":
		if p.Inf {
			return out, "none"
		}
		x := new(big.Int).Set(p.X)
		for ref.IsSquareP(ref.RHS(x)) {
			x = ref.AddM(x, big.NewInt(1), ref.P)
		}
		copy(out[1:33], ref.B32(x))
	case "hybrid-ok", "hybrid-bad":
		if p.Inf || len(out) != 65 {
			return out, "none"
		}
		par := byte(p.Y.Bit(0))
		if m == "hybrid-bad" {
			par ^= 1
		}
		out[0] = 6 + par
	case "zero-padded-identity":
		out = make([]byte, gen.Sampled([]int{2, 33, 65}).Draw(t, "zlen"))
	case "swap-format-prefix":
		if p.Inf {
			return out, "none"
		}
		if len(out) == 33 {
			out[0] = 4
		} else {
			out[0] = 2 + byte(p.Y.Bit(0))
		}
	}
	return out, m
}

type rcvKind int

const (
	rcvZeroValue rcvKind = iota
	rcvIdentity
	rcvKnown
)

func propDecode(t *rapid.T) {
	var src []byte
	var mut, form string
	if rapid.IntRange(0, 9).Draw(t, "raw") == 0 {
		n := gen.Sampled([]int{0, 1, 2, 32, 33, 34, 64, 65, 66}).Draw(t, "rawlen")
		if rapid.Bool().Draw(t, "anylen") {
			n = rapid.IntRange(0, 66).Draw(t, "rawlen2")
		}
		src = gen.Bytes(t, n, n, "rawbytes")
		if n > 0 && rapid.Bool().Draw(t, "goodprefix") {
			src[0] = gen.Sampled([]byte{0, 2, 3, 4, 6, 7}).Draw(t, "pfx")
		}
		mut, form = "raw", "raw"
	} else {
		pc := gen.Point(t, "pt")
		form = gen.Sampled([]string{"compressed", "uncompressed"}).Draw(t, "form")
		src, mut = mutate(t, pc.P, form == "compressed")
		form += "/" + pc.Desc
	}
	orig := append([]byte(nil), src...)
	entry := gen.Sampled([]string{"SetBytes", "SetCompressedBytes", "SetUncompressedBytes", "NewPointFromBytes"}).Draw(t, "entry")
	rk := rcvKind(rapid.IntRange(0, 2).Draw(t, "rcv"))

	want, ok := ref.DecodePoint(src)
	switch entry {
	case "SetCompressedBytes":
		ok = ok && len(src) == 33
	case "SetUncompressedBytes":
		ok = ok && len(src) == 65
	}

	var rcv *secp256k1.Point
	known := ref.BaseMul(big.NewInt(7))
	switch rk {
	case rcvZeroValue:
		rcv = &secp256k1.Point{}
	case rcvIdentity:
		rcv = secp256k1.NewIdentityPoint()
	default:
		rcv = lib.Pt(known)
	}

	var (
		got *secp256k1.Point
		err error
	)
	switch entry {
	case "SetBytes":
		got, err = rcv.SetBytes(src)
	case "SetCompressedBytes":
		got, err = rcv.SetCompressedBytes(src)
	case "SetUncompressedBytes":
		got, err = rcv.SetUncompressedBytes(src)
	default:
		got, err = secp256k1.NewPointFromBytes(src)
	}

	acc := "reject"
	if ok {
		acc = "accept"
	}
	classes := []string{"mut:" + mut, "entry:" + entry, acc, fmt.Sprintf("len:%d", len(src))}
	nontrivial := ok || (mut != "raw")
	stat.Case("decode", classes, nontrivial, append([]byte(entry+"|"), src...), func() any {
		return map[string]any{"entry": entry, "src": stat.Hex(src), "mutation": mut, "from": form, "expect": acc, "receiver": int(rk)}
	})

	if !bytes.Equal(src, orig) {
		t.Fatal("input bytes were modified")
	}
	if ok {
		if err != nil || got == nil {
			t.Fatalf("%s(%x) [%s]: valid encoding rejected: %v", entry, src, mut, err)
		}
		if entry != "NewPointFromBytes" && got != rcv {
			t.Fatalf("%s: returned pointer is not the receiver", entry)
		}
		back, ok2 := lib.PtRef(got)
		if !ok2 || !back.Eq(want) {
			t.Fatalf("%s(%x): decoded to %v want %v", entry, src, back, want)
		}
		// decode-then-encode (same format) reproduces the input
		var re []byte
		if len(src) == 33 {
			re = got.CompressedBytes()
		} else {
			re = got.UncompressedBytes()
		}
		if !bytes.Equal(re, src) {
			t.Fatalf("%s(%x): re-encoding gives %x", entry, src, re)
		}
		if !bytes.Equal(got.CompressedBytes(), want.Compressed()) || !bytes.Equal(got.UncompressedBytes(), want.Uncompressed()) {
			t.Fatalf("%s(%x): encodings differ from the reference encodings", entry, src)
		}
		return
	}
	if err == nil || got != nil {
		t.Fatalf("%s(%x) [%s]: invalid encoding accepted", entry, src, mut)
	}
	if entry == "NewPointFromBytes" {
		return
	}
	// receiver must be exactly as it was
	switch rk {
	case rcvZeroValue:
		if p := lib.Catch(func() { rcv.IsIdentity() }); p == nil {
			t.Fatalf("%s(%x): failed decode made a zero-value receiver usable", entry, src)
		}
	case rcvIdentity:
		if rcv.IsIdentity() != 1 || !bytes.Equal(rcv.CompressedBytes(), []byte{0}) {
			t.Fatalf("%s(%x): failed decode changed an identity receiver", entry, src)
		}
	default:
		if !bytes.Equal(rcv.UncompressedBytes(), known.Uncompressed()) {
			t.Fatalf("%s(%x): failed decode changed the receiver", entry, src)
		}
	}
}

func TestC06_Decode(t *testing.T) { rapid.Check(t, propDecode) }

func propEncode(t *rapid.T) {
	pc := gen.Point(t, "pt")
	p := lib.Pt(pc.P)
	// every representative of the point has the same encodings: besides the decoded (Z = 1) form, use
	// representatives that library arithmetic produces -- P + O (Z = y for the complete formulas),
	// (P + G) - G, 2P - P
	rep := gen.Sampled([]string{"decoded", "plus-identity", "plus-identity", "plusG-minusG", "double-minus"}).Draw(t, "rep")
	switch rep {
	case "plus-identity":
		p = secp256k1.NewIdentityPoint().Add(p, secp256k1.NewIdentityPoint())
	case "plusG-minusG":
		p = secp256k1.NewIdentityPoint().Add(p, secp256k1.NewGeneratorPoint())
		p.Subtract(p, secp256k1.NewGeneratorPoint())
	case "double-minus":
		d := secp256k1.NewIdentityPoint().Double(p)
		p = d.Subtract(d, p)
	}
	stat.Case("encode", []string{"pt:" + pc.Desc, "rep:" + rep}, true, append([]byte(rep), pc.P.Uncompressed()...), func() any {
		return map[string]any{"point": pc.P.String(), "from": pc.Desc, "representative": rep}
	})
	c, u := p.CompressedBytes(), p.UncompressedBytes()
	if !bytes.Equal(c, pc.P.Compressed()) || !bytes.Equal(u, pc.P.Uncompressed()) {
		t.Fatalf("encodings of %v: %x / %x", pc.P, c, u)
	}
	for _, enc := range [][]byte{c, u} {
		q, err := secp256k1.NewPointFromBytes(enc)
		if err != nil {
			t.Fatalf("own encoding rejected: %x: %v", enc, err)
		}
		if q.Equal(p) != 1 {
			t.Fatalf("encode-then-decode is not the identity for %v", pc.P)
		}
	}
	xb, err := p.XBytes()
	if pc.P.Inf {
		if err == nil || xb != nil {
			t.Fatal("XBytes of the identity did not fail")
		}
		if len(c) != 1 || len(u) != 1 {
			t.Fatal("identity encoding is not the single byte 0x00")
		}
	} else {
		if err != nil || !bytes.Equal(xb, ref.B32(pc.P.X)) {
			t.Fatalf("XBytes of %v = %x, %v", pc.P, xb, err)
		}
		xs, odd := secp256k1.SplitUncompressedPoint(u)
		if !bytes.Equal(xs, ref.B32(pc.P.X)) || odd != uint64(pc.P.Y.Bit(0)) {
			t.Fatalf("SplitUncompressedPoint(%x) = %x,%d", u, xs, odd)
		}
		if p.IsYOdd() != uint64(pc.P.Y.Bit(0)) {
			t.Fatalf("IsYOdd(%v)", pc.P)
		}
	}
	// returned slices are copies
	u[0] ^= 0xff
	if !bytes.Equal(p.UncompressedBytes(), pc.P.Uncompressed()) {
		t.Fatal("UncompressedBytes aliases internal state")
	}
	// ... every one of them, also for other objects that hold the same point ("each point has exactly one
	// compressed and one uncompressed encoding", whatever callers did with earlier results)
	if msg := lib.EncodingsSurviveCallerWrites(p); msg != "" {
		t.Fatalf("%v: %s", pc.P, msg)
	}
	if o := lib.Pt(pc.P); !bytes.Equal(o.CompressedBytes(), pc.P.Compressed()) || !bytes.Equal(o.UncompressedBytes(), pc.P.Uncompressed()) {
		t.Fatalf("%v: another object holding the same point encodes as %x / %x after the caller overwrote earlier results", pc.P, o.CompressedBytes(), o.UncompressedBytes())
	}
}

func TestC06_Encode(t *testing.T) { rapid.Check(t, propEncode) }

func propCoords(t *rapid.T) {
	pc := gen.NonIdentityPoint(t, "pt")
	mut := gen.Sampled([]string{"none", "none", "y-neg", "y+1", "x+1", "x+p", "y+p", "x=p+", "y=p+", "swap", "zero", "raw", "near-curve", "near-curve"}).Draw(t, "mut")
	switch mut {
	case "x+p":
		pc = gen.SmallXPoint(t, "sx")
	case "y+p":
		pc = gen.SmallYPoint(t, "sy")
	}
	x, y := new(big.Int).Set(pc.P.X), new(big.Int).Set(pc.P.Y)
	switch mut {
	case "y-neg":
		y = ref.NegM(y, ref.P)
	case "y+1":
		y = ref.AddM(y, big.NewInt(1), ref.P)
	case "x+1":
		x = ref.AddM(x, big.NewInt(1), ref.P)
	case "x+p":
		if v := new(big.Int).Add(x, ref.P); v.BitLen() <= 256 {
			x = v
		} else {
			mut = "none"
		}
	case "y+p":
		if v := new(big.Int).Add(y, ref.P); v.BitLen() <= 256 {
			y = v
		} else {
			mut = "none"
		}
	case "x=p+":
		x = new(big.Int).Add(ref.P, gen.Small(t, "o"))
	case "y=p+":
		y = new(big.Int).Add(ref.P, gen.Small(t, "o"))
	case "swap":
		x, y = y, x
	case "zero":
		x, y = big.NewInt(0), big.NewInt(0)
	case "raw":
		x, y = gen.Raw256(t, ref.P, "rx"), gen.Raw256(t, ref.P, "ry")
	case "near-curve":
		var kind string
		x, y, kind = gen.NearCurve(t, "nc")
		mut += ":" + kind
	}
	ok := ref.OnCurve(x, y)
	acc := "reject"
	if ok {
		acc = "accept"
	}
	xb, yb := ref.B32(x), ref.B32(y)
	stat.Case("coords", []string{"mut:" + mut, acc, "pt:" + pc.Desc}, true, append(append([]byte{}, xb...), yb...), func() any {
		return map[string]any{"x": stat.Hex(xb), "y": stat.Hex(yb), "mutation": mut, "expect": acc}
	})
	p, err := secp256k1.NewPointFromCoords((*[32]byte)(xb), (*[32]byte)(yb))
	if ok {
		if err != nil || p == nil {
			t.Fatalf("NewPointFromCoords(%x,%x): valid point rejected: %v", x, y, err)
		}
		if !bytes.Equal(p.UncompressedBytes(), ref.Pt{X: x, Y: y}.Uncompressed()) {
			t.Fatalf("NewPointFromCoords(%x,%x): wrong point", x, y)
		}
	} else if err == nil || p != nil {
		t.Fatalf("NewPointFromCoords(%x,%x) [%s]: invalid coordinates accepted", x, y, mut)
	}
}

func TestC06_Coords(t *testing.T) { rapid.Check(t, propCoords) }

// smallRClass finds r < 2^16-ish in a requested class of
// (r is an abscissa) x (r+n is an abscissa).
func propRecoverPoint(t *rapid.T) {
	src := gen.Sampled([]string{"x-of-point", "small-r", "r>=p-n", "r<p-n", "raw"}).Draw(t, "rsrc")
	var r *big.Int
	switch src {
	case "x-of-point":
		r = ref.Mod(gen.NonIdentityPoint(t, "pt").P.X, ref.N)
	case "small-r":
		r = gen.Small(t, "r")
	case "r>=p-n":
		r = new(big.Int).Add(pMinusN, gen.Small(t, "o"))
	case "r<p-n":
		r = new(big.Int).Sub(pMinusN, big.NewInt(1))
		r.Sub(r, gen.Small(t, "o"))
	default:
		r = gen.Int256(t, ref.N, "r")
	}
	r = ref.Mod(r, ref.N)
	id := rapid.Byte().Draw(t, "id")
	if rapid.Bool().Draw(t, "lowid") {
		id &= 3
	}
	// reference rule
	var want ref.Pt
	ok := id < 4
	if ok {
		x := new(big.Int).Set(r)
		if id&2 != 0 {
			x.Add(x, ref.N)
		}
		if x.Cmp(ref.P) >= 0 {
			ok = false
		} else {
			want, ok = ref.LiftX(x, id&1 == 1)
		}
	}
	acc := "reject"
	if ok {
		acc = "accept"
	}
	cls := []string{"r:" + src, acc, fmt.Sprintf("id:%d", min(int(id), 4))}
	if ok && id&2 != 0 {
		cls = append(cls, "accept-with-bit1")
	}
	stat.Case("recoverpoint", cls, true, []byte(fmt.Sprintf("%x|%d", r, id)), func() any {
		return map[string]any{"r": r.Text(16), "id": id, "expect": acc}
	})
	rs := lib.Sc(r)
	p, err := secp256k1.RecoverPoint(rs, id)
	if lib.ScInt(rs).Cmp(r) != 0 {
		t.Fatal("RecoverPoint modified its scalar argument")
	}
	if ok {
		if err != nil || p == nil {
			t.Fatalf("RecoverPoint(%x,%d): rejected: %v", r, id, err)
		}
		if !bytes.Equal(p.UncompressedBytes(), want.Uncompressed()) {
			t.Fatalf("RecoverPoint(%x,%d): wrong point %x", r, id, p.UncompressedBytes())
		}
	} else if err == nil || p != nil {
		t.Fatalf("RecoverPoint(%x,%d): accepted, want error", r, id)
	}
}

func TestC06_RecoverPoint(t *testing.T) { rapid.Check(t, propRecoverPoint) }

func min(a, b int) int {
	if a < b {
		return a
	}
	return b
}
