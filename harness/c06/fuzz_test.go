package c06

import (
	"bytes"
	"math/big"
	"testing"

	secp256k1 "gitlab.com/yawning/secp256k1-voi"
	"gitlab.com/yawning/secp256k1-voi/verifharness/lib"
	"gitlab.com/yawning/secp256k1-voi/verifharness/ref"
	"gitlab.com/yawning/secp256k1-voi/verifharness/stat"
)

// FuzzC06_Decode: raw bytes through every decoder, differential against the
// reference strict decoder (oracle inside the target).
func FuzzC06_Decode(f *testing.F) {
	g := ref.G()
	small, _ := ref.LiftX(big.NewInt(1), false)
	for _, p := range []ref.Pt{g, g.Neg(), g.Double(), small, ref.Infinity()} {
		f.Add(p.Compressed())
		f.Add(p.Uncompressed())
	}
	hostile := [][]byte{
		append([]byte{2}, ref.B32(ref.P)...), append([]byte{3}, ref.B32(new(big.Int).Add(small.X, ref.P))...),
		append(append([]byte{4}, ref.B32(new(big.Int).Add(small.X, ref.P))...), ref.B32(small.Y)...),
		append(append([]byte{6}, ref.B32(g.X)...), ref.B32(g.Y)...), append(append([]byte{7}, ref.B32(g.X)...), ref.B32(g.Y)...),
		make([]byte, 33), make([]byte, 65), {0}, {1}, {}, append([]byte{2}, bytes.Repeat([]byte{0xff}, 32)...),
		append([]byte{2}, ref.B32(ref.N)...),
	}
	for _, h := range hostile {
		f.Add(h)
	}
	f.Fuzz(func(t *testing.T, src []byte) {
		want, ok := ref.DecodePoint(src)
		stat.Case("fuzz-decode", nil, ok, src, nil)
		known := ref.BaseMul(big.NewInt(7))
		for i, dec := range []func(*secp256k1.Point, []byte) (*secp256k1.Point, error){
			(*secp256k1.Point).SetBytes, (*secp256k1.Point).SetCompressedBytes, (*secp256k1.Point).SetUncompressedBytes,
		} {
			okHere := ok && (i == 0 || (i == 1 && len(src) == 33) || (i == 2 && len(src) == 65))
			rcv := lib.Pt(known)
			got, err := dec(rcv, src)
			if okHere {
				if err != nil || got != rcv {
					t.Fatalf("decoder %d rejected valid %x: %v", i, src, err)
				}
				back, ok2 := lib.PtRef(got)
				if !ok2 || !back.Eq(want) {
					t.Fatalf("decoder %d: %x decoded to %v want %v", i, src, back, want)
				}
				re := got.UncompressedBytes()
				if len(src) == 33 {
					re = got.CompressedBytes()
				}
				if !bytes.Equal(re, src) {
					t.Fatalf("decoder %d: %x re-encodes to %x", i, src, re)
				}
			} else {
				if err == nil || got != nil {
					t.Fatalf("decoder %d accepted invalid %x", i, src)
				}
				if !bytes.Equal(rcv.UncompressedBytes(), known.Uncompressed()) {
					t.Fatalf("decoder %d: failed decode of %x changed the receiver", i, src)
				}
			}
		}
	})
}
