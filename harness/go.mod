module gitlab.com/yawning/secp256k1-voi/verifharness

go 1.23

toolchain go1.23.5

require (
	gitlab.com/yawning/secp256k1-voi v0.0.0
	pgregory.net/rapid v1.3.0
)

require (
	gitlab.com/yawning/tuplehash v0.0.0-20230713102510-df83abbf9a02 // indirect
	golang.org/x/crypto v0.11.0 // indirect
)

replace gitlab.com/yawning/secp256k1-voi => /repo
