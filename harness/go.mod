module gitlab.com/yawning/secp256k1-voi/verifharness

go 1.23

toolchain go1.23.5

require (
	gitlab.com/yawning/secp256k1-voi v0.0.0
	pgregory.net/rapid v1.3.0
)

replace gitlab.com/yawning/secp256k1-voi => /repo
