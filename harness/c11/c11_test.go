// Package c11: public-key recovery returns exactly the key the signature
// verifies under.
package c11

import (
	"bytes"
	"fmt"
	"math/big"
	"testing"

	"pgregory.net/rapid"

	"gitlab.com/yawning/secp256k1-voi/secec"
	"gitlab.com/yawning/secp256k1-voi/verifharness/gen"
	"gitlab.com/yawning/secp256k1-voi/verifharness/lib"
	"gitlab.com/yawning/secp256k1-voi/verifharness/ref"
	"gitlab.com/yawning/secp256k1-voi/verifharness/stat"
)

func TestMain(m *testing.M) { stat.Main(m) }

var pMinusN = new(big.Int).Sub(ref.P, ref.N)

func propRecover(t *rapid.T) {
	rsrc := gen.Sampled([]string{"x-of-point", "x-of-point", "x-of-point", "x>=n-point", "x>=n-point", "small-r", "r<p-n", "r>=p-n", "non-coordinate", "raw", "zero"}).Draw(t, "rsrc")
	var r *big.Int
	var R ref.Pt
	haveR := false
	switch rsrc {
	case "x-of-point":
		R, haveR = gen.NonIdentityPoint(t, "R").P, true
		r = ref.Mod(R.X, ref.N)
	case "x>=n-point":
		xr := new(big.Int).Add(ref.N, gen.Small(t, "xoff"))
		for {
			if pt, ok := ref.LiftX(xr, rapid.Bool().Draw(t, "Rodd")); ok {
				R, haveR = pt, true
				break
			}
			xr.Add(xr, big.NewInt(1))
		}
		r = ref.Mod(R.X, ref.N)
	case "small-r":
		r = gen.Small(t, "r")
	case "r<p-n":
		r = new(big.Int).Sub(pMinusN, big.NewInt(1))
		r.Sub(r, gen.Small(t, "o"))
	case "r>=p-n":
		r = new(big.Int).Add(pMinusN, gen.Small(t, "o"))
	case "non-coordinate":
		r = gen.Int256(t, ref.N, "r")
		for ref.IsSquareP(ref.RHS(r)) {
			r = ref.AddM(r, big.NewInt(1), ref.N)
		}
	case "zero":
		r = big.NewInt(0)
	default:
		r = gen.Int256(t, ref.N, "r")
	}
	r = ref.Mod(r, ref.N)
	s := gen.SSpecial(t, "s")
	if rapid.IntRange(0, 30).Draw(t, "s0") == 0 {
		s = big.NewInt(0)
	} else if r.Sign() != 0 && rapid.IntRange(0, 3).Draw(t, "glv-u2") == 0 {
		// recovery multiplies R by u2 = s/r with the variable-time GLV routine: put u2 at the
		// decomposition's rare corners and solve for s
		if u2, _ := gen.GLVScalar(t, "u2"); u2.Sign() != 0 {
			s = ref.MulM(u2, r, ref.N)
			rsrc += "+u2-glv-steered"
		}
	}
	dlen := gen.Sampled([]int{32, 32, 32, 32, 32, 32, 40, 48, 64, 64, 31, 0}).Draw(t, "dlen")
	digest := gen.Bytes(t, dlen, dlen, "digest")
	if dlen >= 32 {
		switch gen.Sampled([]string{"random", "random", "random", "random", "e=0", "e>=n", "e>=n", "Q=O", "exceptional-window", "exceptional-window"}).Draw(t, "ekind") {
		case "exceptional-window":
			// recovery evaluates (-e/r)*G + (s/r)*R: with R = k*G, solve e and s so that an accumulator started
			// at (s/r)*R meets the fixed-base table entry it is about to add (see gen.ExceptionalDouble)
			k, u1, u2, kind := gen.ExceptionalDouble(t, "xw")
			R, haveR = ref.BaseMul(k), true
			if r = ref.Mod(R.X, ref.N); r.Sign() != 0 {
				s = ref.MulM(u2, r, ref.N)
				copy(digest, ref.B32(ref.NegM(ref.MulM(u1, r, ref.N), ref.N)))
				rsrc = kind
			}
		case "e=0":
			copy(digest, make([]byte, 32))
		case "e>=n":
			copy(digest, ref.B32(new(big.Int).Add(ref.N, gen.Small(t, "eo"))))
		case "Q=O":
			// s*R = e*G with R = k*G  <=>  e = s*k
			k := gen.NonZero256(t, ref.N, "k")
			R, haveR = ref.BaseMul(k), true
			r = ref.Mod(R.X, ref.N)
			copy(digest, ref.B32(ref.MulM(s, k, ref.N)))
			rsrc = "Q=O-construction"
		}
	}
	v := rapid.Byte().Draw(t, "v")
	switch rapid.IntRange(0, 5).Draw(t, "vmode") {
	case 0: // any byte
	case 1:
		v &= 3
	default: // the id matching the R we built, when there is one
		v &= 3
		if haveR {
			v = byte(R.Y.Bit(0))
			if R.X.Cmp(ref.N) >= 0 {
				v |= 2
			}
		}
	}
	want, ok := ref.ECDSARecover(digest, r, s, int(v))
	if v > 3 {
		ok = false
	}
	acc := "error"
	if ok {
		acc = "recovered"
	}
	cl := []string{"r:" + rsrc, acc, fmt.Sprintf("v:%d", min(int(v), 4))}
	if ok && v&2 != 0 {
		cl = append(cl, "recovered-with-bit1")
	}
	stat.Case("recover", cl, true, []byte(fmt.Sprintf("%x|%x|%x|%d", digest, r, s, v)), func() any {
		return map[string]any{"digest": stat.Hex(digest), "r": r.Text(16), "s": s.Text(16), "v": v, "r_source": rsrc, "expect": acc}
	})
	lr, ls := lib.Sc(r), lib.Sc(s)
	var (
		q   *secec.PublicKey
		err error
	)
	if p := lib.Catch(func() { q, err = secec.RecoverPublicKey(digest, lr, ls, v) }); p != nil {
		t.Fatalf("RecoverPublicKey panicked: %v", p)
	}
	if lib.ScInt(lr).Cmp(r) != 0 || lib.ScInt(ls).Cmp(s) != 0 {
		t.Fatal("RecoverPublicKey modified r or s")
	}
	// follow-up call with the sibling id, then the original again: state carried across calls must not leak
	if v < 4 && rapid.Bool().Draw(t, "follow-up") {
		w2, ok2 := ref.ECDSARecover(digest, r, s, int(v^1))
		q2, err2 := secec.RecoverPublicKey(digest, lr, ls, v^1)
		if ok2 != (err2 == nil) || (ok2 && !bytes.Equal(q2.Bytes(), w2.Uncompressed())) {
			t.Fatalf("RecoverPublicKey(digest=%x, r=%x, s=%x, v=%d) right after v=%d: err=%v, reference ok=%v %v", digest, r, s, v^1, v, err2, ok2, w2)
		}
		q3, err3 := secec.RecoverPublicKey(digest, lr, ls, v)
		if (err3 == nil) != (err == nil) || (err == nil && !q3.Equal(q)) {
			t.Fatalf("RecoverPublicKey(digest=%x, r=%x, s=%x, v=%d) differs between two identical calls", digest, r, s, v)
		}
	}
	if !ok {
		if err == nil || q != nil {
			t.Fatalf("RecoverPublicKey(digest=%x, r=%x, s=%x, v=%d) returned a key, want an error", digest, r, s, v)
		}
		return
	}
	if err != nil {
		t.Fatalf("RecoverPublicKey(digest=%x, r=%x, s=%x, v=%d) failed: %v; want %v", digest, r, s, v, err, want)
	}
	if !bytes.Equal(q.Bytes(), want.Uncompressed()) {
		t.Fatalf("RecoverPublicKey(digest=%x, r=%x, s=%x, v=%d) = %x, want %v", digest, r, s, v, q.Bytes(), want)
	}
	// the key object is the caller's from now on: other recoveries and verifications (their scratch state, their
	// result objects) come and go before it is used, and other parts of the API use it too
	if rapid.Bool().Draw(t, "other-calls-before-use") {
		od := big.NewInt(int64(rapid.IntRange(1, 1<<30).Draw(t, "other-key")))
		odg := gen.Bytes(t, 32, 32, "other-digest")
		or, os, oid, ok := ref.ECDSASignWithNonce(od, big.NewInt(int64(rapid.IntRange(1, 1<<30).Draw(t, "other-nonce"))), odg)
		if ok {
			ols, neg := ref.LowS(os)
			if neg {
				oid ^= 1
			}
			for k := rapid.IntRange(1, 3).Draw(t, "other-calls"); k > 0; k-- {
				oq, oerr := secec.RecoverPublicKey(odg, lib.Sc(or), lib.Sc(ols), byte(oid))
				if oerr != nil || !bytes.Equal(oq.Bytes(), ref.BaseMul(od).Uncompressed()) || !oq.VerifyRaw(odg, lib.Sc(or), lib.Sc(ols)) {
					t.Fatalf("an unrelated recovery / verification (d=%x) after the recovery under test went wrong: %v", od, oerr)
				}
			}
		}
		if use, msg := lib.UsePublicKeyElsewhere(t, q, want, "q"); msg != "" {
			t.Fatalf("recovered key %v, use %s: %s", want, use, msg)
		}
		if !bytes.Equal(q.Bytes(), want.Uncompressed()) || !bytes.Equal(q.Point().UncompressedBytes(), want.Uncompressed()) {
			t.Fatalf("the recovered key changed while other recoveries / verifications ran: Bytes() = %x, Point() = %x, want %v", q.Bytes(), q.Point().UncompressedBytes(), want)
		}
	}
	// every returned key verifies the signature
	if !ref.ECDSAVerify(want, digest, r, s) {
		t.Fatal("reference: recovered key does not verify (reference model inconsistent)")
	}
	if !q.VerifyRaw(digest, lr, ls) {
		t.Fatalf("recovered key does not verify (r,s) on the digest")
	}
	if !q.Verify(digest, secec.BuildCompactRecoverableSignature(lr, ls, v), &secec.ECDSAOptions{Encoding: secec.EncodingCompactRecoverable, Hash: hashFor(len(digest))}) && hashFor(len(digest)) != 0 {
		t.Fatal("Verify(recoverable) rejects the (r,s,v) the key was recovered from")
	}
}

func TestC11_Recover(t *testing.T) { rapid.Check(t, propRecover) }

// propSignThenRecover: for a signature produced by SignRaw the emitted id
// recovers the signer and no other id does.
func propSignThenRecover(t *rapid.T) {
	d := gen.NonZero256(t, ref.N, "d")
	dlen := gen.Sampled([]int{32, 32, 48, 64}).Draw(t, "dlen")
	digest := gen.Bytes(t, dlen, dlen, "digest")
	rd := gen.Reader(t, 32, "rng")
	key := lib.PrivKey(d)
	r, s, v, err := key.SignRaw(rd, digest)
	if err != nil {
		t.Fatalf("SignRaw: %v", err)
	}
	q := ref.BaseMul(d)
	stat.Case("sign-recover", []string{fmt.Sprintf("v:%d", v), fmt.Sprintf("dlen:%d", dlen)}, true, []byte(fmt.Sprintf("%x|%x|%x", d, digest, rd.Data)), func() any {
		return map[string]any{"d": d.Text(16), "digest": stat.Hex(digest), "v": v}
	})
	for id := byte(0); id < 8; id++ {
		rq, err := secec.RecoverPublicKey(digest, r, s, id)
		if id == v {
			if err != nil || !bytes.Equal(rq.Bytes(), q.Uncompressed()) {
				t.Fatalf("emitted id %d does not recover the signer: %v", v, err)
			}
			continue
		}
		if id > 3 && err == nil {
			t.Fatalf("id %d accepted", id)
		}
		if err == nil && bytes.Equal(rq.Bytes(), q.Uncompressed()) {
			t.Fatalf("id %d also recovers the signer (emitted %d)", id, v)
		}
	}
}

func TestC11_SignThenRecover(t *testing.T) { rapid.Check(t, propSignThenRecover) }

func min(a, b int) int {
	if a < b {
		return a
	}
	return b
}
