package c11

import "crypto"

// hashFor returns a hash identifier whose Size() equals n (0 if none), so
// Verify's digest-length rule can be satisfied for that digest.
func hashFor(n int) crypto.Hash {
	switch n {
	case 32:
		return crypto.SHA256
	case 48:
		return crypto.SHA384
	case 64:
		return crypto.SHA512
	}
	return 0
}
