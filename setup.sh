#!/bin/bash
# Offline setup: warm the Go build cache for the harness (nothing is fetched).
set -e
cd "$(dirname "$0")/harness"
export GOFLAGS=-mod=mod GOPROXY=off GOSUMDB=off GOTOOLCHAIN=local
# make sure the harness go.sum carries /repo's dependency hashes
sort -u /repo/go.sum go.sum -o go.sum
go build ./...
go build -tags verif ./...
go test -count=1 -vet=off ./ref
# warm the caches of the slower build modes (purego, race, cover); failures here are not fatal,
# every check builds what it needs itself
go test -vet=off -tags verif,purego -run '^$' ./c05 ./c19 >/dev/null 2>&1 || true
go test -vet=off -tags verif -race -run '^$' ./c20 >/dev/null 2>&1 || true
go build -tags verif,opcover -cover -covermode=atomic -o /dev/null ./cmd/opserver >/dev/null 2>&1 || true
exit 0
