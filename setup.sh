#!/bin/bash
# Offline setup: warm the Go build cache for the harness (nothing is fetched).
set -e
cd "$(dirname "$0")/harness"
export GOFLAGS=-mod=mod GOPROXY=off GOSUMDB=off GOTOOLCHAIN=local
# make sure the harness go.sum carries /repo's dependency hashes
sort -u /repo/go.sum go.sum -o go.sum
go build ./... 
go build -tags verif ./...
go vet -tags verif ./ref >/dev/null 2>&1 || true
go test -count=1 -vet=off ./ref
